(* The generated metadata functions of src/rt/ovni.c (Gen/RtMeta_gen.v, unit rtmeta) compute exactly the cases of the
   hand-written state machine Rt/RtMetaDefs.step: same die / return, same new tree, same file written, same value returned. *)
From OV Require Import Base.CInt Emu.VersionDefs Rt.RtMetaDefs Rt.RtMetaPre Gen.RtMeta_gen Proofs.RtMetaProofs.
From Coq Require Import ZifyBool.
Local Open Scope Z_scope.

(* ------------------------------------------------------------------ concretisation of a model state *)
Definition enc_pst (p : pst) : Z := match p with PUninit => 0 | PReady => c_ST_READY | PGone => c_ST_READY + 1 end.

(* the view the calling thread `th` has: rproc, its own rthread, the files written *)
Definition rs_of (s : state) (th : nat) (node : Z * Z) (out : list (str * json)) : rstate :=
  let t := tget (st_threads s) th in
  mkRs (enc_pst (st_proc s)) (st_app s) (st_loom s) (st_pid s)
       (b2z (t_ready t)) (b2z (t_finished t)) (t_tid t) (t_cpus t) node
       (match t_rank t with Some _ => 1 | None => 0 end)
       (match t_rank t with Some (r, _) => r | None => 0 end)
       (match t_rank t with Some (_, n) => n | None => 0 end)
       (if t_ready t || t_finished t then Some (t_meta t) else None) out.

(* thread.<tid>/stream.json under rproc.procdir, as thread_metadata_store formats it *)
Definition thread_path (sx : renv) (tid : Z) : str :=
  format [37; 115; 47; 116; 104; 114; 101; 97; 100; 46; 37; 100; 47; 115; 116; 114; 101; 97; 109; 46; 106; 115; 111; 110]
         [AStr (Some (e_procdir sx)); AInt tid].
(* the path fits PATH_MAX (otherwise the runtime dies with "path too long": a matter of the file system) *)
Definition path_ok (sx : renv) (tid : Z) : bool := Z.of_nat (length (thread_path sx tid)) <? 4096.

Definition wpath (sx : renv) (w : option (Z * json)) : list (str * json) :=
  match w with Some (tid, j) => [(thread_path sx tid, j)] | None => [] end.

Lemma firstn_short {A} (l : list A) n : (length l <= n)%nat -> firstn n l = l.
Proof. apply firstn_all2. Qed.

(* ------------------------------------------------------------------ thread_metadata_store *)
Opaque format.
Lemma store_ok sx st fs :
  r_meta st = Some fs -> path_ok sx (r_tid st) = true ->
  thread_metadata_store sx st =
  ROk (tt, mkRs (p_st st) (p_app st) (p_loom st) (p_pid st) (r_ready st) (r_finished st) (r_tid st) (r_cpus st)
                (r_node st) (r_rank_set st) (r_rank st) (r_nranks st) (r_meta st) (r_out st ++ [(thread_path sx (r_tid st), jobj fs)])).
Proof.
  intros M P. unfold path_ok, thread_path in *. apply Z.ltb_lt in P.
  destruct st as [a1 a2 a3 a4 a5 a6 a7 a8 a9 a10 a11 a12 a13 a14].
  cbv [r_meta r_tid] in M, P. subst a13.
  unfold thread_metadata_store.
  cbv [bind bind_ eval ite c_snprintf or_die_ne or_die get_rproc_procdir get_rthread_tid get_rthread_meta
       json_serialize_to_file_pretty ret fst snd c_JSONSuccess
       p_st p_app p_loom p_pid r_ready r_finished r_tid r_cpus r_node r_rank_set r_rank r_nranks r_meta r_out].
  change (0 =? 0) with true. cbv iota.
  match goal with |- context [Z.of_nat (length ?l) >=? 4096] => destruct (Z.of_nat (length l) >=? 4096) eqn:E end; [lia|].
  rewrite firstn_short by lia. reflexivity.
Qed.
Transparent format.

(* ------------------------------------------------------------------ one call: generated code = RtMetaDefs.step *)
(* the outcome of a generated function, started from the concretisation of the model state, against the model's step:
   die() <-> ODie; a return <-> ODone with the concretisation of the new model state, the file written (if any) appended
   under the thread's path, and the returned value related by `val` *)
Definition agrees {A} (sx : renv) (th : nat) (out : list (str * json)) (r : rres (A * rstate)) (o : outcome)
           (val : A -> option json -> Prop) : Prop :=
  match o with
  | ODie => r = RErr E_DIE
  | OOut => True
  | ODone s' w obs => exists a node', r = ROk (a, rs_of s' th node' (out ++ wpath sx w)) /\ val a obs
  end.

Definition no_val (_ : unit) (obs : option json) : Prop := obs = None.

Lemma rs_of_tset s th t' node out :
  rs_of (tset s th t') th node out =
  mkRs (enc_pst (st_proc s)) (st_app s) (st_loom s) (st_pid s)
       (b2z (t_ready t')) (b2z (t_finished t')) (t_tid t') (t_cpus t') node
       (match t_rank t' with Some _ => 1 | None => 0 end)
       (match t_rank t' with Some (r, _) => r | None => 0 end)
       (match t_rank t' with Some (_, n) => n | None => 0 end)
       (if t_ready t' || t_finished t' then Some (t_meta t') else None) out.
Proof. unfold rs_of. rewrite tget_tset_same. reflexivity. Qed.

Lemma enc_ready p : (enc_pst p =? c_ST_READY) = match p with PReady => true | _ => false end.
Proof. destruct p; reflexivity. Qed.

Ltac mon := cbv [bind bind_ eval ite ret fail or_die or_die_ne need upd
                 get_rproc_st get_rproc_app get_rproc_pid get_rproc_loom get_rthread_ready get_rthread_finished get_rthread_tid
                 get_rthread_rank_set get_rthread_rank get_rthread_nranks get_rthread_cpus get_rthread_meta
                 set_rthread_ready set_rthread_finished set_rthread_rank_set set_rthread_rank set_rthread_nranks
                 malloc_ovni_rcpu set_ovni_rcpu_index set_ovni_rcpu_phyid DL_APPEND_rthread_cpus with_node is_null].

Ltac monp := cbv [bind bind_ eval ite ret fail or_die or_die_ne need upd
                 get_rproc_st get_rproc_app get_rproc_pid get_rproc_loom get_rthread_ready get_rthread_finished get_rthread_tid
                 get_rthread_rank_set get_rthread_rank get_rthread_nranks get_rthread_cpus get_rthread_meta
                 set_rthread_ready set_rthread_finished set_rthread_rank_set set_rthread_rank set_rthread_nranks
                 malloc_ovni_rcpu set_ovni_rcpu_index set_ovni_rcpu_phyid DL_APPEND_rthread_cpus with_node is_null
                 p_st p_app p_loom p_pid r_ready r_finished r_tid r_cpus r_node r_rank_set r_rank r_nranks r_meta r_out fst snd
                 t_ready t_finished t_tid t_cpus t_rank t_meta].
Ltac prj := cbn [p_st p_app p_loom p_pid r_ready r_finished r_tid r_cpus r_node r_rank_set r_rank r_nranks r_meta r_out fst snd
                  t_ready t_finished t_tid t_cpus t_rank t_meta with_meta_].

Theorem add_cpu_from_source sx s th node out i p :
  agrees sx th out (ovni_add_cpu i p sx (rs_of s th node out)) (step src_cfg s th (AddCpu i p)) no_val.
Proof.
  unfold step. destruct (in_dom (AddCpu i p)); cbn [negb]; [|exact I].
  unfold ovni_add_cpu, rs_of, proc_ready.
  destruct (tget (st_threads s) th) as [rd fin tid cpus rank meta] eqn:T. monp.
  destruct (i <? 0); [reflexivity|]. destruct (p <? 0); [reflexivity|].
  rewrite enc_ready. destruct (st_proc s) eqn:PS; cbn [negb]; try reflexivity.
  destruct rd; cbn [negb b2z Z.eqb]; [|reflexivity].
  cbn [agrees]. exists tt, (i, p). split; [|reflexivity].
  rewrite rs_of_tset, PS. prj. cbn [wpath]. rewrite app_nil_r. reflexivity.
Qed.

Theorem set_rank_from_source sx s th node out r n :
  agrees sx th out (ovni_proc_set_rank r n sx (rs_of s th node out)) (step src_cfg s th (ProcSetRank r n)) no_val.
Proof.
  unfold step. destruct (in_dom (ProcSetRank r n)); cbn [negb]; [|exact I].
  unfold ovni_proc_set_rank, rs_of, proc_ready.
  destruct (tget (st_threads s) th) as [rd fin tid cpus rank meta] eqn:T. monp.
  rewrite enc_ready. destruct (st_proc s) eqn:PS; cbn [negb]; try reflexivity.
  destruct rd; cbn [negb b2z Z.eqb]; [|reflexivity].
  cbn [agrees]. exists tt, node. split; [|reflexivity].
  rewrite rs_of_tset, PS. prj. cbn [wpath]. rewrite app_nil_r. reflexivity.
Qed.

(* get_thread_metadata = the gate of the attribute calls *)
Lemma gtm_from_source sx s th node out :
  get_thread_metadata sx (rs_of s th node out) =
  if attr_gate (tget (st_threads s) th) then ROk (Some tt, rs_of s th node out) else RErr E_DIE.
Proof.
  unfold get_thread_metadata, attr_gate. mon. unfold json_value_get_object, rs_of.
  destruct (tget (st_threads s) th) as [rd fin tid cpus rank meta]. prj.
  destruct fin, rd; reflexivity.
Qed.

Lemma rs_meta_live s th node out :
  attr_gate (tget (st_threads s) th) = true -> r_meta (rs_of s th node out) = Some (t_meta (tget (st_threads s) th)).
Proof.
  unfold attr_gate, rs_of. destruct (tget (st_threads s) th) as [rd fin tid cpus rank meta]. prj.
  destruct fin, rd; try discriminate. reflexivity.
Qed.

Lemma rs_of_with_meta s th node out fs :
  attr_gate (tget (st_threads s) th) = true ->
  with_meta_ (rs_of s th node out) (Some fs) = rs_of (tset s th (with_meta (tget (st_threads s) th) fs)) th node out.
Proof.
  intros G. rewrite rs_of_tset. unfold attr_gate, rs_of, with_meta in *.
  destruct (tget (st_threads s) th) as [rd fin tid cpus rank meta]. prj. prj.
  destruct fin, rd; try discriminate. reflexivity.
Qed.

(* the three scalar setters and the JSON setter share json_object_dotset_* = attr_store *)
Lemma attr_store_from_source sx s th node out key v (m : ptr_jobject -> M unit) :
  (forall st, m (Some tt) sx st = match r_meta st with
                        | Some fs => match dotset fs key v with Some fs' => ROk (tt, with_meta_ st (Some fs')) | None => RErr E_DIE end
                        | None => RErr E_DIE end) ->
  agrees sx th out (bind get_thread_metadata m sx (rs_of s th node out)) (attr_store s th key v) no_val.
Proof.
  intros Hm. unfold attr_store, bind. rewrite gtm_from_source.
  destruct (attr_gate (tget (st_threads s) th)) eqn:G; cbn [negb]; [|reflexivity].
  rewrite Hm, (rs_meta_live _ _ _ _ G). unfold attr_set.
  destruct (dotset (t_meta (tget (st_threads s) th)) key v) as [fs'|]; [|reflexivity].
  cbn [agrees]. exists tt, node. split; [|reflexivity].
  rewrite (rs_of_with_meta _ _ _ _ _ G). cbn [wpath]. rewrite app_nil_r. reflexivity.
Qed.

Ltac setter_body :=
  intros st; cbv [bind_ bind or_die root_dotset ret json_object_dotset_number json_object_dotset_string json_object_dotset_boolean
                  json_object_dotset_value];
  destruct (r_meta st) as [fs|]; [|reflexivity];
  match goal with |- context [dotset fs ?k ?v] => destruct (dotset fs k v); reflexivity end.

Theorem attr_set_double_from_source sx s th node out k v :
  agrees sx th out (ovni_attr_set_double (Some k) v sx (rs_of s th node out)) (step src_cfg s th (AttrSetDouble k v)) no_val.
Proof.
  unfold step. destruct (in_dom (AttrSetDouble k v)); cbn [negb]; [|exact I].
  unfold ovni_attr_set_double. apply (attr_store_from_source sx s th node out k (jnum v)). setter_body.
Qed.

Theorem attr_set_str_from_source sx s th node out k v :
  agrees sx th out (ovni_attr_set_str (Some k) (Some v) sx (rs_of s th node out)) (step src_cfg s th (AttrSetStr k v)) no_val.
Proof.
  unfold step. destruct (in_dom (AttrSetStr k v)); cbn [negb]; [|exact I].
  unfold ovni_attr_set_str. apply (attr_store_from_source sx s th node out k (jstr v)). setter_body.
Qed.

Theorem attr_set_boolean_from_source sx s th node out k (b : bool) :
  agrees sx th out (ovni_attr_set_boolean (Some k) (b2z b) sx (rs_of s th node out)) (step src_cfg s th (AttrSetBool k b)) no_val.
Proof.
  unfold step. destruct (in_dom (AttrSetBool k b)); cbn [negb]; [|exact I].
  unfold ovni_attr_set_boolean. apply (attr_store_from_source sx s th node out k (jbool b)).
  assert (E : negb (b2z b =? 0) = b) by (destruct b; reflexivity).
  intros st. cbv [bind_ bind or_die root_dotset ret json_object_dotset_boolean]. rewrite E.
  destruct (r_meta st) as [fs|]; [|reflexivity]. destruct (dotset fs k (jbool b)); reflexivity.
Qed.

(* ovni_attr_set_json(key, text): the text is a serialisation of v, i.e. parson's parser (the oracle e_parse) gives back v
   when it accepts it (no repeated names) and fails otherwise *)
Theorem attr_set_json_from_source sx s th node out k v text :
  e_parse sx text = (if json_parses v then Some v else None) ->
  agrees sx th out (ovni_attr_set_json (Some k) (Some text) sx (rs_of s th node out)) (step src_cfg s th (AttrSetJson k v)) no_val.
Proof.
  intros P. unfold step. destruct (in_dom (AttrSetJson k v)); cbn [negb]; [|exact I].
  unfold ovni_attr_set_json.
  destruct (attr_gate (tget (st_threads s) th)) eqn:G; cbn [negb].
  - destruct (json_parses v) eqn:JP; cbn [negb].
    + apply (attr_store_from_source sx s th node out k v).
      intros st. cbv [bind_ bind eval ite or_die root_dotset ret json_object_dotset_value json_parse_string is_null]. rewrite P.
      destruct (r_meta st) as [fs|]; [|reflexivity]. destruct (dotset fs k v); reflexivity.
    + unfold bind. rewrite gtm_from_source, G.
      cbv [bind_ bind eval ite json_parse_string is_null fail]. rewrite P. reflexivity.
  - unfold bind. rewrite gtm_from_source, G. reflexivity.
Qed.

(* ---- the reading calls: the value returned *)
Lemma dotget_from_source sx s th node out k :
  attr_gate (tget (st_threads s) th) = true ->
  json_object_dotget_value sx (rs_of s th node out) (Some tt) (Some k) =
  match attr_get (t_meta (tget (st_threads s) th)) k with Some j => Some (JVal j) | None => None end.
Proof. intros G. unfold json_object_dotget_value. rewrite (rs_meta_live _ _ _ _ G). reflexivity. Qed.

Ltac reader G :=
  unfold bind; rewrite gtm_from_source, G; cbv [eval ite is_null fail]; rewrite (dotget_from_source _ _ _ _ _ _ G).

Theorem attr_has_from_source sx s th node out k :
  agrees sx th out (ovni_attr_has (Some k) sx (rs_of s th node out)) (step src_cfg s th (AttrHas k))
         (fun a obs => exists b, a = b2z b /\ obs = Some (jbool b)).
Proof.
  unfold step. destruct (in_dom (AttrHas k)); cbn [negb]; [|exact I].
  unfold ovni_attr_has. destruct (attr_gate (tget (st_threads s) th)) eqn:G; cbn [negb].
  - reader G. unfold attr_has, attr_get. cbn [agrees wpath]. rewrite app_nil_r.
    destruct (dotget (t_meta (tget (st_threads s) th)) k); eexists; exists node; (split; [reflexivity|]);
      [exists true|exists false]; split; reflexivity.
  - unfold bind. rewrite gtm_from_source, G. reflexivity.
Qed.

Theorem attr_get_double_from_source sx s th node out k :
  agrees sx th out (ovni_attr_get_double (Some k) sx (rs_of s th node out)) (step src_cfg s th (AttrGetDouble k))
         (fun a obs => obs = Some (jnum a)).
Proof.
  unfold step. destruct (in_dom (AttrGetDouble k)); cbn [negb]; [|exact I].
  unfold ovni_attr_get_double, attr_read. destruct (attr_gate (tget (st_threads s) th)) eqn:G; cbn [negb].
  - reader G. destruct (attr_get (t_meta (tget (st_threads s) th)) k) as [[| | | | |]|]; try reflexivity.
    cbn [agrees wpath]. rewrite app_nil_r. eexists; exists node; split; reflexivity.
  - unfold bind. rewrite gtm_from_source, G. reflexivity.
Qed.

Theorem attr_get_boolean_from_source sx s th node out k :
  agrees sx th out (ovni_attr_get_boolean (Some k) sx (rs_of s th node out)) (step src_cfg s th (AttrGetBool k))
         (fun a obs => exists b, a = b2z b /\ obs = Some (jbool b)).
Proof.
  unfold step. destruct (in_dom (AttrGetBool k)); cbn [negb]; [|exact I].
  unfold ovni_attr_get_boolean, attr_read. destruct (attr_gate (tget (st_threads s) th)) eqn:G; cbn [negb].
  - reader G. destruct (attr_get (t_meta (tget (st_threads s) th)) k) as [[| | | | |]|]; try reflexivity.
    cbn [agrees wpath]. rewrite app_nil_r. eexists; exists node; split; [reflexivity|]. eexists; split; reflexivity.
  - unfold bind. rewrite gtm_from_source, G. reflexivity.
Qed.

Theorem attr_get_str_from_source sx s th node out k :
  agrees sx th out (ovni_attr_get_str (Some k) sx (rs_of s th node out)) (step src_cfg s th (AttrGetStr k))
         (fun a obs => exists b, a = Some b /\ obs = Some (jstr b)).
Proof.
  unfold step. destruct (in_dom (AttrGetStr k)); cbn [negb]; [|exact I].
  unfold ovni_attr_get_str, attr_read. destruct (attr_gate (tget (st_threads s) th)) eqn:G; cbn [negb].
  - reader G. destruct (attr_get (t_meta (tget (st_threads s) th)) k) as [[| | | | |]|]; try reflexivity.
    cbn [agrees wpath]. rewrite app_nil_r. eexists; exists node; split; [reflexivity|]. eexists; split; reflexivity.
  - unfold bind. rewrite gtm_from_source, G. reflexivity.
Qed.

(* ovni_attr_get_json returns the text parson's printer (the oracle e_print) gives for the value *)
Theorem attr_get_json_from_source sx s th node out k :
  agrees sx th out (ovni_attr_get_json (Some k) sx (rs_of s th node out)) (step src_cfg s th (AttrGetJson k))
         (fun a obs => exists j, a = Some (e_print sx j) /\ obs = Some j).
Proof.
  unfold step. destruct (in_dom (AttrGetJson k)); cbn [negb]; [|exact I].
  unfold ovni_attr_get_json, attr_read. destruct (attr_gate (tget (st_threads s) th)) eqn:G; cbn [negb].
  - reader G. destruct (attr_get (t_meta (tget (st_threads s) th)) k) as [j|]; [|reflexivity].
    cbv [bind eval ite is_null json_serialize_to_string].
    cbn [agrees wpath]. rewrite app_nil_r. eexists; exists node; split; [reflexivity|]. eexists; split; reflexivity.
  - unfold bind. rewrite gtm_from_source, G. reflexivity.
Qed.

(* ---- ovni_attr_flush: the store *)
Theorem attr_flush_from_source sx s th node out :
  path_ok sx (t_tid (tget (st_threads s) th)) = true ->
  agrees sx th out (ovni_attr_flush sx (rs_of s th node out)) (step src_cfg s th AttrFlush) no_val.
Proof.
  intros P. unfold step. cbn [in_dom negb]. unfold ovni_attr_flush. mon.
  remember (rs_of s th node out) as rs eqn:RS.
  assert (F : r_finished rs = b2z (t_finished (tget (st_threads s) th)) /\ r_ready rs = b2z (t_ready (tget (st_threads s) th)) /\
              r_tid rs = t_tid (tget (st_threads s) th)) by (subst rs; repeat split).
  destruct F as (F1 & F2 & F3). rewrite F1, F2.
  destruct (t_finished (tget (st_threads s) th)) eqn:TF; cbn [b2z Z.eqb negb]; [reflexivity|].
  destruct (t_ready (tget (st_threads s) th)) eqn:TR; cbn [b2z Z.eqb negb]; [|reflexivity].
  assert (G : attr_gate (tget (st_threads s) th) = true) by (unfold attr_gate; rewrite TF, TR; reflexivity).
  rewrite (store_ok sx rs (t_meta (tget (st_threads s) th))); [|subst rs; apply rs_meta_live; exact G|rewrite F3; exact P].
  cbn [agrees]. exists tt, node. split; [|reflexivity]. subst rs. cbn [wpath]. unfold rs_of. prj.
  rewrite TF, TR. reflexivity.
Qed.

(* ---- ovni_thread_require *)
Lemma strpbrk_space_dot m :
  is_null (strpbrk_go m [32; 46]) = negb (existsb (fun ch => (ch =? 32) || (ch =? DOTC)) m).
Proof.
  induction m as [|c r IH]; [reflexivity|]. cbn [strpbrk_go existsb]. unfold DOTC.
  destruct (c =? 32); [reflexivity|]. destruct (c =? 46); [reflexivity|]. cbn [orb]. exact IH.
Qed.

Lemma split_nodot m : existsb (fun ch => (ch =? 32) || (ch =? DOTC)) m = false -> split_dots_ne m = (m, []).
Proof.
  induction m as [|c r IH]; [reflexivity|]. cbn [existsb]. intros H. apply orb_false_iff in H as [H1 H2].
  apply orb_false_iff in H1 as [_ H1]. cbn [split_dots_ne]. rewrite (IH H2), H1. reflexivity.
Qed.

Definition k_req_prefix : str := [111; 118; 110; 105; 46; 114; 101; 113; 117; 105; 114; 101; 46].   (* "ovni.require." *)

Lemma split_req m : existsb (fun ch => (ch =? 32) || (ch =? DOTC)) m = false ->
  split_dots (k_req_prefix ++ m) = [k_ovni; k_require; m].
Proof.
  intros H. unfold split_dots, k_req_prefix. cbn [List.app split_dots_ne]. rewrite (split_nodot m H). reflexivity.
Qed.

Theorem require_from_source sx s th node out m v :
  agrees sx th out (ovni_thread_require (Some m) (Some v) sx (rs_of s th node out)) (step src_cfg s th (Require m v)) no_val.
Proof.
  unfold step. destruct (in_dom (Require m v)); cbn [negb]; [|exact I].
  unfold ovni_thread_require.
  cbv [bind bind_ eval ite ret fail or_die get_rthread_ready get_rthread_meta
       strpbrk strlen str_lit version_parse_out c_snprintf json_value_get_object json_object_dotset_string root_dotset].
  cbn [is_null].
  remember (rs_of s th node out) as rs eqn:RS.
  assert (F : r_ready rs = b2z (t_ready (tget (st_threads s) th))) by (subst rs; reflexivity). rewrite F.
  destruct (t_ready (tget (st_threads s) th)) eqn:TR; cbn [b2z Z.eqb negb]; [|reflexivity].
  unfold require_tree. rewrite strpbrk_space_dot.
  destruct (existsb (fun ch => (ch =? 32) || (ch =? DOTC)) m) eqn:SD; cbn [negb]; [reflexivity|].
  change (cast_uint64 1) with 1.
  destruct (length m <=? 1)%nat eqn:L1.
  { apply Nat.leb_le in L1. destruct (Z.of_nat (length m) <=? 1) eqn:L2; [reflexivity|lia]. }
  apply Nat.leb_gt in L1. destruct (Z.of_nat (length m) <=? 1) eqn:L2; [lia|].
  destruct (version_parse (Some v)) as [pv|]; [|reflexivity].
  assert (M : r_meta rs = Some (t_meta (tget (st_threads s) th))).
  { subst rs. unfold rs_of. prj. rewrite TR. reflexivity. }
  rewrite M. cbn [fst snd is_null].
  assert (FM : format [111; 118; 110; 105; 46; 114; 101; 113; 117; 105; 114; 101; 46; 37; 115] [AStr (Some m)] = k_req_prefix ++ m).
  { cbn. rewrite app_nil_r. reflexivity. }
  rewrite FM. rewrite app_length. change (length k_req_prefix) with 13%nat.
  destruct (128 <=? 13 + Z.of_nat (length m)) eqn:L3.
  { destruct (Z.of_nat (13 + length m) >=? 128) eqn:L4; [reflexivity|lia]. }
  destruct (Z.of_nat (13 + length m) >=? 128) eqn:L4; [lia|].
  rewrite firstn_short by (rewrite app_length; change (length k_req_prefix) with 13%nat; lia).
  unfold dotset. rewrite (split_req m SD).
  match goal with |- context [pset ?a ?b ?c] => destruct (pset a b c) as [fs'|] eqn:PG end;
    repeat match goal with |- context [pset ?a ?b ?c] =>
             let H := fresh in assert (H : pset a b c = _) by exact PG; rewrite H; clear H end; [|reflexivity].
  cbn [agrees]. exists tt, node. split; [|reflexivity]. subst rs.
  assert (G : forall fs, with_meta_ (rs_of s th node out) (Some fs) = rs_of (tset s th (with_meta (tget (st_threads s) th) fs)) th node out).
  { intros fs. rewrite rs_of_tset. unfold rs_of, with_meta. prj. rewrite TR. reflexivity. }
  rewrite G. cbn [wpath]. rewrite app_nil_r. reflexivity.
Qed.

(* ---- set_thread_cpus: the counted loop as rendered from the source = the fold free_tree writes *)
Lemma loop_object_cpu c :
  loop_object [(str_lit [105; 110; 100; 101; 120], fld_ovni_rcpu_index); (str_lit [112; 104; 121; 105; 100], fld_ovni_rcpu_phyid)] c
  = Some (cpu_json c).
Proof. reflexivity. Qed.

Theorem set_thread_cpus_from_source sx st fs :
  r_meta st = Some fs -> set_thread_cpus (Some tt) sx st = set_thread_cpus_fold (Some tt) sx st.
Proof.
  intros M. unfold set_thread_cpus, array_of_list_loop, set_thread_cpus_fold, get_rthread_cpus_list.
  rewrite (all_some_map _ cpu_json) by (intros e _; apply loop_object_cpu).
  unfold or_die, root_dotset, str_lit. rewrite M.
  change (dotset fs [111; 118; 110; 105; 46; 108; 111; 111; 109; 95; 99; 112; 117; 115] (jarr (map cpu_json (r_cpus st))))
    with (pset fs [k_ovni; k_loom_cpus] (jarr (map cpu_json (r_cpus st)))).
  destruct (pset fs [k_ovni; k_loom_cpus] (jarr (map cpu_json (r_cpus st)))); reflexivity.
Qed.

(* ---- ovni_thread_free: rank, CPUs, ovni.finished, the store, then the flags (the calls outside the metadata state are the
   identity of RtMetaPre.v) *)
Lemma ds_rank fs v : dotset fs [111; 118; 110; 105; 46; 114; 97; 110; 107] v = pset fs [k_ovni; k_rank] v.
Proof. reflexivity. Qed.
Lemma ds_nranks fs v : dotset fs [111; 118; 110; 105; 46; 110; 114; 97; 110; 107; 115] v = pset fs [k_ovni; k_nranks] v.
Proof. reflexivity. Qed.
Lemma ds_finished fs v : dotset fs [111; 118; 110; 105; 46; 102; 105; 110; 105; 115; 104; 101; 100] v = pset fs [k_ovni; k_finished] v.
Proof. reflexivity. Qed.
Ltac monf := cbv [bind bind_ eval ite ret fail or_die get_rthread_finished get_rthread_ready get_rthread_meta get_rthread_rank_set
       get_rthread_cpus get_rthread_rank get_rthread_nranks json_value_get_object set_thread_rank set_thread_cpus_fold
       json_object_dotset_number root_dotset str_lit free close move_thdir_to_final try_clean_dir set_rthread_evbuf
       set_rthread_streamfd get_rthread_evbuf get_rthread_streamfd get_rproc_move_to_final get_rthread_thdir get_rthread_thdir_final
       set_rthread_finished set_rthread_ready upd with_meta_ is_null
       p_st p_app p_loom p_pid r_ready r_finished r_tid r_cpus r_node r_rank_set r_rank r_nranks r_meta r_out
       t_ready t_finished t_tid t_cpus t_rank t_meta E_FAIL E_DIE Nat.eqb].
Ltac align_pset PG :=
  repeat match goal with |- context [pset ?a ?b ?c] =>
           let H := fresh in assert (H : pset a b c = _) by exact PG; rewrite H; clear H end.
Theorem thread_free_from_source : forall sx s th node out,
  path_ok sx (t_tid (tget (st_threads s) th)) = true ->
  agrees sx th out (ovni_thread_free sx (rs_of s th node out)) (step src_cfg s th ThreadFree) no_val.
Proof.
  intros sx s th node out P. unfold step. cbn [in_dom negb]. unfold ovni_thread_free, rs_of.
  destruct (tget (st_threads s) th) as [rd fin tid cpus rank meta] eqn:T. cbn [t_tid] in P.
  destruct fin; [monf; reflexivity|]. destruct rd; [|monf; reflexivity].
  unfold free_tree. cbn [t_rank t_cpus t_meta psets t_finished t_ready].
  destruct rank as [[r n]|]; destruct cpus as [|c0 cs];
    repeat (monf; cbn [b2z Z.eqb negb orb];
            try (erewrite set_thread_cpus_from_source by reflexivity; monf; cbn [b2z Z.eqb negb orb]);
            rewrite ?ds_rank, ?ds_nranks, ?ds_finished;
            match goal with |- context [pset ?a ?b ?c] => let PG := fresh "PG" in destruct (pset a b c) as [?fs|] eqn:PG; align_pset PG end).
  all: try (monf; reflexivity).
  all: monf; cbn [b2z Z.eqb negb orb].
  all: match goal with |- context [thread_metadata_store ?e ?rs] =>
         match rs with context [Some ?f] => rewrite (store_ok e rs f eq_refl P) end end.
  all: monf; destruct (e_move sx =? 0); cbn [negb agrees]; exists tt, node; (split; [|reflexivity]);
       rewrite rs_of_tset; monf; cbn [wpath b2z orb]; reflexivity.
Qed.

(* ---- the metadata part of ovni_thread_init *)
(* rthread right after the memset and `rthread.tid = tid` of ovni_thread_init (not translated): nothing set but the tid *)
Definition init_view (s : state) (tid : Z) (node : Z * Z) (out : list (str * json)) : rstate :=
  mkRs (enc_pst (st_proc s)) (st_app s) (st_loom s) (st_pid s) 0 0 tid [] node 0 0 0 None out.
(* the metadata part of ovni_thread_init, in the order of the C function: thread_metadata_init(); rthread.ready = 1;
   ovni_thread_require("ovni", OVNI_MODEL_VERSION) - the three pieces are generated, the sequencing is written here *)
Definition src_thread_init_meta : M unit :=
  bind_ thread_metadata_init
        (bind_ (set_rthread_ready (fun _ _ => 1)) (ovni_thread_require (str_lit k_ovni) (str_lit (c_model_version src_cfg)))).

Lemma populate_from_source sx s tid node out :
  exists fs, populate src_cfg s tid = Some fs /\
    thread_metadata_populate sx (mkRs (enc_pst (st_proc s)) (st_app s) (st_loom s) (st_pid s) 0 0 tid [] node 0 0 0 (Some []) out) =
    ROk (tt, mkRs (enc_pst (st_proc s)) (st_app s) (st_loom s) (st_pid s) 0 0 tid [] node 0 0 0 (Some fs) out).
Proof.
  destruct s as [pr a l p ts]. cbn [st_proc st_app st_loom st_pid]. generalize (enc_pst pr). intros e.
  eexists. split; vm_compute; reflexivity.
Qed.

Theorem thread_init_metadata_from_source sx s th tid node out :
  path_ok sx tid = true ->
  exists node', src_thread_init_meta sx (init_view s tid node out) =
  match populate src_cfg s tid with
  | None => RErr E_DIE
  | Some fs =>
    match require_tree fs k_ovni (c_model_version src_cfg) with
    | None => RErr E_DIE
    | Some fs' => ROk (tt, rs_of (tset s th (mkT true false tid [] None fs')) th node' (out ++ [(thread_path sx tid, jobj fs)]))
    end
  end.
Proof.
  intros P. destruct (populate_from_source sx s tid node out) as (fs & PO & PG). rewrite PO.
  unfold src_thread_init_meta, thread_metadata_init, init_view.
  cbv [bind bind_ eval ite ret fail set_rthread_meta json_value_init_object with_meta_ get_rthread_meta is_null
       p_st p_app p_loom p_pid r_ready r_finished r_tid r_cpus r_node r_rank_set r_rank r_nranks r_meta r_out].
  rewrite PG.
  match goal with |- context [thread_metadata_store ?e ?rs] => rewrite (store_ok e rs fs eq_refl P) end.
  cbv [set_rthread_ready upd p_st p_app p_loom p_pid r_ready r_finished r_tid r_cpus r_node r_rank_set r_rank r_nranks r_meta r_out].
  (* the state is the view of the thread with the populated tree: the require is the proved call *)
  set (s1 := tset s th (mkT true false tid [] None fs)).
  pose proof (require_from_source sx s1 th node (out ++ [(thread_path sx tid, jobj fs)]) k_ovni (c_model_version src_cfg)) as R.
  unfold step in R. change (in_dom (Require k_ovni (c_model_version src_cfg))) with true in R. cbn [negb] in R.
  unfold s1 in R. rewrite tget_tset_same in R. cbn [t_ready negb t_meta] in R. rewrite rs_of_tset in R.
  cbn [t_ready t_finished t_tid t_cpus t_rank t_meta b2z orb] in R.
  unfold str_lit.
  destruct (require_tree fs k_ovni (c_model_version src_cfg)) as [fs'|].
  - cbn [agrees] in R. destruct R as ([] & node' & R & _). exists node'. rewrite R. cbn [wpath]. rewrite app_nil_r.
    unfold with_meta. cbn [t_ready t_finished t_tid t_cpus t_rank t_meta].
    rewrite !rs_of_tset. reflexivity.
  - cbn [agrees] in R. exists node. rewrite R. reflexivity.
Qed.

(* ... which is the model's ThreadInit case for a thread that passes the guards of ovni_thread_init (not ready, not finished,
   tid <> 0, process ready: the untranslated head of the function) *)
Theorem thread_init_step_from_source sx s th tid node out :
  path_ok sx tid = true -> in_dom (ThreadInit tid) = true ->
  t_ready (tget (st_threads s) th) = false -> t_finished (tget (st_threads s) th) = false -> tid <> 0 -> proc_ready s = true ->
  agrees sx th out (src_thread_init_meta sx (init_view s tid node out)) (step src_cfg s th (ThreadInit tid)) no_val.
Proof.
  intros P D R F T0 PR. unfold step. rewrite D, R, F, PR. cbn [negb].
  destruct (tid =? 0) eqn:E; [lia|].
  destruct (thread_init_metadata_from_source sx s th tid node out P) as (node' & H). rewrite H.
  destruct (populate src_cfg s tid) as [fs|]; [|reflexivity].
  destruct (require_tree fs k_ovni (c_model_version src_cfg)) as [fs'|]; [|reflexivity].
  cbn [agrees wpath]. exists tt, node'. split; reflexivity.
Qed.

(* ---- the whole ovni_thread_init *)
Lemma bind__eq {A B} (m : M A) (k : M B) sx st :
  bind_ m k sx st = match m sx st with ROk (_, st') => k sx st' | RErr e => RErr e end.
Proof. reflexivity. Qed.

(* the whole generated ovni_thread_init = the model's ThreadInit case, refusals included: already initialised (ignored),
   finished, tid 0, process not ready; then memset, tid, the buffer / stream calls (primitives outside the metadata state),
   thread_metadata_init, ready, the implicit require *)
Theorem thread_init_from_source sx s th tid node out :
  path_ok sx tid = true ->
  agrees sx th out (ovni_thread_init tid sx (rs_of s th node out)) (step src_cfg s th (ThreadInit tid)) no_val.
Proof.
  intros P. unfold step. destruct (in_dom (ThreadInit tid)) eqn:D; cbn [negb]; [|exact I].
  unfold ovni_thread_init, rs_of, proc_ready.
  destruct (tget (st_threads s) th) as [rd fin tid0 cpus rank meta] eqn:T.
  cbv [ite get_rthread_ready get_rthread_finished get_rproc_st p_st r_ready r_finished t_ready t_finished].
  destruct rd; cbn [b2z Z.eqb negb].
  { cbn [agrees wpath ret]. exists tt, node. rewrite app_nil_r. split; [|reflexivity].
    unfold ret, rs_of. rewrite T. reflexivity. }
  destruct fin; cbn [b2z Z.eqb negb]; [reflexivity|].
  destruct (tid =? 0) eqn:E0; [reflexivity|].
  rewrite enc_ready. destruct (st_proc s) eqn:PS; cbn [negb]; try reflexivity.
  rewrite bind__eq. unfold zero_rthread.
  cbn [p_st p_app p_loom p_pid r_ready r_finished r_tid r_cpus r_node r_rank_set r_rank r_nranks r_meta r_out].
  rewrite bind__eq. unfold set_rthread_tid, upd.
  cbn [p_st p_app p_loom p_pid r_ready r_finished r_tid r_cpus r_node r_rank_set r_rank r_nranks r_meta r_out].
  match goal with |- agrees _ _ _ ?X _ _ => assert (EQ : X = src_thread_init_meta sx (init_view s tid node out)) end.
  { unfold src_thread_init_meta, init_view. rewrite PS.
    cbv [bind_ bind set_rthread_evlen set_rthread_evbuf ite get_rthread_evbuf is_null create_thread_dir create_trace_stream
         write_stream_header ret k_ovni c_model_version src_cfg].
    match goal with |- context [thread_metadata_init ?e ?st] => destruct (thread_metadata_init e st) as [[[] st1]|e1]; [|reflexivity] end.
    match goal with |- context [set_rthread_ready ?f ?e ?st] => destruct (set_rthread_ready f e st) as [[[] st2]|e2]; [|reflexivity] end.
    match goal with |- context [ovni_thread_require ?a ?b ?e ?st] => destruct (ovni_thread_require a b e st) as [[[] st3]|e3]; reflexivity end. }
  rewrite EQ.
  destruct (thread_init_metadata_from_source sx s th tid node out P) as (node' & H). rewrite H.
  destruct (populate src_cfg s tid) as [fs|]; [|reflexivity].
  destruct (require_tree fs k_ovni (c_model_version src_cfg)) as [fs'|]; [|reflexivity].
  cbn [agrees wpath]. exists tt, node'. split; reflexivity.
Qed.

(* ---- ovni_proc_init *)
(* ovni_proc_init as generated = the model's ProcInit case: refused unless the process is uninitialised (the three die()
   of the failed compare-exchange), loom name of OVNI_MAX_HOSTNAME bytes or more refused, then loom / pid / app and READY *)
Theorem proc_init_from_source sx s th node out app loom pid :
  agrees sx th out (ovni_proc_init app (Some loom) pid sx (rs_of s th node out)) (step src_cfg s th (ProcInit app loom pid)) no_val.
Proof.
  unfold step. destruct (in_dom (ProcInit app loom pid)); cbn [negb]; [|exact I].
  unfold ovni_proc_init, rs_of.
  cbv [bind bind_ eval ite ret fail cas_rproc_st with_proc strlen strcpy_rproc_loom set_rproc_pid set_rproc_app set_rproc_clockid
       create_proc_dir set_rproc_st fst snd
       p_st p_app p_loom p_pid r_ready r_finished r_tid r_cpus r_node r_rank_set r_rank r_nranks r_meta r_out].
  destruct (st_proc s) eqn:PS; cbn [enc_pst]; try reflexivity.
  change (0 =? c_ST_UNINIT) with true. cbv iota. change (1 =? 0) with false. cbn [negb].
  change (cast_uint64 512) with 512. unfold OVNI_MAX_HOSTNAME.
  destruct (512 <=? Z.of_nat (length loom)) eqn:L.
  - destruct (Z.of_nat (length loom) >=? 512) eqn:L2; [reflexivity|lia].
  - destruct (Z.of_nat (length loom) >=? 512) eqn:L2; [lia|].
    cbn [agrees wpath]. exists tt, node. split; [|reflexivity]. rewrite app_nil_r. unfold rs_of. reflexivity.
Qed.

(* ---- ovni_proc_fini, ovni_flush *)
(* ovni_proc_fini as generated (single caller: the compare-exchange READY -> GONE, refused when the process is not ready;
   try_clean_dir is outside the metadata state) = the model's ProcFini case *)
Theorem proc_fini_from_source sx s th node out :
  agrees sx th out (ovni_proc_fini sx (rs_of s th node out)) (step src_cfg s th ProcFini) no_val.
Proof.
  unfold step. cbn [in_dom negb]. unfold ovni_proc_fini, rs_of, proc_ready.
  cbv [bind bind_ eval ite ret fail cas_rproc_st with_proc try_clean_dir get_rproc_move_to_final get_rproc_procdir
       get_rproc_loomdir get_rproc_tmpdir fst snd
       p_st p_app p_loom p_pid r_ready r_finished r_tid r_cpus r_node r_rank_set r_rank r_nranks r_meta r_out].
  destruct (st_proc s) eqn:PS; cbn [enc_pst]; try reflexivity.
  change (c_ST_READY =? c_ST_READY) with true. cbv iota. change (1 =? 0) with false. cbn [negb].
  destruct (e_move sx =? 0); cbn [negb agrees wpath]; exists tt, node; (split; [|reflexivity]);
    rewrite app_nil_r; unfold rs_of; reflexivity.
Qed.

(* ovni_flush as generated: the guards on rthread.ready and rproc.st; building and adding the two flush events and writing the
   buffer are the event-buffer model's (unit rtbuf), the identity on the metadata state = the model's Flush case *)
Theorem flush_from_source sx s th node out :
  agrees sx th out (ovni_flush sx (rs_of s th node out)) (step src_cfg s th Flush) no_val.
Proof.
  unfold step. cbn [in_dom negb]. unfold ovni_flush, rs_of, proc_ready.
  destruct (tget (st_threads s) th) as [rd fin tid cpus rank meta] eqn:T.
  cbv [bind bind_ eval ite ret fail get_rthread_ready get_rproc_st ovni_clock_now ovni_ev_set_clock ovni_ev_set_mcv flush_evbuf
       ovni_ev_add p_st r_ready t_ready].
  destruct rd; cbn [b2z Z.eqb negb]; [|reflexivity].
  rewrite enc_ready. destruct (st_proc s) eqn:PS; cbn [negb]; try reflexivity.
  cbn [agrees wpath]. exists tt, node. split; [|reflexivity]. rewrite app_nil_r. unfold rs_of. rewrite T, PS. reflexivity.
Qed.

(* ------------------------------------------------------------------ all translated calls at once *)
(* What "the generated code computes the step of the model" means, for EVERY call of the API (each C function is translated
   and proved above).  Inside them, the event-buffer / stream-file / directory calls (ovni_thread_init, ovni_thread_free,
   ovni_flush, ovni_proc_init, ovni_proc_fini) are primitives of RtMetaPre.v outside the metadata state: units rtbuf / rtfs;
   the compare-exchange of ovni_proc_init / ovni_proc_fini is the single-caller view: unit rtconc. *)
Definition call_agrees (sx : renv) (s : state) (th : nat) (node : Z * Z) (out : list (str * json)) (o : op) : Prop :=
  match o with
  | AddCpu i p => agrees sx th out (ovni_add_cpu i p sx (rs_of s th node out)) (step src_cfg s th o) no_val
  | ProcSetRank r n => agrees sx th out (ovni_proc_set_rank r n sx (rs_of s th node out)) (step src_cfg s th o) no_val
  | Require m v => agrees sx th out (ovni_thread_require (Some m) (Some v) sx (rs_of s th node out)) (step src_cfg s th o) no_val
  | AttrSetStr k v => agrees sx th out (ovni_attr_set_str (Some k) (Some v) sx (rs_of s th node out)) (step src_cfg s th o) no_val
  | AttrSetDouble k v => agrees sx th out (ovni_attr_set_double (Some k) v sx (rs_of s th node out)) (step src_cfg s th o) no_val
  | AttrSetBool k b => agrees sx th out (ovni_attr_set_boolean (Some k) (b2z b) sx (rs_of s th node out)) (step src_cfg s th o) no_val
  | AttrSetJson k v =>
    forall text, e_parse sx text = (if json_parses v then Some v else None) ->
      agrees sx th out (ovni_attr_set_json (Some k) (Some text) sx (rs_of s th node out)) (step src_cfg s th o) no_val
  | AttrHas k => agrees sx th out (ovni_attr_has (Some k) sx (rs_of s th node out)) (step src_cfg s th o)
                        (fun a obs => exists b, a = b2z b /\ obs = Some (jbool b))
  | AttrGetStr k => agrees sx th out (ovni_attr_get_str (Some k) sx (rs_of s th node out)) (step src_cfg s th o)
                           (fun a obs => exists b, a = Some b /\ obs = Some (jstr b))
  | AttrGetDouble k => agrees sx th out (ovni_attr_get_double (Some k) sx (rs_of s th node out)) (step src_cfg s th o)
                              (fun a obs => obs = Some (jnum a))
  | AttrGetBool k => agrees sx th out (ovni_attr_get_boolean (Some k) sx (rs_of s th node out)) (step src_cfg s th o)
                            (fun a obs => exists b, a = b2z b /\ obs = Some (jbool b))
  | AttrGetJson k => agrees sx th out (ovni_attr_get_json (Some k) sx (rs_of s th node out)) (step src_cfg s th o)
                            (fun a obs => exists j, a = Some (e_print sx j) /\ obs = Some j)
  | AttrFlush => agrees sx th out (ovni_attr_flush sx (rs_of s th node out)) (step src_cfg s th o) no_val
  | ThreadFree => agrees sx th out (ovni_thread_free sx (rs_of s th node out)) (step src_cfg s th o) no_val
  | ProcInit app loom pid =>
    agrees sx th out (ovni_proc_init app (Some loom) pid sx (rs_of s th node out)) (step src_cfg s th o) no_val
  | ThreadInit tid => path_ok sx tid = true ->
                      agrees sx th out (ovni_thread_init tid sx (rs_of s th node out)) (step src_cfg s th o) no_val
  | Flush => agrees sx th out (ovni_flush sx (rs_of s th node out)) (step src_cfg s th o) no_val
  | ProcFini => agrees sx th out (ovni_proc_fini sx (rs_of s th node out)) (step src_cfg s th o) no_val
  end.

Theorem metadata_calls_from_source sx s th node out o :
  path_ok sx (t_tid (tget (st_threads s) th)) = true -> call_agrees sx s th node out o.
Proof.
  intros P. destruct o; cbn [call_agrees]; try exact I.
  - apply proc_init_from_source.
  - apply set_rank_from_source.
  - intros Pt. apply thread_init_from_source. exact Pt.
  - apply add_cpu_from_source.
  - apply require_from_source.
  - apply attr_set_str_from_source.
  - apply attr_set_double_from_source.
  - apply attr_set_boolean_from_source.
  - intros text. apply attr_set_json_from_source.
  - apply attr_has_from_source.
  - apply attr_get_str_from_source.
  - apply attr_get_double_from_source.
  - apply attr_get_boolean_from_source.
  - apply attr_get_json_from_source.
  - apply attr_flush_from_source. exact P.
  - apply flush_from_source.
  - apply thread_free_from_source. exact P.
  - apply proc_fini_from_source.
Qed.

(* whole programs: along the run of the model, every call is what the generated function computes from the concretisation
   of the current model state, and (by `agrees`) it leaves the concretisation of the next one.  Hence what
   C02_metadata_complete / _stream_metas / _builds_system say about RtMetaDefs.run they say about the translated calls. *)
Fixpoint run_agrees (sx : renv) (s : state) (p : prog) : Prop :=
  match p with
  | [] => True
  | (th, o) :: r =>
    (forall node out, call_agrees sx s th node out o) /\
    match step src_cfg s th o with
    | ODone s' _ _ => run_agrees sx s' r
    | _ => True
    end
  end.

Theorem metadata_runs_from_source sx :
  (forall tid, path_ok sx tid = true) -> forall p s, run_agrees sx s p.
Proof.
  intros P. induction p as [|[th o] r IH]; intros s; [exact I|].
  cbn [run_agrees]. split.
  - intros node out. apply metadata_calls_from_source. apply P.
  - destruct (step src_cfg s th o); auto.
Qed.

(* the hypothesis on the path is satisfiable *)
Example path_ok_example : path_ok (mkEnv [111; 118; 110; 105] 0 (fun _ => None) (fun _ => [])) 12345 = true.
Proof. vm_compute. reflexivity. Qed.

(* vm_compute: the generated functions on a concrete state *)
Example gen_require_example :
  let sx := mkEnv [111; 118; 110; 105] 0 (fun _ => None) (fun _ => []) in
  let rs := mkRs c_ST_READY 1 [110] 7 1 0 9 [] (0, 0) 0 0 0 (Some [(k_ovni, jobj [(k_require, jobj [])])]) [] in
  match ovni_thread_require (Some [110; 111; 115; 118]) (Some [50; 46; 52; 46; 48]) sx rs with
  | ROk (_, rs') => r_meta rs' = Some [(k_ovni, jobj [(k_require, jobj [([110; 111; 115; 118], jstr [50; 46; 52; 46; 48])])])]
  | RErr _ => False
  end /\
  ovni_thread_require (Some [110; 46; 115]) (Some [50; 46; 52; 46; 48]) sx rs = RErr E_DIE /\
  match ovni_thread_free sx rs with
  | ROk (_, rs') => r_finished rs' = 1 /\ r_ready rs' = 0 /\
                    r_out rs' = [(thread_path sx 9, jobj [(k_ovni, jobj [(k_require, jobj []); (k_finished, jnum 1)])])]
  | RErr _ => False
  end.
Proof. vm_compute. repeat split. Qed.
