"""Translator unit `chan`: the channel operations of src/emu/chan.c (and chan_read of chan.h).

Emits coq/Gen/Chan_gen.v: set_dirty, chan_set, chan_push, chan_pop, get_value, chan_read, chan_flush, chan_dirty,
chan_prop_set, chan_prop_get, statement by statement, with the stage-C translator core (_stagec.py), over the
hand-written prelude coq/Emu/ChanPre.v (one channel as state; `struct value` = type tag + 64-bit payload; the
stack array as a list; value_is_equal/value_null and the call of chan->dirty_cb are primitives).
`G` (translate/gen.py) is injected by the plug-in loader.
"""
import importlib.util
import os

_spec = importlib.util.spec_from_file_location("ovni_verif_stagec_chan", os.path.join(os.path.dirname(os.path.abspath(__file__)), "_stagec.py"))
S = importlib.util.module_from_spec(_spec)
_spec.loader.exec_module(S)

UNITS = [
    ("src/emu/chan.c", [
        ("set_dirty", "action"), ("chan_set", "action"), ("chan_push", "action"), ("chan_pop", "action"),
        ("get_value", "proc"), ("chan_read", "action"), ("chan_flush", "action"), ("chan_dirty", "action"),
        ("chan_prop_set", "proc"), ("chan_prop_get", "value")]),
]


def gen(work):
    S.G = G
    S.SX_T, S.ST_T = "cenv", "cstate"
    S.PTR = {
        "struct chan *": ("ptr_chan", True),
        "struct chan_stack *": ("ptr_chan_stack", True),
        "struct value *": ("ptr_value", True),
        "chan_cb_t": ("ptr_cb", True),
        "void *": ("ptr_void", True),
    }
    S.STRUCTS = {"struct value": "cvalue"}
    S.NONNULL_LINK = set()
    S.PRIM_ACTION = {"call_dirty_cb"}
    S.PRIM_VALUE = {"value_is_equal", "value_null"}
    S.PRIM_ALLOC = set()
    S.BYREF_READ = {"value_is_equal"}
    S.INDIRECT_CALLS = {"dirty_cb": "call_dirty_cb"}
    S.MACRO_PRIM = set()
    ctext, defs = S.translate_files(work, UNITS)
    text = (G.HEADER % "src/emu/chan.c, src/emu/chan.h (unit chan)") + \
        "From Coq Require Import ZArith List Bool.\n" \
        "From OV Require Import Base.CInt Emu.ChanPre.\n" \
        "Import ListNotations.\nLocal Open Scope Z_scope.\n\n" \
        "(* enum constants, evaluated by the compiler *)\n" + ctext + "\n" + "\n".join(defs)
    return {"Chan_gen.v": text}
