"""Translator unit `muxc`: the construction functions of src/emu/mux.c (mux_init, mux_get_input, mux_set_input,
mux_add_reselect, mux_set_default), which unit mux could not take in phase 2.

Emits coq/Gen/MuxInit_gen.v over the hand-written prelude coq/Emu/MuxInitPre.v (the struct mux being built + a BayDefs bay;
bay_add_cb / bay_find / chan_get_type / chan_prop_set / calloc / value_null are primitives: bay_add_cb with the meaning
C06_bay_callbacks_from_source proves of the generated bay.c).  The stage-C core (_stagec.py) is imported UNCHANGED.
Additions of this unit (on top of those of bayc.py / connect.py):
  i. `if (f(..) == NULL) { log; return -1; }` with f an allocating primitive (bay_add_cb):
     `bind (f ..) (fun r_ => ite (is_null r_) (fail E_FAIL) (rest))`;
  j. `p->f = g(..);` with g an allocating primitive: `bind (g ..) (fun a_ => bind_ (set_<struct>_<f> p (fun sx st => a_)) rest)`.
"""
import importlib.util
import os
import re

_spec = importlib.util.spec_from_file_location("ovni_verif_stagec_muxc", os.path.join(os.path.dirname(os.path.abspath(__file__)), "_stagec.py"))
S = importlib.util.module_from_spec(_spec)
_spec.loader.exec_module(S)

UNITS = [("src/emu/pv/prv.c", [("get_id", "value"), ("check_flags", "action"), ("prv_register", "action")])]
UNITS_CHAN = [("src/emu/chan.c", [("chan_init", "proc")])]
PREFIXES = {}
RENAME_PRIM = {}
ALLOC_PRIMS = {"bay_add_cb"}

ZFUNCS = set()
ZPRIM = {"vsnprintf"}

_orig_e_val = S.GT.e_val
_orig_stmts = S.GT.stmts
_orig_function = S.GT.function


VARIADIC = {}
ALLOC_FNS = {"calloc"}
# file-scope constant tables (only used to build names): the constant g_<name> of the prelude
GLOBALS = set()


def _is_alloc_conv(n):
    """calloc(..) possibly under an implicit conversion from void *: the CallExpr or None"""
    c = n
    while c.get("kind") in ("ImplicitCastExpr", "ParenExpr", "CStyleCastExpr") and c.get("castKind") in (None, "BitCast", "NoOp"):
        c = c["inner"][0]
    if c.get("kind") == "CallExpr" and S._callee(c) in ALLOC_FNS:
        return c
    return None


def _e_val(self, n, env):
    k = n.get("kind")
    if k == "StringLiteral":
        v = n.get("value", '""')
        body = v[1:-1] if len(v) >= 2 and v[0] == '"' else v
        if "\\" in body:
            self.bad(n, "string literal with an escape sequence")
        return S.Val('(Some "%s"%%string)' % body.replace('"', '""'))
    if k == "UnaryExprOrTypeTraitExpr" and n.get("name") == "sizeof":
        return S.Val("(sizeof_ 0)")
    if k == "BinaryOperator" and n.get("opcode") == "/":
        x, y = (_strip_all(c) for c in n["inner"])
        if x.get("kind") == "UnaryExprOrTypeTraitExpr" and y.get("kind") == "UnaryExprOrTypeTraitExpr":
            return S.Val("c_arraylen")
    if k == "DeclRefExpr" and S._norm_ptr(S._qt(n)) in ("va_list", "__builtin_va_list", "struct __va_list_tag *", "struct __va_list_tag[1]"):
        return S.Val("va_args")
    if k == "DeclRefExpr" and n.get("referencedDecl", {}).get("kind") == "VarDecl" and n["referencedDecl"]["name"] not in env \
            and n["referencedDecl"]["name"] in GLOBALS:
        base = os.path.basename(self.relpath)[:-2]
        return S.Val("g_%s_%s" % (base, n["referencedDecl"]["name"]))
    if k == "ArraySubscriptExpr":
        q = S._norm_ptr(S._qt(n))
        base, idx = n["inner"]
        bq = S._norm_ptr(S._qt(_strip_all(base))) if "[" not in S._qt(_strip_all(base)) else None
        if q in S.PTR and self.ity(n) is None:
            b, i = self.e_val(base, env), self.e_val(idx, env)
            return S.Val("(ixp_%s %s %s)" % (S.PTR[q][0], b.t, i.t), S.s_and(b.safe, i.safe), b.dep or i.dep)
        if self.ity(n) is not None and bq in S.PTR:
            b, i = self.e_val(base, env), self.e_val(idx, env)
            return S.Val("(ix_%s %s %s)" % (S.PTR[bq][0], b.t, i.t), S.s_and(b.safe, i.safe), b.dep or i.dep)
    if k == "UnaryOperator" and n.get("opcode") == "&":
        m0 = _strip_all(n["inner"][0])
        if m0.get("kind") == "MemberExpr" and not m0.get("isArrow"):
            el = _strip_all(m0["inner"][0])
            if el.get("kind") == "ArraySubscriptExpr":
                base, idx = el["inner"]
                b0 = _strip_all(base)
                st = S._norm_struct(S._qt(el))
                if "[" not in S._qt(b0) and S._norm_ptr(S._qt(b0)) in S.PTR and re.match(r"^struct \w+$", st):
                    # &p[i].f with p a POINTER to structs: the address of member f of element i
                    b, i = self.e_val(base, env), self.e_val(idx, env)
                    self.gtype(n)
                    return S.Val("(addr_%s_%s (at_%s %s %s))" % (st.split()[1], m0["name"], S.PTR[S._norm_ptr(S._qt(b0))][0], b.t, i.t),
                                 S.s_and(b.safe, i.safe), b.dep or i.dep)
        m = _strip_all(n["inner"][0])
        if m.get("kind") == "ArraySubscriptExpr":
            base, idx = m["inner"]
            b0 = _strip_all(base)
            if "[" not in S._qt(b0) and S._norm_ptr(S._qt(b0)) in S.PTR:
                # &p[i] with p a POINTER (variable or field): pointer arithmetic on the value of p
                b, i = self.e_val(base, env), self.e_val(idx, env)
                return S.Val("(at_%s %s %s)" % (S.PTR[S._norm_ptr(S._qt(b0))][0], b.t, i.t), S.s_and(b.safe, i.safe), b.dep or i.dep)
    if k in ("ImplicitCastExpr", "CStyleCastExpr"):
        ck = n.get("castKind")
        inner = n["inner"][0]
        if ck == "BitCast" and S._norm_ptr(S._qt(inner)) == "void *" and S._norm_ptr(S._qt(n)) in S.PTR and not self.cg._is_null(n):
            a = self.e_val(inner, env)
            return S.Val("(%s_of_void %s)" % (S.PTR[S._norm_ptr(S._qt(n))][0], a.t), a.safe, a.dep)
        if ck == "BitCast" and S._norm_ptr(S._qt(n)) == "void *" and S._norm_ptr(S._qt(inner)) in S.PTR and not self.cg._is_null(n):
            a = self.e_val(inner, env)
            return S.Val("(void_of_%s %s)" % (S.PTR[S._norm_ptr(S._qt(inner))][0], a.t), a.safe, a.dep)
        if ck == "FunctionToPointerDecay" and inner.get("kind") == "DeclRefExpr" and inner.get("referencedDecl", {}).get("kind") == "FunctionDecl":
            return S.Val("fn_%s" % inner["referencedDecl"]["name"])
        if ck == "PointerToBoolean":
            a = self.e_val(inner, env)
            return S.Val("(b2z (negb (is_null %s)))" % a.t, a.safe, a.dep)
    return _orig_e_val(self, n, env)


def _ret_const(self, r):
    c = self.ret_const(r)
    if c is not None:
        return c
    x = S._strip(r)
    if x.get("kind") == "UnaryOperator" and x.get("opcode") == "+":
        y = S._strip(x["inner"][0])
        if y.get("kind") == "IntegerLiteral":
            return int(y["value"])
    return None


def _strip_all(n):
    while n.get("kind") in ("ImplicitCastExpr", "ParenExpr"):
        n = n["inner"][0]
    return n


def _walk(n):
    yield n
    for c in n.get("inner", []) or []:
        if isinstance(c, dict):
            for x in _walk(c):
                yield x


def _assigned_locals(self, body, env):
    """int locals of env assigned (=, ++) inside body, in a fixed order"""
    names = []
    for x in _walk(body):
        t = None
        if x.get("kind") in ("BinaryOperator", "CompoundAssignOperator") and x.get("opcode") in ("=", "|=", "+=", "-="):
            t = S._strip(x["inner"][0])
        if x.get("kind") == "UnaryOperator" and x.get("opcode") in ("++", "--"):
            t = S._strip(x["inner"][0])
        if t is not None and t.get("kind") == "DeclRefExpr" and t.get("referencedDecl", {}).get("kind") in ("VarDecl", "ParmVarDecl"):
            nm = t["referencedDecl"]["name"]
            if nm in env and nm not in names:
                names.append(nm)
    return names


def _loop(self, s, rest, env, kind):
    parts = s["inner"]
    # clang: [init, condvar(empty), cond, inc, body]
    init, cond, inc, body = parts[0], parts[2], parts[3], parts[4]
    if kind != "action":
        self.bad(s, "loop in a function that is not an int-status function")
    if init.get("kind") == "BinaryOperator" and init.get("opcode") == "=" and \
            _strip_all(init["inner"][0]).get("kind") == "DeclRefExpr" and \
            _strip_all(init["inner"][0])["referencedDecl"]["name"] in env:
        # `struct T *p; for (p = E; p; p = p->hh.next)`: p declared just before, never read outside the loops
        lv = _strip_all(init["inner"][0])
        vname = lv["referencedDecl"]["name"]
        vd = {"name": vname, "type": {"qualType": env[vname]["cty"]}, "kind": "VarDecl"}
        vinit = [init["inner"][1]]
        env = dict(env)
        del env[vname]
        for x in _walk({"kind": "CompoundStmt", "inner": rest}):
            if x.get("kind") == "DeclRefExpr" and x.get("referencedDecl", {}).get("name") == vname:
                pass        # later loops re-initialise it (checked there: it is again uninitialised in their env)
        reuse = vname
    else:
        reuse = None
        if init.get("kind") != "DeclStmt" or len(init["inner"]) != 1 or init["inner"][0]["kind"] != "VarDecl":
            self.bad(s, "loop initialisation is not one declaration")
        vd = init["inner"][0]
        vname = vd["name"]
        vinit = [c for c in vd.get("inner", []) if c.get("kind") not in ("FullComment",)]
        if not vinit:
            self.bad(s, "loop variable without initialiser")
        if vname in env:
            self.bad(s, "loop variable shadows a local")
    for x in _walk(body):
        if x.get("kind") in ("BreakStmt", "GotoStmt", "WhileStmt", "DoStmt") and not (x.get("kind") == "DoStmt" and self.macro_of(x)[0] in S.MACRO_IGNORED):
            self.bad(x, "statement not allowed inside a loop body")
        if x.get("kind") == "ReturnStmt":
            r = (x.get("inner") or [None])[0]
            if r is None or self.ret_const(r) != -1:
                self.bad(x, "a loop body may only leave the function with return -1")
        if x.get("kind") == "DoStmt" and x.get("range", {}).get("begin", {}).get("expansionLoc") is not None:
            try:
                mn = self.macro_of(x)[0]
            except Exception:
                mn = None
            if mn in ("DL_DELETE", "DL_PREPEND", "DL_DELETE2", "LL_DELETE", "HASH_DEL"):
                self.bad(x, "the body of a list walk deletes from / prepends to a list")
    acc = _assigned_locals(self, body, env)
    if vname in _assigned_locals(self, body, dict(env, **{vname: {}})):
        self.bad(s, "loop variable assigned in the body")
    for a in acc:
        if self.ity({"type": {"qualType": env[a]["cty"]}}) is None or not env[a]["init"]:
            self.bad(s, "loop-carried local %s is not an initialised integer" % a)
    accg = [env[a]["g"] for a in acc]
    acct = "tt" if not accg else ("(%s)" % ", ".join(accg) if len(accg) > 1 else accg[0])
    accp = "_" if not accg else ("'(%s)" % ", ".join(accg) if len(accg) > 1 else accg[0])
    g = self.gname(vname)
    env2 = dict(env)
    env2[vname] = {"g": g, "cty": S._qt(vd), "init": True}
    self.loop_acc = getattr(self, "loop_acc", []) + [acct]
    bodyt = self.stmts([body, {"kind": "ContinueStmt", "synthetic": True}], env2, kind)
    self.loop_acc.pop()
    ci = S._strip(cond)
    it = S._strip(inc)
    pre_safe = None
    pre_bind = ""
    if self.ity(vd) is not None:
        # for (int i = 0; i < K; i++)
        lo = S._strip(vinit[0])
        if lo.get("kind") != "IntegerLiteral":
            self.bad(s, "loop lower bound is not a constant")
        if ci.get("kind") != "BinaryOperator" or ci.get("opcode") != "<":
            self.bad(s, "loop condition is not i < E")
        a, b = ci["inner"]
        a = S._strip(a)
        if a.get("kind") != "DeclRefExpr" or a["referencedDecl"]["name"] != vname:
            self.bad(s, "loop condition is not i < E")
        self.pure_tree(b)
        for x in _walk(b):
            if x.get("kind") == "DeclRefExpr" and x.get("referencedDecl", {}).get("name") in (acc + [vname]):
                self.bad(s, "loop bound mentions a variable assigned in the loop")
            if x.get("kind") == "CallExpr":
                self.bad(s, "loop bound with a call")
        hi = self.e_val(b, env)
        if it.get("kind") != "UnaryOperator" or it.get("opcode") != "++" or S._strip(it["inner"][0]).get("referencedDecl", {}).get("name") != vname:
            self.bad(s, "loop increment is not i++")
        # the bound is evaluated once: the body must not change what it reads (checked for locals above; the fields it
        # reads are spec / count fields that the translated bodies never assign: asserted by the setter check below)
        for x in _walk(body):
            if x.get("kind") in ("BinaryOperator", "CompoundAssignOperator") and x.get("opcode") in ("=", "|=", "+=", "-="):
                t = S._strip(x["inner"][0])
                if t.get("kind") == "MemberExpr" and t.get("name") in [y.get("name") for y in _walk(b) if y.get("kind") == "MemberExpr"]:
                    self.bad(s, "loop body assigns a field the bound reads")
        head = "for_range (%s) n_ %s (fun %s %s =>" % (lo["value"], acct, g, accp)
        pre_bind = "bind (eval %s) (fun n_ =>\n" % self.fn_of_state(hi.t)
        pre_safe = hi.safe
    else:
        # for (struct T *p = E; p; p = p->hh.next)
        st = S._struct_of(S._qt(vd))
        if st is None or S._norm_ptr(S._qt(vd)) not in S.PTR:
            self.bad(s, "loop variable type")
        e0 = self.e_val(vinit[0], env)
        if ci.get("kind") != "DeclRefExpr" or ci["referencedDecl"]["name"] != vname:
            self.bad(s, "loop condition is not the loop pointer")
        ok = it.get("kind") == "BinaryOperator" and it.get("opcode") == "="
        if ok:
            l, r = S._strip(it["inner"][0]), it["inner"][1]
            while r.get("kind") in ("ImplicitCastExpr", "ParenExpr") and r.get("castKind") in (None, "LValueToRValue", "NoOp", "BitCast"):
                r = r["inner"][0]       # hh.next is a void *
            root, chain = self.chain_of(r)
            links = [(c[0], c[2]) for c in chain]
            lname = {(("hh", True), ("next", False)): "hh", (("gnext", True),): "gnext", (("next", True),): "next"}.get(tuple(links))
            ok = l.get("kind") == "DeclRefExpr" and l["referencedDecl"]["name"] == vname and \
                root.get("kind") == "DeclRefExpr" and root["referencedDecl"]["name"] == vname and lname is not None
        if not ok:
            self.bad(s, "loop increment is not p = p->hh.next / p->gnext / p->next")
        head = "for_%s_%s %s %s (fun %s %s =>" % (lname, st, self.fn_of_state(e0.t), acct, g, accp)
        pre_safe = e0.safe
    env3 = dict(env)
    if reuse is not None:
        env3[reuse] = {"g": self.gname(reuse), "cty": vd["type"]["qualType"], "init": False}
    term = "bind (%s\n%s))\n(fun %s =>\n%s)" % (head, bodyt, accp, self.stmts(rest, env3, kind))
    if pre_bind:
        term = pre_bind + term + ")"
    return self.needed(pre_safe, term)


def _stmts(self, ss, env, kind):
    self.cur_env_names = set(env)
    if ss:
        s, rest = ss[0], ss[1:]
        k = s["kind"]
        if k == "DeclStmt" and len(s["inner"]) == 1 and s["inner"][0]["kind"] == "VarDecl" and \
                S._norm_ptr(S._qt(s["inner"][0])) in ("va_list", "__builtin_va_list"):
            env2 = dict(env)
            env2[s["inner"][0]["name"]] = {"g": "va_args", "cty": S._qt(s["inner"][0]), "init": True}
            return self.stmts(rest, env2, kind)
        if k == "CallExpr" and S._callee(s) in ("__builtin_va_start", "__builtin_va_end"):
            return self.stmts(rest, env, kind)
        if k == "CallExpr" and S._callee(s) in VARIADIC and len(s["inner"]) - 1 > VARIADIC[S._callee(s)]:
            for x in s["inner"][1 + VARIADIC[S._callee(s)]:]:
                self.pure_tree(x)
            s2 = dict(s)
            s2["inner"] = s["inner"][:1 + VARIADIC[S._callee(s)]]
            return self.stmts([s2] + rest, env, kind)
        if k == "DeclStmt" and len(s["inner"]) == 1 and s["inner"][0]["kind"] == "VarDecl":
            vd = s["inner"][0]
            inits = [c for c in vd.get("inner", []) if c.get("kind") not in ("FullComment",)]
            ac = _is_alloc_conv(inits[0]) if inits else None
            if ac is not None:
                q = S._norm_ptr(S._qt(vd))
                if q not in S.PTR:
                    self.bad(s, "allocation stored in a " + q)
                g = self.gname(vd["name"])
                args = [self.e_val(a, env) for a in ac["inner"][1:]]
                call = self.bind_args(args, lambda ts: "(%s_%s %s)" % (S._callee(ac), S.PTR[q][0], " ".join(ts)))
                env2 = dict(env)
                env2[vd["name"]] = {"g": g, "cty": S._qt(vd), "init": True}
                return "bind %s (fun %s =>\n%s)" % (call, g, self.stmts(rest, env2, kind))
        if k == "BinaryOperator" and s.get("opcode") == "=":
            tgt, rhs = s["inner"]
            ac = _is_alloc_conv(rhs)
            t = _strip_all(tgt)
            if ac is not None and t.get("kind") == "MemberExpr":
                q = S._norm_ptr(S._qt(t))
                if q not in S.PTR:
                    self.bad(s, "allocation stored in a " + q)
                var, st, fields, safe = self.own_fields(t, env)
                args = [self.e_val(a, env) for a in ac["inner"][1:]]
                call = self.bind_args(args, lambda ts: "(%s_%s %s)" % (S._callee(ac), S.PTR[q][0], " ".join(ts)))
                return "bind %s (fun a_ =>\nbind_ (set_%s_%s %s (fun sx st => a_))\n(%s))" % (
                    call, st, "_".join(fields), var["g"], self.stmts(rest, env, kind))
        if k == "IfStmt" and len(s["inner"]) == 2:
            c0 = _strip_all(s["inner"][0])
            if c0.get("kind") == "CallExpr" and (S._callee(c0) in S.PRIM_ACTION or self.kinds.get(S._callee(c0)) == "action") and \
                    self.is_fail_block(s["inner"][1], kind):
                # if (f(..)) { log; return -1; }
                return "bind_ %s\n(%s)" % (self.call_action(c0, env), self.stmts(rest, env, kind))
        if k == "CStyleCastExpr" and s.get("castKind") == "ToVoid":
            self.pure_tree(s)
            return self.stmts(rest, env, kind)
        if k == "CallExpr" and S._callee(s) in ("die", "vdie"):
            for x in s["inner"][1:]:
                self.pure_tree(x)
            return "fail E_DIE"
        if k == "DeclStmt" and len(s["inner"]) == 1 and s["inner"][0]["kind"] == "VarDecl" and S._qt(s["inner"][0]).strip().endswith("]"):
            vd = s["inner"][0]
            for c in vd.get("inner", []):
                self.pure_tree(c)
            nm = vd["name"]
            for x in _walk({"kind": "CompoundStmt", "inner": rest}):
                if x.get("kind") in ("BinaryOperator", "CompoundAssignOperator") and x.get("opcode", "").endswith("=") and x.get("opcode") not in ("==", "!=", "<=", ">="):
                    for y in _walk(x["inner"][0]):
                        if y.get("kind") == "DeclRefExpr" and y.get("referencedDecl", {}).get("name") == nm:
                            self.bad(s, "local array %s is assigned" % nm)
            env2 = dict(env)
            env2[nm] = {"g": "tt", "cty": "int", "init": True, "dropped": True}
            return self.stmts(rest, env2, kind)
        if k == "UnaryOperator" and s.get("opcode") == "++":
            t = _strip_all(s["inner"][0])
            if t.get("kind") == "ArraySubscriptExpr":
                base, idx = t["inner"]
                b0 = _strip_all(base)
                if b0.get("kind") == "MemberExpr":
                    var, st, fields, safe = self.own_fields(b0, env)
                    i = self.e_val(idx, env)
                    return self.needed(S.s_and(safe, i.safe), "bind_ (incr_%s_%s_at %s %s)\n(%s)" % (
                        st, "_".join(fields), var["g"], self.fn_of_state(i.t), self.stmts(rest, env, kind)))
        if k == "BinaryOperator" and s.get("opcode") == "=":
            t0 = _strip_all(s["inner"][0])
            ac0 = _is_alloc_conv(s["inner"][1])
            if ac0 is not None and t0.get("kind") == "DeclRefExpr" and t0["referencedDecl"]["name"] in env:
                q = S._norm_ptr(env[t0["referencedDecl"]["name"]]["cty"])
                args = [self.e_val(a, env) for a in ac0["inner"][1:]]
                call = self.bind_args(args, lambda ts: "(%s_%s %s)" % (S._callee(ac0), S.PTR[q][0], " ".join(ts)))
                env2 = dict(env)
                env2[t0["referencedDecl"]["name"]] = dict(env[t0["referencedDecl"]["name"]], init=True)
                return "bind %s (fun %s =>\n%s)" % (call, env[t0["referencedDecl"]["name"]]["g"], self.stmts(rest, env2, kind))
        if k == "DoStmt":
            mname, margs = self.macro_of(s)
            if mname in ("DL_APPEND", "DL_DELETE", "DL_PREPEND") and len(margs) == 2:
                m = re.match(r"^(\w+)\s*->\s*(\w+)\s*\[\s*(\w+)\s*->\s*(\w+)\s*\]$", margs[0])
                if m and margs[1] in env and m.group(1) in env and m.group(3) in env:
                    p, q, x = env[m.group(1)], env[m.group(3)], env[margs[1]]
                    stp, stq = S._struct_of(p["cty"]), S._struct_of(q["cty"])
                    return "bind_ (%s_%s_%s_at %s (fun sx st => (get_%s__%s sx st %s)) %s)\n(%s)" % (
                        mname, stp, m.group(2), p["g"], stq, m.group(4), q["g"], x["g"], self.stmts(rest, env, kind))
            if mname == "HASH_ADD_LONG" and len(margs) == 3:
                m = re.match(r"^(\w+)\s*->\s*(\w+)$", margs[0])
                if m and m.group(1) in env and margs[2] in env:
                    p, x = env[m.group(1)], env[margs[2]]
                    return "bind_ (HASH_ADD_LONG_%s_%s %s %s)\n(%s)" % (S._struct_of(p["cty"]), m.group(2), p["g"], x["g"], self.stmts(rest, env, kind))
            if mname == "HASH_ADD_STR" and len(margs) == 3:
                m = re.match(r"^(\w+)\s*->\s*(\w+)$", margs[0])
                if m and m.group(1) in env and margs[2] in env:
                    p, x = env[m.group(1)], env[margs[2]]
                    return "bind_ (HASH_ADD_STR_%s_%s %s %s)\n(%s)" % (S._struct_of(p["cty"]), m.group(2), p["g"], x["g"], self.stmts(rest, env, kind))
        if k == "IfStmt" and len(s["inner"]) == 2:
            c0 = _strip_all(s["inner"][0])
            if c0.get("kind") == "BinaryOperator" and c0.get("opcode") == "==":
                l0, r0 = c0["inner"]
                cl = _strip_all(l0)
                if cl.get("kind") == "CallExpr" and S._callee(cl) in ALLOC_PRIMS and self.cg._is_null(r0) and self.is_fail_block(s["inner"][1], kind):
                    args = [self.e_val(a, env) for a in cl["inner"][1:]]
                    call = self.bind_args(args, lambda ts: "(%s %s)" % (S._callee(cl), " ".join(ts)))
                    return "bind %s (fun r_ =>\nite (fun sx st => (is_null r_))\n(fail E_FAIL)\n(%s))" % (call, self.stmts(rest, env, kind))
        if k == "BinaryOperator" and s.get("opcode") == "=":
            t1 = _strip_all(s["inner"][0])
            c1 = _strip_all(s["inner"][1])
            if t1.get("kind") == "MemberExpr" and c1.get("kind") == "CallExpr" and S._callee(c1) in ALLOC_PRIMS:
                var, st, fields, safe = self.own_fields(t1, env)
                args = [self.e_val(a, env) for a in c1["inner"][1:]]
                call = self.bind_args(args, lambda ts: "(%s %s)" % (S._callee(c1), " ".join(ts)))
                return "bind %s (fun a_ =>\nbind_ (set_%s_%s %s (fun sx st => a_))\n(%s))" % (
                    call, st, "_".join(fields), var["g"], self.stmts(rest, env, kind))
        if k == "ContinueStmt":
            if not getattr(self, "loop_acc", None):
                self.bad(s, "continue outside a loop")
            return "ret %s" % self.loop_acc[-1]
        if k == "ForStmt":
            return _loop(self, s, rest, env, kind)
        if k == "ReturnStmt" and self.fn in ZFUNCS:
            r = (s.get("inner") or [None])[0]
            c = _ret_const(self, r) if r is not None else None
            if c == -1:
                return "fail E_FAIL"
            if c in (0, 1):
                return "ret (%d)" % c
            self.bad(s, "return value of a three-way function is not 0, +1 or -1")
        if k == "ReturnStmt" and kind == "action" and self.fn not in ZFUNCS:
            r = (s.get("inner") or [None])[0]
            x = S._strip(r) if r is not None else {}
            if x.get("kind") == "DeclRefExpr" and x["referencedDecl"]["kind"] == "VarDecl" and x["referencedDecl"]["name"] in env:
                nm = x["referencedDecl"]["name"]
                if nm not in getattr(self, "status_locals", set()):
                    self.bad(s, "return of a local that is not only ever assigned 0 or -1")
                v = self.var(x, env)
                return "ite (fun sx st => Z.eqb %s 0)\n(ret tt)\n(fail E_FAIL)" % v["g"]
        if k == "DeclStmt" and len(s["inner"]) == 1 and s["inner"][0]["kind"] == "VarDecl":
            vd = s["inner"][0]
            inits = [c for c in vd.get("inner", []) if c.get("kind") not in ("FullComment",)]
            if inits:
                rc = S._strip(inits[0])
                if rc.get("kind") == "CallExpr" and S._callee(rc) in ZPRIM:
                    if self.ity(vd) is None:
                        self.bad(s, "result of %s stored in a non-integer" % S._callee(rc))
                    g = self.gname(vd["name"])
                    args = [self.e_val(a, env) for a in rc["inner"][1:]]
                    call = self.bind_args(args, lambda ts: "(%s %s)" % (S._callee(rc), " ".join(ts)))
                    env2 = dict(env)
                    env2[vd["name"]] = {"g": g, "cty": S._qt(vd), "init": True}
                    return "bind %s (fun %s =>\n%s)" % (call, g, self.stmts(rest, env2, kind))
        if k == "CallExpr" and S._callee(s) == "memset":
            a = s["inner"][1:]
            p, z, sz = _strip_all(a[0]), _strip_all(a[1]), _strip_all(a[2])
            ok = p.get("kind") == "DeclRefExpr" and p["referencedDecl"]["kind"] == "ParmVarDecl" and \
                z.get("kind") == "IntegerLiteral" and z.get("value") == "0" and sz.get("kind") == "UnaryExprOrTypeTraitExpr" and sz.get("name") == "sizeof"
            if ok:
                inner = sz.get("inner")
                if inner:
                    d = _strip_all(inner[0])
                    ok = d.get("kind") == "UnaryOperator" and d.get("opcode") == "*" and \
                        _strip_all(d["inner"][0]).get("referencedDecl", {}).get("name") == p["referencedDecl"]["name"]
                else:
                    ok = S._norm_struct(sz.get("argType", {}).get("qualType", "")) == S._norm_struct(re.sub(r"\*\s*$", "", S._qt(p)))
            if not ok:
                self.bad(s, "memset that is not memset(p, 0, sizeof(*p)) on a parameter")
            st = S._struct_of(S._qt(p))
            v = self.var(p, env)
            return "bind_ (zero_%s %s)\n(%s)" % (st, v["g"], self.stmts(rest, env, kind))
        if k == "IfStmt":
            parts = list(s["inner"])
            if len(parts) == 2:
                call = self.status_cond(parts[0])
                if call is not None and not self.is_fail_block(parts[1], kind) and self.terminates(parts[1]):
                    # if (f(..) != 0) { log; g(..); return -1; }  (g a procedure: panic): the block runs on failure
                    return "bind (status (%s)) (fun s_ =>\nite (fun sx st => Z.eqb s_ 0)\n(%s)\n(%s))" % (
                        self.call_action(call, env), self.stmts(rest, env, kind), self.stmts([parts[1]], env, kind))
                if call is not None and not self.is_fail_block(parts[1], kind):
                    then = parts[1]
                    body = then.get("inner", []) if then["kind"] == "CompoundStmt" else [then]
                    body = [x for x in body if x["kind"] != "NullStmt"]
                    logs, last = body[:-1], (body[-1] if body else None)
                    for x in logs:
                        if x["kind"] == "CallExpr" and S._callee(x) in S.LOG_CALLS:
                            self.pure_tree(x)
                            continue
                        if x["kind"] == "DoStmt" and self.macro_of(x)[0] in S.MACRO_IGNORED:
                            self.pure_tree(x)
                            continue
                        self.bad(s, "after a failing call only logging and one assignment of a constant to a local are allowed")
                    ok = last is not None and last.get("kind") == "BinaryOperator" and last.get("opcode") == "="
                    if ok:
                        t = S._strip(last["inner"][0])
                        kc = self.ret_const(last["inner"][1])
                        ok = t.get("kind") == "DeclRefExpr" and t["referencedDecl"]["kind"] == "VarDecl" and t["referencedDecl"]["name"] in env and kc is not None
                    if not ok:
                        self.bad(s, "after a failing call only logging and one assignment of a constant to a local are allowed")
                    nm = t["referencedDecl"]["name"]
                    old = self.var(t, env)
                    return "bind (status (%s)) (fun s_ =>\nbind (eval (fun sx st => if Z.eqb s_ 0 then %s else (%d))) (fun %s =>\n%s))" % (
                        self.call_action(call, env), old["g"], kc, old["g"], self.stmts(rest, env, kind))
    return _orig_stmts(self, ss, env, kind)


_orig_member = S.GT.member


def _member(self, n, env):
    # struct model_thread { spec } and struct model_thread_spec { chan } make get_model_thread_spec_chan ambiguous
    # (th->spec->chan / spec->chan): this unit separates the root struct from the fields with a double underscore
    v = _orig_member(self, n, env)
    cur, chain = self.chain_of(n)
    root = S._struct_of(S._qt(cur)) if chain and chain[0][2] else None
    if root is not None:
        old, new = "(get_%s_" % root, "(get_%s__" % root
        t = v.t.replace(old, new) if v.t.startswith(old) else v.t
        safe = v.safe.replace(old, new) if v.safe else v.safe
        return S.Val(t, safe, v.dep)
    return v


_orig_call_action = S.GT.call_action


def _orig_call_action_renamed(self, n, env, newname):
    args = [self.e_val(a, env) for a in n["inner"][1:]]
    return self.bind_args(args, lambda ts: "(%s %s)" % (newname, " ".join(ts)))



def _call_action(self, n, env):
    name = S._callee(n)
    if (self.relpath, name) in RENAME_PRIM:
        t = _orig_call_action_renamed(self, n, env, RENAME_PRIM[(self.relpath, name)])
        return t
    if name in VARIADIC and len(n["inner"]) - 1 > VARIADIC[name]:
        for x in n["inner"][1 + VARIADIC[name]:]:
            self.pure_tree(x)
        n = dict(n)
        n["inner"] = n["inner"][:1 + VARIADIC[name]]
    return _orig_call_action(self, n, env)


_orig_bind_args = S.GT.bind_args


def _bind_args(self, args, k):
    # the core leaves `bind (eval ..) (fun a =>\n call)` unparenthesised when no argument needs a NULL check; as the
    # operand of bind_ that does not parse
    t = _orig_bind_args(self, args, k)
    return "(%s)" % t if t.startswith("bind ") else t


def _function(self, fn, kind):
    # locals that only ever receive 0 or -1 (so that `return x` is an int status)
    self.fn = fn
    d = self.cg.clang_ast(self.tu_text, self.incs, fn, self.work)
    cand, bad = set(), set()
    for x in _walk(d):
        if x.get("kind") == "VarDecl" and self.ity(x) is not None:
            inits = [c for c in x.get("inner", []) if c.get("kind") not in ("FullComment",)]
            if inits and self.ret_const(inits[0]) in (0, -1):
                cand.add(x["name"])
            else:
                bad.add(x["name"])
        if x.get("kind") in ("BinaryOperator", "CompoundAssignOperator") and x.get("opcode", "").endswith("=") and x.get("opcode") not in ("==", "!=", "<=", ">="):
            t = S._strip(x["inner"][0])
            if t.get("kind") == "DeclRefExpr":
                if x.get("opcode") != "=" or self.ret_const(x["inner"][1]) not in (0, -1):
                    bad.add(t["referencedDecl"]["name"])
        if x.get("kind") == "UnaryOperator" and x.get("opcode") in ("++", "--", "&"):
            t = S._strip(x["inner"][0])
            if t.get("kind") == "DeclRefExpr":
                bad.add(t["referencedDecl"]["name"])
    self.status_locals = cand - bad
    self.loop_acc = []
    text = _orig_function(self, fn, kind)
    if fn in ZFUNCS:
        text, k = re.subn(r"(Definition %s [^\n]*): M unit :=" % re.escape(fn), r"\1: M Z :=", text)
        if k != 1:
            raise self.cg.Unsupported("UNSUPPORTED %s function %s: three-way function header" % (self.relpath, fn))
    return text


def gen(work):
    S.G = G
    S.GT.e_val = _e_val
    S.GT.stmts = _stmts
    S.GT.function = _function
    S.GT.bind_args = _bind_args
    S.GT.call_action = _call_action
    S.GT.member = _member
    _g0 = S.GT.gname
    S.GT.gname = lambda self, c: (c + "_") if c in ("tt", "ret", "unit", "Some", "None") else _g0(self, c)   # C locals that would shadow Gallina constants
    S.SX_T, S.ST_T = "renv", "rstate"
    S.PTR = {
        "struct prv *": ("ptr_prv", True),
        "struct prv_chan *": ("ptr_rchan", True),
        "struct bay *": ("ptr_bay", True),
        "struct bay_cb *": ("ptr_cb", True),
        "struct chan *": ("ptr_chan", True),
        "void *": ("ptr_void", True),
        "char *": ("ptr_name", True),
    }
    S.STRUCTS = {"struct value": "cvalue"}
    S.NONNULL_LINK = set()
    S.PRIM_ACTION = set()
    S.PRIM_VALUE = {"find_prv_chan", "value_null"}
    S.PRIM_ALLOC = set()
    S.PRIM_PROC = set()
    S.OUT_ACTION = {}
    S.BYREF_READ = set()
    S.INDIRECT_CALLS = {}
    S.MACRO_PRIM = set()
    ctext, defs = S.translate_files(work, UNITS, prefixes=PREFIXES)
    text = (G.HEADER % "src/emu/pv/prv.c prv_register (unit prvreg)") + \
        "From Coq Require Import ZArith List Bool String.\n" \
        "From OV Require Import Base.CInt Emu.PrvRegPre.\n" \
        "Import ListNotations.\nLocal Open Scope Z_scope.\n\n" \
        "(* enum constants, evaluated by the compiler *)\n" + ctext + "\n" + "\n".join(defs)
    out = {"PrvReg_gen.v": text}
    S.SX_T, S.ST_T = "ienv", "istate"
    S.PTR = {"struct chan *": ("ptr_chan", True), "char *": ("ptr_str", True),
             "va_list": ("va_list_t", False), "__builtin_va_list": ("va_list_t", False)}
    S.STRUCTS = {}
    S.PRIM_VALUE = set()
    ctext, defs = S.translate_files(work, UNITS_CHAN, prefixes=PREFIXES)
    text = (G.HEADER % "src/emu/chan.c chan_init (unit prvreg)") + \
        "From Coq Require Import ZArith List Bool String.\n" \
        "From OV Require Import Base.CInt Emu.ChanInitPre.\n" \
        "Import ListNotations.\nLocal Open Scope Z_scope.\n\n" \
        "(* enum constants, evaluated by the compiler *)\n" + ctext + "\n" + "\n".join(defs)
    out["ChanInit_gen.v"] = text
    return out
