"""Translator unit `rtconc`: the PROCESS-STATE skeleton of the API functions of src/rt/ovni.c (property C11).

Emits coq/Gen/RtConc_gen.v over the hand-written prelude coq/Rt/RtConcPre.v (a trace monad: a function denotes the list
of atomic actions on the shared process state it performs, with its branch structure on the results of the CAS / load).
It does NOT use the stage-C core: nothing but the shared accesses is represented, every other statement is an opaque
local step, so the unit walks the clang JSON AST itself, statement by statement and in C order, and fails closed
(UNSUPPORTED file:line) on anything it cannot place.

What is rendered
  FULL functions: ovni_proc_init, ovni_proc_fini, ovni_thread_init, ovni_thread_free, ovni_thread_isready and every
    function of ovni.c they reach that (transitively) mentions `rproc` (create_proc_dir, create_thread_dir,
    create_trace_stream, thread_metadata_init/populate/store ...): the whole body.
      atomic_compare_exchange_strong(&rproc.st, &loc, D) with loc a local initialised to an ST_* constant
                                      -> cas_st E D (fun ok loc => ...)        (ok, loc: the C variables)
      if (atomic_load(&rproc.st) !=/== ST_X) A else B   -> load_st (fun v_ => tif (..) A B)
      atomic_store(&rproc.st, ST_X)   -> store_st X
      rproc.f read (r-value, or passed where the callee's parameter is a pointer to const) -> emit (SR F)
      rproc.f written (assignment target, or passed where the parameter is a pointer to non-const: strcpy, snprintf,
                                      mkdir_proc ...)                           -> emit (SW F)
      if (rproc.move_to_final) / if (tmpdir != NULL) with tmpdir = getenv("OVNI_TMPDIR")  -> tif w_mv
      conditions on ok / loc                                                    -> tif on the bound variables
      die(...) -> tdie (accesses inside its arguments are not emitted); return -> tret
      any other condition -> tif (w_cond N) after the reads it makes; any other statement that calls something ->
      opq N after its accesses (it may die); calls of FULL functions -> tcall f
  PREAMBLE of every other exported function (the functions units rtbuf / rtmeta / rtfs translate): the statements up
    to the first one that is neither a declaration without process state nor `if (cond) die(...)`; the rest of the
    function and everything it reaches are checked never to mention rproc.st.
  No function outside these may mention rproc.st; a FULL function may not call a preamble-only function that touches
  process state.  The set of functions of ovni.c comes from the symbol table of the compiled object (nm).
"""
import os
import re
import subprocess

REL = "src/rt/ovni.c"
FULL_ROOTS = ["ovni_proc_init", "ovni_proc_fini", "ovni_thread_init", "ovni_thread_free", "ovni_thread_isready"]
FIELDS = {"loom": "Floom", "pid": "Fpid", "app": "Fapp", "clockid": "Fclockid", "loomdir": "Floomdir", "tmpdir": "Ftmpdir",
          "move_to_final": "Fmove", "procdir": "Fprocdir", "procdir_final": "Fprocdir_final"}
ST = {"ST_UNINIT": "UNINIT", "ST_INIT": "INIT", "ST_READY": "READY", "ST_GONE": "GONE"}
DIE = {"vdie"}
LOGS = {"verr"}
MV_ENV = "OVNI_TMPDIR"
PRINTF = {"snprintf", "fprintf", "printf", "verr"}


class Ctx:
    pass


def _strip(n):
    while n.get("kind") in ("ImplicitCastExpr", "ParenExpr", "CStyleCastExpr", "ConstantExpr"):
        n = n["inner"][0]
    return n


def _walk(n, f):
    if isinstance(n, dict):
        f(n)
        for c in n.get("inner", []) or []:
            _walk(c, f)


def _callee(n):
    c = n["inner"][0]
    while c.get("kind") in ("ImplicitCastExpr", "ParenExpr"):
        c = c["inner"][0]
    return c.get("referencedDecl", {}).get("name")


def _is_rproc_member(n):
    if n.get("kind") != "MemberExpr" or n.get("isArrow"):
        return None
    b = n["inner"][0]
    if b.get("kind") == "DeclRefExpr" and b.get("referencedDecl", {}).get("name") == "rproc" and b["referencedDecl"].get("kind") == "VarDecl":
        return n.get("name")
    return None


class Tr:
    def __init__(self, cx, fn, d):
        self.cx, self.fn, self.d = cx, fn, d
        self.src = cx.src

    def bad(self, n, why):
        loc = n.get("range", {}).get("begin", {}) if isinstance(n, dict) else {}
        off = loc.get("offset")
        if off is None:
            off = loc.get("expansionLoc", {}).get("offset")
        if off is None:
            off = loc.get("spellingLoc", {}).get("offset")
        line = (self.src[:off].count(b"\n") + 1) if off is not None else "?"
        raise self.cx.cg.Unsupported("UNSUPPORTED %s:%s function %s: %s %s" % (REL, line, self.fn, n.get("kind", "") if isinstance(n, dict) else "", why))

    def macro(self, n):
        ex = n.get("range", {}).get("begin", {}).get("expansionLoc")
        if not ex or ex.get("offset") is None:
            return None
        return self.src[ex["offset"]:ex["offset"] + (ex.get("tokLen") or 0)].decode("latin1")

    def site(self):
        self.cx.nsite += 1
        return self.cx.nsite

    # ---- what an expression touches
    def atomics(self, n):
        out = []
        _walk(n, lambda x: out.append(x) if x.get("kind") == "AtomicExpr" else None)
        return out

    def mentions_st(self, n):
        hit = []
        _walk(n, lambda x: hit.append(x) if _is_rproc_member(x) == "st" else None)
        return bool(hit)

    def st_const(self, n):
        n = _strip(n)
        if n.get("kind") == "DeclRefExpr" and n.get("referencedDecl", {}).get("kind") == "EnumConstantDecl":
            nm = n["referencedDecl"]["name"]
            if nm in ST:
                return ST[nm]
        return None

    def accesses(self, n):
        """the rproc.<field> accesses of an expression in textual order: [(R|W, field)]; no atomics, no st"""
        acc = []

        def visit(x, mode):
            k = x.get("kind")
            if k == "AtomicExpr":
                self.bad(x, "atomic operation inside a larger expression")
            f = _is_rproc_member(x)
            if f is not None:
                if f == "st":
                    self.bad(x, "rproc.st outside atomic_load / atomic_store / atomic_compare_exchange_strong")
                if f not in FIELDS:
                    self.bad(x, "member rproc.%s is not a field of the model" % f)
                acc.append((mode, FIELDS[f]))
                return
            if k == "DeclRefExpr" and x.get("referencedDecl", {}).get("name") == "rproc":
                self.bad(x, "rproc used other than as rproc.<field>")
            if k in ("BinaryOperator", "CompoundAssignOperator") and x.get("opcode", "").endswith("=") and x.get("opcode") not in ("==", "!=", "<=", ">="):
                lhs, rhs = x["inner"]
                visit(rhs, "R")
                if x["opcode"] != "=":
                    visit(lhs, "R")
                visit(lhs, "W")
                return
            if k == "UnaryOperator" and x.get("opcode") in ("++", "--"):
                visit(x["inner"][0], "R")
                visit(x["inner"][0], "W")
                return
            if k == "UnaryOperator" and x.get("opcode") == "&":
                inner = _strip(x["inner"][0])
                if _is_rproc_member(inner) is not None:
                    self.bad(x, "address of a process field")
            if k == "CallExpr":
                name = _callee(x)
                if name in DIE:
                    return          # the thread stops here: accesses in the arguments of die() are not part of the trace
                cq = x["inner"][0].get("type", {}).get("qualType", "")
                m = re.search(r"\((?:\*\))?\((.*)\)\s*$", cq) or re.search(r"\((.*)\)\s*$", cq)
                params = [p.strip() for p in (m.group(1).split(",") if m else [])]
                for i, a in enumerate(x["inner"][1:]):
                    pm = params[i] if i < len(params) else "..."
                    s = _strip(a)
                    f2 = _is_rproc_member(s)
                    if f2 is not None and a.get("type", {}).get("qualType", "").strip().endswith("*"):
                        # an array field decays to a pointer: written iff the parameter is a pointer to non-const
                        if pm == "..." and name in PRINTF:
                            visit(s, "R")        # a %s argument of a printf-like function is read
                            continue
                        if pm == "..." or "*" not in pm:
                            self.bad(x, "process field passed by address to an unknown parameter")
                        visit(s, "R" if re.search(r"\bconst\b", pm.split("*")[0]) else "W")
                    else:
                        visit(a, "R")
                return
            for c in x.get("inner", []) or []:
                if isinstance(c, dict):
                    visit(c, "R" if mode == "W" and k not in ("ParenExpr", "ImplicitCastExpr", "ArraySubscriptExpr", "MemberExpr") else mode)
        visit(n, "R")
        return acc

    def emits(self, acc, k):
        for mode, f in reversed(acc):
            k = "tseq (emit (%s %s))\n(%s)" % ("SW" if mode == "W" else "SR", f, k)
        return k

    def calls(self, n):
        out = []
        _walk(n, lambda x: out.append(x) if x.get("kind") == "CallExpr" else None)
        return out

    # ---- conditions
    def cond(self, c, env):
        """-> (reads to emit first, Gallina bool expression over w and the bound variables) or ('load', cmp-builder)"""
        s = _strip(c)
        if s.get("kind") == "UnaryOperator" and s.get("opcode") == "!":
            i = _strip(s["inner"][0])
            tracked = (i.get("kind") == "DeclRefExpr" and (i.get("referencedDecl", {}).get("name") in env["ok"] or
                                                          i.get("referencedDecl", {}).get("name") in env["mv"])) or \
                _is_rproc_member(i) == "move_to_final"
            if tracked:
                r = self.cond(s["inner"][0], env)
                return (r[0], "(negb %s)" % r[1])
            # `!x` with x opaque: one opaque guard (true = the guarded side is taken)
        if s.get("kind") == "DeclRefExpr" and s.get("referencedDecl", {}).get("kind") == "VarDecl":
            nm = s["referencedDecl"]["name"]
            if env["ok"].get(nm):
                return ([], env["ok"][nm])
            if nm in env["mv"]:
                return ([], "(w_mv w)")
        if s.get("kind") == "BinaryOperator" and s.get("opcode") in ("==", "!="):
            a, b = s["inner"]
            sa, sb = _strip(a), _strip(b)
            if sa.get("kind") == "DeclRefExpr" and sa["referencedDecl"].get("name") in env["stv"] and self.st_const(b):
                e = "(pst_eqb %s %s)" % (env["stv"][sa["referencedDecl"]["name"]], self.st_const(b))
                return ([], e if s["opcode"] == "==" else "(negb %s)" % e)
            if sa.get("kind") == "DeclRefExpr" and sa["referencedDecl"].get("name") in env["mv"] and self.cx.cg._is_null(b):
                return ([], "(negb (w_mv w))" if s["opcode"] == "==" else "(w_mv w)")
        if _is_rproc_member(s) == "move_to_final":
            return ([("R", "Fmove")], "(w_mv w)")
        if self.atomics(c):
            self.bad(c, "atomic operation in a condition that is not `atomic_load(&rproc.st) ==/!= ST_X`")
        for call in self.calls(c):
            if _callee(call) in self.cx.full:
                self.bad(c, "call of %s (process state) inside a condition" % _callee(call))
        return (self.accesses(c), "(w_cond w %d)" % self.site())

    def load_cond(self, c):
        """`atomic_load(&rproc.st) ==/!= ST_X` -> Gallina condition over v_ , or None"""
        s = _strip(c)
        if s.get("kind") == "BinaryOperator" and s.get("opcode") in ("==", "!="):
            a, b = s["inner"]
            at = _strip(a)
            if at.get("kind") == "AtomicExpr" and self.macro(at) == "atomic_load" and self.st_const(b):
                self.check_st_arg(at)
                e = "(pst_eqb v_ %s)" % self.st_const(b)
                return e if s["opcode"] == "==" else "(negb %s)" % e
        return None

    def check_st_arg(self, at):
        a0 = _strip(at["inner"][0])
        if not (a0.get("kind") == "UnaryOperator" and a0.get("opcode") == "&" and _is_rproc_member(_strip(a0["inner"][0])) == "st"):
            self.bad(at, "atomic operation on something that is not &rproc.st")

    # ---- statements
    def stmts(self, ss, env):
        if not ss:
            return "tskip"
        s, rest = ss[0], ss[1:]
        k = s.get("kind")
        if k == "CompoundStmt":
            return self.stmts(list(s.get("inner", [])) + rest, env)
        if k == "NullStmt":
            return self.stmts(rest, env)
        if k == "ReturnStmt":
            acc = self.accesses(s) if s.get("inner") else []
            if self.atomics(s):
                self.bad(s, "atomic operation in a return")
            return self.emits(acc, "tret")
        if k == "CallExpr" and _callee(s) in DIE:
            return "tdie"
        if k == "CallExpr" and _callee(s) in LOGS:
            if self.accesses(s) or self.atomics(s):
                self.bad(s, "process state in a logging call")
            return self.stmts(rest, env)
        if k == "IfStmt":
            parts = list(s["inner"])
            c, th = parts[0], parts[1]
            el = parts[2] if len(parts) > 2 else None
            a = self.stmts([th], env)
            b = self.stmts([el], env) if el is not None else "tskip"
            lc = self.load_cond(c)
            if lc is not None:
                body = "load_st (fun v_ =>\ntif (fun w => %s)\n(%s)\n(%s))" % (lc, a, b)
            else:
                reads, e = self.cond(c, env)
                body = self.emits(reads, "tif (fun w => %s)\n(%s)\n(%s)" % (e, a, b))
            return "tseq (%s)\n(%s)" % (body, self.stmts(rest, env))
        if k == "DeclStmt":
            env = self.copy(env)
            for v in s["inner"]:
                if v.get("kind") != "VarDecl":
                    self.bad(v, "declaration")
                inits = [c for c in v.get("inner", []) if c.get("kind") not in ("FullComment",)]
                name = v["name"]
                for d in (env["stc"], env["stv"], env["ok"], env["mv"]):
                    if isinstance(d, dict):
                        d.pop(name, None)
                    else:
                        d.discard(name)
                if not inits:
                    continue
                i0 = inits[0]
                at = _strip(i0)
                if at.get("kind") == "AtomicExpr":
                    if len(s["inner"]) != 1:
                        self.bad(s, "CAS in a multiple declaration")
                    return self.cas(at, name, rest, env)
                if self.atomics(i0):
                    self.bad(s, "atomic operation inside an initialiser")
                if self.st_const(i0):
                    env["stc"][name] = self.st_const(i0)
                    continue
                c0 = _strip(i0)
                if c0.get("kind") == "CallExpr" and _callee(c0) == "getenv":
                    lit = _strip(c0["inner"][1])
                    if lit.get("kind") == "StringLiteral" and lit.get("value") == '"%s"' % MV_ENV:
                        env["mv"].add(name)
                        continue
                term = self.plain(i0, None)
                if term != "tskip":
                    return "tseq (%s)\n(%s)" % (term, self.stmts([dict(s, inner=s["inner"][s["inner"].index(v) + 1:])] + rest if s["inner"].index(v) + 1 < len(s["inner"]) else rest, env))
            return self.stmts(rest, env)
        if k == "AtomicExpr":
            m = self.macro(s)
            if m == "atomic_store":
                self.check_st_arg(s)
                v = self.st_const(s["inner"][-1])
                if v is None:
                    self.bad(s, "atomic_store of something that is not an ST_* constant")
                return "tseq (store_st %s)\n(%s)" % (v, self.stmts(rest, env))
            self.bad(s, "atomic operation %s as a statement" % m)
        if k in ("ForStmt", "WhileStmt", "DoStmt", "SwitchStmt"):
            if self.touches(s):
                self.bad(s, "loop / switch that touches process state")
            return "tseq (opq %d)\n(%s)" % (self.site(), self.stmts(rest, env))
        if k in ("BinaryOperator", "CompoundAssignOperator", "UnaryOperator", "CallExpr", "CStyleCastExpr"):
            # an assignment to a tracked local forgets what was known about it
            if k in ("BinaryOperator", "CompoundAssignOperator"):
                t = _strip(s["inner"][0])
                if t.get("kind") == "DeclRefExpr":
                    nm = t["referencedDecl"]["name"]
                    if nm in env["stc"] or nm in env["stv"] or nm in env["ok"] or nm in env["mv"]:
                        self.bad(s, "assignment to the tracked local %s" % nm)
            term = self.plain(s, s)
            return "tseq (%s)\n(%s)" % (term, self.stmts(rest, env)) if term != "tskip" else self.stmts(rest, env)
        self.bad(s, "statement")

    def copy(self, env):
        return {"stc": dict(env["stc"]), "stv": dict(env["stv"]), "ok": dict(env["ok"]), "mv": set(env["mv"])}

    def touches(self, n):
        hit = []
        _walk(n, lambda x: hit.append(1) if (x.get("kind") == "DeclRefExpr" and x.get("referencedDecl", {}).get("name") == "rproc") or
              (x.get("kind") == "CallExpr" and _callee(x) in self.cx.touching) else None)
        return bool(hit)

    def plain(self, e, stmt):
        """an expression statement / initialiser without atomics: its accesses, then the call of a FULL function or an opaque step"""
        if self.atomics(e):
            self.bad(e, "atomic operation inside an expression")
        acc = self.accesses(e)
        calls = [c for c in self.calls(e) if _callee(c) not in DIE]
        fulls = [c for c in calls if _callee(c) in self.cx.full]
        if fulls:
            if len(fulls) != 1 or _strip(e) is not fulls[0]:
                self.bad(e, "call of %s (process state) inside a larger expression" % _callee(fulls[0]))
            return self.emits(acc, "tcall %s" % _callee(fulls[0]))
        for c in calls:
            if _callee(c) in self.cx.touching:
                self.bad(e, "call of %s, which touches process state but is translated by another unit" % _callee(c))
        tail = "opq %d" % self.site() if calls else "tskip"
        return self.emits(acc, tail)

    def cas(self, at, okname, rest, env):
        if self.macro(at) != "atomic_compare_exchange_strong" or len(at.get("inner", [])) != 5:
            self.bad(at, "atomic initialiser that is not atomic_compare_exchange_strong(&rproc.st, &loc, ST_X)")
        self.check_st_arg(at)
        ex = _strip(at["inner"][2])
        des = self.st_const(at["inner"][4])
        if not (ex.get("kind") == "UnaryOperator" and ex.get("opcode") == "&" and _strip(ex["inner"][0]).get("kind") == "DeclRefExpr") or des is None:
            self.bad(at, "CAS arguments")
        loc = _strip(ex["inner"][0])["referencedDecl"]["name"]
        if loc not in env["stc"]:
            self.bad(at, "the expected value %s of the CAS is not a local initialised to an ST_* constant" % loc)
        e = env["stc"].pop(loc)
        env["stv"][loc] = loc + "_"
        env["ok"][okname] = okname + "_"
        return "cas_st %s %s (fun %s_ %s_ =>\n%s)" % (e, des, okname, loc, self.stmts(rest, env))

    def body(self):
        return [c for c in self.d["inner"] if c["kind"] == "CompoundStmt"][0]

    def full(self):
        env = {"stc": {}, "stv": {}, "ok": {}, "mv": set()}
        return self.stmts([self.body()], env)

    def preamble(self):
        """leading declarations / `if (c) die(..)` guards; the rest must not mention rproc.st"""
        ss = list(self.body().get("inner", []))
        pre = []
        env = {"stc": {}, "stv": {}, "ok": {}, "mv": set()}
        i = 0
        while i < len(ss):
            s = ss[i]
            k = s.get("kind")
            if k == "DeclStmt" and not self.touches(s) and not self.atomics(s):
                pre.append(s)
            elif k == "IfStmt" and len(s["inner"]) == 2 and self.only_die(s["inner"][1]):
                pre.append(s)
            else:
                break
            i += 1
        for s in ss[i:]:
            if self.mentions_st(s) or self.atomics(s):
                self.bad(s, "rproc.st after the process-state preamble of %s" % self.fn)
        # accesses to plain fields inside the preamble guards are rendered; the remainder's are the other units' business
        return self.stmts(pre, env)

    def only_die(self, s):
        ss = s.get("inner", []) if s["kind"] == "CompoundStmt" else [s]
        ss = [x for x in ss if x["kind"] != "NullStmt"]
        return len(ss) == 1 and ss[0].get("kind") == "CallExpr" and _callee(ss[0]) in DIE


def indent(term):
    out, depth = [], 1
    for line in term.split("\n"):
        out.append("  " * max(depth - (1 if line.startswith(")") else 0), 0) + line)
        depth += line.count("(") - line.count(")")
        depth = max(depth, 1)
    return "\n".join(out)


def gen(work):
    cg = G.cg
    cx = Ctx()
    cx.cg = cg
    cx.nsite = 0
    path = os.path.join(G.REPO, REL)
    if not os.path.exists(path):
        raise cg.Unsupported("UNSUPPORTED %s does not exist" % REL)
    cx.src = open(path, "rb").read()
    inc, ver = G.ovni_h_dir(work)
    incs = G.incs(inc) + [os.path.dirname(path)]
    tu = '#include "%s"\n' % path
    # the functions of ovni.c: the symbol table of the object
    obj = os.path.join(work, "rtconc.o")
    r = subprocess.run(["cc", "-std=gnu11", "-w", "-O0", "-fkeep-static-functions", "-D_POSIX_C_SOURCE=200809L", "-c", path, "-o", obj] +
                       ["-I" + i for i in incs], stdout=subprocess.PIPE, stderr=subprocess.PIPE, text=True, timeout=120)
    if r.returncode != 0:
        raise cg.Unsupported("UNSUPPORTED cannot compile %s: %s" % (REL, r.stderr[-300:]))
    nm = subprocess.run(["nm", "--defined-only", obj], stdout=subprocess.PIPE, text=True, timeout=60).stdout
    defined, exported = [], set()
    for line in nm.split("\n"):
        f = line.split()
        if len(f) == 3 and f[1] in ("T", "t"):
            name = f[2].split(".")[0]
            if name not in defined:
                defined.append(name)
            if f[1] == "T":
                exported.add(name)
    asts, mention, mention_st, callees = {}, {}, {}, {}
    for fn in defined:
        d = cg.clang_ast(tu, incs, fn, work)
        asts[fn] = d
        m, ms, cs = [], [], set()

        def visit(x):
            if x.get("kind") == "DeclRefExpr" and x.get("referencedDecl", {}).get("name") == "rproc":
                m.append(1)
            if _is_rproc_member(x) == "st":
                ms.append(1)
            if x.get("kind") == "CallExpr" and _callee(x):
                cs.add(_callee(x))
        _walk(d, visit)
        mention[fn], mention_st[fn], callees[fn] = bool(m), bool(ms), cs & set(defined)
    # transitive closures
    touching = {f for f in defined if mention[f]}
    touching_st = {f for f in defined if mention_st[f]}
    changed = True
    while changed:
        changed = False
        for f in defined:
            if f not in touching and callees[f] & touching:
                touching.add(f)
                changed = True
            if f not in touching_st and callees[f] & touching_st:
                touching_st.add(f)
                changed = True
    for f in FULL_ROOTS:
        if f not in defined:
            raise cg.Unsupported("UNSUPPORTED %s: function %s not found (renamed or removed?)" % (REL, f))
    reach = set()
    todo = list(FULL_ROOTS)
    while todo:
        f = todo.pop()
        if f in reach:
            continue
        reach.add(f)
        todo += [c for c in callees[f] if c in touching and c not in exported]
    full = [f for f in defined if f in reach and (f in FULL_ROOTS or f in touching)]
    pre_only = sorted(f for f in exported if f not in FULL_ROOTS)
    cx.full = set(full)
    cx.touching = touching
    for f in defined:
        if f not in cx.full and f not in pre_only and mention_st[f]:
            raise cg.Unsupported("UNSUPPORTED %s: function %s mentions rproc.st but is neither an API function nor reached from %s" % (REL, f, FULL_ROOTS))
    for f in pre_only:
        for c in callees[f]:
            if c in touching_st and c not in pre_only and c not in cx.full:
                raise cg.Unsupported("UNSUPPORTED %s: %s reaches rproc.st through %s" % (REL, f, c))
    # order: callees first
    order, seen = [], set()

    def emit(f):
        if f in seen:
            return
        seen.add(f)
        for c in sorted(callees[f]):
            if c in cx.full and c != f:
                emit(c)
        order.append(f)
    for f in full:
        emit(f)
    vals = cg.probe_consts(tu, incs, {"c_" + n: n for n in ST}, work)
    if len(set(vals.values())) != len(ST):
        raise cg.Unsupported("UNSUPPORTED the ST_* constants are not distinct")
    out = []
    for f in order:
        t = Tr(cx, f, asts[f])
        out.append("(* %s: %s (whole function) *)\nDefinition %s : T :=\n%s.\n" % (REL, f, f, indent(t.full())))
    for f in pre_only:
        t = Tr(cx, f, asts[f])
        out.append("(* %s: %s (process-state preamble; the rest never mentions rproc.st) *)\nDefinition pre_%s : T :=\n%s.\n" % (
            REL, f, f, indent(t.preamble())))
    text = (G.HEADER % "src/rt/ovni.c (unit rtconc)") + \
        "From Coq Require Import List Bool.\n" \
        "From OV Require Import Rt.RtConcDefs Rt.RtConcPre.\n" \
        "Import ListNotations.\n\n" \
        "(* enum { %s }: all distinct *)\n" % ", ".join("%s = %s" % (n, vals["c_" + n]) for n in ST) + \
        "(* functions rendered in full: %s *)\n" % ", ".join(order) + \
        "(* exported functions with a preamble only: %s *)\n" % ", ".join(pre_only) + \
        "(* number of opaque sites: %d *)\n\n" % cx.nsite + "\n".join(out) + \
        "\n(* the preambles of the exported functions, in alphabetical order of the C names (the call kind of Rt/RtConcDefs.v\n" \
        "   each belongs to is given, in the same order, in Proofs/RtConcGenProofs.v) *)\n" \
        "Definition preambles : list T :=\n  [%s].\n" % ";\n   ".join("pre_" + f for f in pre_only)
    return {"RtConc_gen.v": text}
