"""Translator unit `sys`: the thread and CPU state functions of src/emu/thread.c and src/emu/cpu.c.

Emits coq/Gen/Sys_gen.v: thread_set_state, thread_set_cpu, thread_unset_cpu, thread_migrate_cpu (thread.c) and
cpu_update (with its list traversal as a fold_left), cpu_add_thread, cpu_remove_thread, cpu_migrate_thread (cpu.c),
statement by statement, over the hand-written world of coq/Emu/SysPre.v: threads and CPUs with their C fields and
their system channels; chan_set on one of these channels IS the chan_set generated from chan.c (Gen/Chan_gen.v,
unit chan) run on that channel.  Still primitives: find_thread (a search loop with an early return), the utlist
macros DL_APPEND2 / DL_DELETE2, value_int64 / value_null.
`G` (translate/gen.py) is injected by the plug-in loader.
"""
import importlib.util
import os

_spec = importlib.util.spec_from_file_location("ovni_verif_stagec_sys", os.path.join(os.path.dirname(os.path.abspath(__file__)), "_stagec.py"))
S = importlib.util.module_from_spec(_spec)
_spec.loader.exec_module(S)

UNITS = [
    ("src/emu/thread.c", [("thread_set_state", "action"), ("thread_set_cpu", "action"), ("thread_unset_cpu", "action"),
                          ("thread_migrate_cpu", "action")]),
    ("src/emu/cpu.c", [("cpu_update", "action"), ("cpu_add_thread", "action"), ("cpu_remove_thread", "action"),
                       ("cpu_migrate_thread", "action")]),
    # the handlers of unit guards once more, now calling the functions above instead of primitives
    ("src/emu/ovni/event.c", [
        ("pre_thread_execute", "action"), ("pre_thread_end", "action"), ("pre_thread_pause", "action"),
        ("pre_thread_resume", "action"), ("pre_thread_cool", "action"), ("pre_thread_warm", "action"),
        ("pre_thread", "action"), ("pre_affinity_set", "action"), ("pre_affinity_remote", "action"),
        ("pre_affinity", "action"), ("model_ovni_event", "action")]),
]


def gen(work):
    S.G = G
    S.SX_T, S.ST_T = "senv", "sys"
    S.PTR = {
        "struct thread *": ("ptr_thread", True),
        "struct cpu *": ("ptr_cpu", True),
        "struct chan *": ("ptr_chan", True),
        "struct proc *": ("ptr_proc", False),
        "struct emu *": ("emu", False),
        "struct emu_ev *": ("ptr_emu_ev", False),
        "union ovni_ev_payload *": ("ptr_payload", True),
        "struct loom *": ("ptr_loom", False),
    }
    S.STRUCTS = {"struct value": "cvalue"}
    S.NONNULL_LINK = {("thread", "proc"), ("emu", "ev"), ("emu", "thread"), ("emu", "loom"), ("emu", "proc")}
    S.PRIM_ACTION = {"chan_set", "pre_burst", "pre_cpu", "pre_flush", "mark_event"}
    S.PRIM_VALUE = {"value_int64", "value_null", "find_thread", "loom_get_cpu", "proc_find_thread", "loom_find_thread"}
    S.PRIM_ALLOC = set()
    S.MACRO_PRIM = {"DL_APPEND2", "DL_DELETE2"}
    ctext, defs = S.translate_files(work, UNITS)
    text = (G.HEADER % "src/emu/thread.c, src/emu/cpu.c, src/emu/ovni/event.c (unit sys)") + \
        "From Coq Require Import ZArith List Bool.\n" \
        "From OV Require Import Base.CInt Emu.SysPre.\n" \
        "Import ListNotations.\nLocal Open Scope Z_scope.\n\n" \
        "(* enum constants, evaluated by the compiler *)\n" + ctext + "\n" + "\n".join(defs)
    return {"Sys_gen.v": text}
