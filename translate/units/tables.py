"""T1 - dump by compilation: for each emulator model a probe TU #include's the repo's own
<model>/setup.c (+ <model>/event.c) so that it sees the static tables with the enum values the
real compiler resolved, and prints them.  Output: coq/Gen/Tables_gen.v (plain Gallina lists)
and build/tables.json (same data for the Python side of the checks).

Fails closed: a model whose files do not have the expected static names makes the unit raise
Unsupported (broken tie).
"""
import json
import os
import subprocess
import sys

CONSTS = {  # enum constants the hand-written part of the model refers to
    "ovni": ["CH_FLUSH", "ST_FLUSHING"],
    "kernel": ["CH_CS", "ST_CSOUT"],
    "nosv": ["CH_IDLE", "CH_SUBSYSTEM", "ST_PROGRESSING", "ST_RESTING", "CH_TASKID", "CH_BODYID", "CH_TYPE", "CH_APPID", "CH_RANK", "ST_TASK_BODY"],
    "nanos6": ["CH_IDLE", "CH_SUBSYSTEM", "ST_PROGRESSING", "ST_RESTING", "CH_TASKID", "CH_TYPE", "CH_RANK", "ST_TASK_BODY"],
}

MODELS = [  # dir, table variable in event.c (None = handler has no table)
    ("ovni", None), ("nanos6", "ss_table"), ("nosv", "ss_table"), ("nodes", "ss_table"),
    ("tampi", "ss_table"), ("mpi", "fn_table"), ("kernel", None), ("openmp", "fn_table"),
]

PROBE = r'''
/* mark the two members of every PAIR_x(...) declaration so the dump can tell which events the source pairs up */
#include "ev_spec.h"
#undef PAIR_E
#undef PAIR_B
#undef PAIR_S
#define PAIR_E(MCV1, MCV2, desc) { MCV1, "\001" MCV2 "enters " desc }, { MCV2, "\002" MCV1 "leaves " desc },
#define PAIR_B(MCV1, MCV2, desc) { MCV1, "\001" MCV2 "begins " desc }, { MCV2, "\002" MCV1 "ceases " desc },
#define PAIR_S(MCV1, MCV2, desc) { MCV1, "\001" MCV2 "starts " desc }, { MCV2, "\002" MCV1 "stops  " desc },
#include "%(dir)s/setup.c"
%(event_inc)s
#include <stdio.h>
static void pstr(const char *s) { if (!s) { printf("-"); return; } for (; *s; s++) printf("%%02x", (unsigned char) *s); }
static void dump_spec(const char *tag, const struct model_chan_spec *sp)
{
	for (int i = 0; i < sp->nch; i++) {
		printf("CHAN %%s %%s %%d ", "%(dir)s", tag, i); pstr(sp->ch_names[i]);
		printf(" stack=%%d dup=%%d track=%%d type=%%d flags=%%ld prefix=", sp->ch_stack ? sp->ch_stack[i] : 0,
			sp->ch_dup ? sp->ch_dup[i] : 0, sp->track[i], sp->pvt->type[i], sp->pvt->flags ? sp->pvt->flags[i] : 0L);
		pstr(sp->pvt->prefix ? sp->pvt->prefix[i] : NULL); printf("\n");
		if (sp->pvt->label && sp->pvt->label[i])
			for (const struct pcf_value_label *p = sp->pvt->label[i]; p->label != NULL; p++) {
				printf("LABEL %%s %%s %%d %%d ", "%(dir)s", tag, i, p->value); pstr(p->label); printf("\n");
			}
	}
}
int main(void)
{
	printf("MODEL %%s %%d ", "%(dir)s", (int) model_%(dir)s.model); pstr(model_%(dir)s.name); printf(" "); pstr(model_%(dir)s.version);
	printf(" finish=%%d\n", model_%(dir)s.finish != NULL);
	for (struct ev_decl *d = model_evlist; d->signature != NULL; d++) {
		printf("EVDECL %%s ", "%(dir)s"); pstr(d->signature); printf(" "); pstr(d->description); printf("\n");
	}
	dump_spec("th", &th_chan);
	dump_spec("cpu", &cpu_chan);
%(const_dump)s
%(table_dump)s
	return 0;
}
'''

TABLE_DUMP = r'''
	for (int c = 0; c < 256; c++) for (int v = 0; v < 256; v++) {
		const int *e = %(table)s[c][v];
		if (e[0] == 0 && e[1] == 0 && e[2] == 0) continue;
		const char *a = e[1] == PUSH ? "PUSH" : e[1] == POP ? "POP" : e[1] == IGN ? "IGN" :
#ifdef VERIF_HAS_SET
			e[1] == SET ? "SET" :
#endif
			"UNKNOWN";
		printf("TABLE %%s %%d %%d %%d %%s %%d\n", "%(dir)s", c, v, e[0], a, e[2]);
	}
'''


def hexdec(h):
    return "" if h == "-" else bytes.fromhex(h).decode("latin1")


def gen(work):
    cg = G.cg
    sys.path.insert(0, os.path.join(G.VERIF, "lib"))
    from vf import common
    build = common.repo_build("hook")
    repo = G.REPO
    data = {"models": [], "evdecl": [], "chans": [], "labels": [], "table": []}
    for (d, table) in MODELS:
        evc = os.path.join(repo, "src", "emu", d, "event.c")
        has_set = False
        if table:
            txt = open(evc).read()
            if ("static const int %s[256][256][3]" % table) not in txt:
                raise cg.Unsupported("UNSUPPORTED %s/event.c has no `static const int %s[256][256][3]`" % (d, table))
            has_set = " SET" in txt.split("enum {", 1)[1].split("}", 1)[0] if "enum {" in txt else False
        src = PROBE % {
            "dir": d,
            "event_inc": ('#include "%s/event.c"' % d) if table else "",
            "table_dump": (TABLE_DUMP % {"table": table, "dir": d}) if table else "",
            "const_dump": "".join('\tprintf("CONST %s %s %%d\\n", (int) %s);\n' % (d, c, c) for c in CONSTS.get(d, [])),
        }
        if has_set:
            src = "#define VERIF_HAS_SET 1\n" + src
        p = os.path.join(work, "tabdump_%s.c" % d)
        exe = os.path.join(work, "tabdump_%s" % d)
        open(p, "w").write(src)
        cmd = ["cc", "-std=gnu11", "-w", "-O0", "-o", exe, p] + build.cflags_emu + build.libs_emu + ["-lm"]
        r = subprocess.run(cmd, stdout=subprocess.PIPE, stderr=subprocess.PIPE, text=True, timeout=300)
        if r.returncode != 0:
            raise cg.Unsupported("UNSUPPORTED table probe for %s does not build: %s" % (d, r.stderr[-600:]))
        out = subprocess.run([exe], stdout=subprocess.PIPE, text=True, timeout=60).stdout
        for line in out.split("\n"):
            f = line.split()
            if not f:
                continue
            if f[0] == "MODEL":
                data["models"].append({"dir": f[1], "id": int(f[2]), "name": hexdec(f[3]), "version": hexdec(f[4]),
                                       "finish": int(f[5].split("=")[1])})
            elif f[0] == "EVDECL":
                sig, desc = hexdec(f[2]), hexdec(f[3])
                if desc[:1] == "\x01":
                    data.setdefault("pairs", []).append({"model": f[1], "first": sig[:3], "second": desc[1:4]})
                    desc = desc[4:]
                elif desc[:1] == "\x02":
                    desc = desc[4:]
                data["evdecl"].append({"model": f[1], "sig": sig, "desc": desc})
            elif f[0] == "CHAN":
                kv = dict(x.split("=", 1) for x in f[5:])
                data["chans"].append({"model": f[1], "side": f[2], "index": int(f[3]), "name": hexdec(f[4]),
                                      "stack": int(kv["stack"]), "dup": int(kv["dup"]), "track": int(kv["track"]),
                                      "type": int(kv["type"]), "flags": int(kv["flags"]), "prefix": hexdec(kv["prefix"])})
            elif f[0] == "LABEL":
                data["labels"].append({"model": f[1], "side": f[2], "index": int(f[3]), "value": int(f[4]), "label": hexdec(f[5])})
            elif f[0] == "CONST":
                data.setdefault("consts", []).append({"model": f[1], "name": f[2], "value": int(f[3])})
            elif f[0] == "TABLE":
                if f[5] == "UNKNOWN":
                    raise cg.Unsupported("UNSUPPORTED %s table entry %s has an action outside PUSH/POP/SET/IGN" % (d, f))
                data["table"].append({"model": f[1], "c": int(f[2]), "v": int(f[3]), "chan": int(f[4]), "action": f[5], "value": int(f[6])})
    if len(data["models"]) != len(MODELS):
        raise cg.Unsupported("UNSUPPORTED expected %d models, dumped %d" % (len(MODELS), len(data["models"])))
    os.makedirs(os.path.join(G.VERIF, "build"), exist_ok=True)
    with open(os.path.join(G.VERIF, "build", "tables.json"), "w") as f:
        json.dump(data, f, indent=0, sort_keys=True)

    mid = {m["dir"]: m["id"] for m in data["models"]}

    def zl(s):
        return "[" + "; ".join(str(ord(c)) for c in s) + "]"

    o = [G.HEADER % "src/emu/*/setup.c, src/emu/*/event.c (tables dumped by compiling the sources)",
         "From Coq Require Import ZArith List.\nImport ListNotations.\nLocal Open Scope Z_scope.\n",
         "Inductive action := PUSH | POP | SET | IGN.\n",
         "(* (model id, name, version, has finish hook) *)",
         "Definition models : list (Z * list Z * list Z * bool) :=\n  [" + ";\n   ".join(
             "(%d, %s, %s, %s)" % (m["id"], zl(m["name"]), zl(m["version"]), "true" if m["finish"] else "false") for m in data["models"]) + "].\n",
         "(* (model id, category, value, channel index, action, value) : every non-zero entry of ss_table/fn_table *)",
         "Definition table : list (Z * Z * Z * Z * action * Z) :=\n  [" + ";\n   ".join(
             "(%d, %d, %d, %d, %s, %d)" % (mid[t["model"]], t["c"], t["v"], t["chan"], t["action"], t["value"]) for t in data["table"]) + "].\n",
         "(* thread channel specs: (model id, index, is stack, allow dup, thread track mode, cpu track mode, prv type, prv flags) *)"]
    th = [c for c in data["chans"] if c["side"] == "th"]
    cpu = {(c["model"], c["index"]): c for c in data["chans"] if c["side"] == "cpu"}
    rows = []
    for c in th:
        cc = cpu.get((c["model"], c["index"]))
        if cc is None or cc["type"] != c["type"] or cc["stack"] != c["stack"]:
            raise cg.Unsupported("UNSUPPORTED thread/cpu channel specs of %s differ in shape" % c["model"])
        rows.append("(%d, %d, %s, %s, %d, %d, %d, %d)" % (mid[c["model"]], c["index"], "true" if c["stack"] else "false",
                                                          "true" if c["dup"] else "false", c["track"], cc["track"], c["type"], c["flags"]))
        if cc["flags"] != c["flags"]:
            raise cg.Unsupported("UNSUPPORTED thread/cpu prv flags of %s differ" % c["model"])
    o.append("Definition chanspecs : list (Z * Z * bool * bool * Z * Z * Z * Z) :=\n  [" + ";\n   ".join(rows) + "].\n")
    o.append("(* value labels of the thread-side PCF: (model id, channel index, value) *)")
    o.append("Definition labels : list (Z * Z * Z) :=\n  [" + ";\n   ".join(
        "(%d, %d, %d)" % (mid[l["model"]], l["index"], l["value"]) for l in data["labels"] if l["side"] == "th") + "].\n")
    o.append("(* event declarations: (model id, signature) *)")
    o.append("Definition evdecls : list (Z * list Z) :=\n  [" + ";\n   ".join(
        "(%d, %s)" % (mid[e["model"]], zl(e["sig"])) for e in data["evdecl"]) + "].\n")
    o.append("(* (model id, signature, description) of every declared event *)")
    o.append("Definition evdescs : list (Z * list Z * list Z) :=\n  [" + ";\n   ".join(
        "(%d, %s, %s)" % (mid[e["model"]], zl(e["sig"]), zl(e["desc"])) for e in data["evdecl"]) + "].\n")
    o.append("(* events paired by PAIR_E/PAIR_B/PAIR_S in the evlist: (model id, (c,v) of the first, (c,v) of the second) *)")
    o.append("Definition evpairs : list (Z * (Z * Z) * (Z * Z)) :=\n  [" + ";\n   ".join(
        "(%d, (%d, %d), (%d, %d))" % (mid[p_["model"]], ord(p_["first"][1]), ord(p_["first"][2]), ord(p_["second"][1]), ord(p_["second"][2]))
        for p_ in data.get("pairs", [])) + "].\n")
    o.append("(* enum constants used by the hand-written part of the model *)")
    for c in data.get("consts", []):
        o.append("Definition c_%s_%s : Z := %d." % (c["model"], c["name"], c["value"]))
    o.append("")
    return {"Tables_gen.v": "\n".join(o)}
