"""Translator unit `mux`: the callbacks of src/emu/mux.c.

Emits coq/Gen/Mux_gen.v: default_select, select_input, cb_select, cb_reselect, cb_input, mux_get_input, mux_set_default,
statement by statement, with the stage-C translator core (_stagec.py, imported UNCHANGED), over the hand-written prelude
coq/Emu/MuxPre.v (state = a BayDefs bay; bay_enable_cb / bay_disable_cb / chan_read / chan_set are primitives with the
meaning BayDefs gives them; mux->select_func is a parameter).  `G` (translate/gen.py) is injected by the plug-in loader.

Additions of this unit to the subset of the core (wrappers around GT.e_val / GT.stmts, fail-closed like the core):
  1. implicit conversion `void *` -> pointer to a known struct (`struct mux *mux = ptr;`): checked downcast primitive
     `<ptr type>_of_void`; and pointer to a known struct -> `void *` (callback argument): `void_of_<ptr type>`;
  2. a function used as a value (FunctionToPointerDecay of a function name): the constant `fn_<name>`;
  3. `(void) x;` (UNUSED): dropped after checking that x has no side effect;
  4. `if (P && f(a, &x) != 0) { log; return -1; }` with f an int-status call with an output parameter, x an initialised
     local and P side-effect free: `bind (ite_out P (f a) x) (fun x => rest)`;
  5. post-processing: the call `select_input(mux, key, &input)` of cb_select is rendered by the core as the two-argument
     output-parameter call `(select_input mux key)`; since select_input itself is translated with its three parameters,
     the text is rewritten to `(with_out_pinput (select_input mux key))` (refused if the pattern is not found exactly),
     and the shadowed initialiser `input = NULL` just before it gets its type annotation `(None : ptr_input)`.
Not translated, with the construct that stops the core:
  - mux_set_input, mux_add_reselect: the result of an allocating call (bay_add_cb) is stored into a field / compared with
    NULL inside an `if` ("call of bay_add_cb inside an expression"); the core only binds allocations to locals;
  - mux_init: memset / calloc, and chan_get_type()/bay_find() results used inside conditions.
"""
import importlib.util
import os

_spec = importlib.util.spec_from_file_location("ovni_verif_stagec_mux", os.path.join(os.path.dirname(os.path.abspath(__file__)), "_stagec.py"))
S = importlib.util.module_from_spec(_spec)
_spec.loader.exec_module(S)

FUNCS = os.environ.get("MUX_FUNCS", "default_select:action,select_input:action,cb_select:action,cb_reselect:action,cb_input:action,mux_get_input:value,mux_set_default:proc").split(",")
UNITS = [("src/emu/mux.c", [tuple(f.split(":")) for f in FUNCS]),
         ("src/emu/thread.c", [("thread_select_active", "action"), ("thread_select_running", "action")])]


_orig_e_val = S.GT.e_val


def _e_val(self, n, env):
    # additions of this unit (the shared core is not edited):
    #  - implicit conversion `void *` -> pointer to a known struct (the callback argument): a checked downcast primitive
    #  - a function used as a value (callback registration): the constant fn_<name>
    if n.get("kind") in ("ImplicitCastExpr", "CStyleCastExpr"):
        ck = n.get("castKind")
        inner = n["inner"][0]
        if ck == "BitCast" and S._norm_ptr(S._qt(inner)) == "void *" and S._norm_ptr(S._qt(n)) in S.PTR and not self.cg._is_null(n):
            a = self.e_val(inner, env)
            return S.Val("(%s_of_void %s)" % (S.PTR[S._norm_ptr(S._qt(n))][0], a.t), a.safe, a.dep)
        if ck == "BitCast" and S._norm_ptr(S._qt(n)) == "void *" and S._norm_ptr(S._qt(inner)) in S.PTR and not self.cg._is_null(n):
            a = self.e_val(inner, env)
            return S.Val("(void_of_%s %s)" % (S.PTR[S._norm_ptr(S._qt(inner))][0], a.t), a.safe, a.dep)
        if ck == "FunctionToPointerDecay" and inner.get("kind") == "DeclRefExpr" and inner.get("referencedDecl", {}).get("kind") == "FunctionDecl":
            return S.Val("fn_%s" % inner["referencedDecl"]["name"])
    return _orig_e_val(self, n, env)


_orig_stmts = S.GT.stmts


def _stmts(self, ss, env, kind):
    # addition of this unit: `if (P && f(a, &x) != 0) { log; return -1; }` with f an int-status call with output
    # parameter, x an initialised local, P without side effect and no else:
    #     x := (if P then the value f stores, failing if f fails, else x) ; rest
    # rendered `bind (ite_out P (f a) x) (fun x => rest)`; the arguments of f are evaluated only when P holds
    self.cur_env_names = set(env)
    if ss and ss[0]["kind"] == "CStyleCastExpr" and ss[0].get("castKind") == "ToVoid":
        # `(void) x;` (the UNUSED macro): evaluates a side-effect free expression and drops it
        self.pure_tree(ss[0])
        return self.stmts(ss[1:], env, kind)
    if ss and ss[0]["kind"] == "IfStmt":
        s0 = ss[0]
        parts = list(s0["inner"])
        cond = parts[0]
        while cond.get("kind") == "ParenExpr":
            cond = cond["inner"][0]
        if len(parts) == 2 and cond.get("kind") == "BinaryOperator" and cond.get("opcode") == "&&":
            lhs, rhs = cond["inner"]
            oc = self.out_cond(rhs)
            if oc is not None:
                call, outvar = oc
                if not self.is_fail_block(parts[1], kind):
                    self.bad(s0, "a failing call must be followed by { log; return -1; } only")
                if not env[outvar]["init"]:
                    self.bad(s0, "output variable of a guarded call must be initialised")
                self.pure_tree(lhs)
                p = self.e_bool(lhs, env)
                name = S._callee(call)
                args = [self.e_val(a, env) for i, a in enumerate(call["inner"][1:]) if i != S.OUT_ACTION[name]]
                callt = self.bind_args(args, lambda ts: "(%s %s)" % (name, " ".join(ts)))
                g = env[outvar]["g"]
                term = "bind (ite_out %s (%s) %s) (fun %s =>\n%s)" % (
                    self.fn_of_state(p.t), callt, g, g, self.stmts(ss[1:], env, kind))
                return self.needed(p.safe, term)
    return _orig_stmts(self, ss, env, kind)


def gen(work):
    S.G = G
    S.GT.e_val = _e_val
    S.GT.stmts = _stmts
    S.SX_T, S.ST_T = "menv", "mstate"
    S.PTR = {
        "struct mux *": ("ptr_mux", True),
        "struct mux_input *": ("ptr_input", True),
        "struct mux_input * *": ("ptr_pinput", True),
        "struct chan *": ("ptr_chan", True),
        "struct bay *": ("ptr_bay", True),
        "struct bay_cb *": ("ptr_cb", True),
        "struct value *": ("ptr_value", True),
        "mux_select_func_t": ("ptr_fn", True),
        "void *": ("ptr_void", True),
    }
    S.STRUCTS = {"struct value": "cvalue"}
    S.NONNULL_LINK = set()
    S.PRIM_ACTION = {"chan_set", "call_select_func"}
    S.PRIM_VALUE = set()
    S.PRIM_ALLOC = {"bay_add_cb"}
    S.PRIM_PROC = {"bay_enable_cb", "bay_disable_cb"}
    S.OUT_ACTION = {"chan_read": 1, "select_input": 2}
    S.BYREF_READ = set()
    S.INDIRECT_CALLS = {"select_func": "call_select_func"}
    S.MACRO_PRIM = set()
    ctext, defs = S.translate_files(work, UNITS)
    import re
    pat = re.compile(r"bind \(select_input (\w+) (\w+)\) \(fun ")
    ndefs, hits = [], 0
    for d in defs:
        if "Definition cb_select " in d:
            d, k = pat.subn(r"bind (with_out_pinput (select_input \1 \2)) (fun ", d)
            hits += k
            # `struct mux_input *input = NULL;` is shadowed at once by the output of select_input: give the literal its type
            d = d.replace("(eval (fun sx st => None)) (fun input =>", "(eval (fun sx st => (None : ptr_input))) (fun input =>")
        ndefs.append(d)
    if any("Definition cb_select " in d for d in defs) and hits == 0:
        raise G.cg.Unsupported("UNSUPPORTED src/emu/mux.c function cb_select: the call select_input(mux, key, &input) was not found in the expected form")
    defs = ndefs
    text = (G.HEADER % "src/emu/mux.c (unit mux)") + \
        "From Coq Require Import ZArith List Bool.\n" \
        "From OV Require Import Base.CInt Emu.MuxPre.\n" \
        "Import ListNotations.\nLocal Open Scope Z_scope.\n\n" \
        "(* enum constants, evaluated by the compiler *)\n" + ctext + "\n" + "\n".join(defs)
    return {"Mux_gen.v": text}
