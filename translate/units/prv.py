"""Translator unit `prv`: the Paraver emission of src/emu/pv/prv.c.

Emits coq/Gen/Prv_gen.v: is_value_dup, emit, check_flags, statement by statement, with the stage-C translator core
(_stagec.py), over the hand-written prelude coq/Emu/PrvPre.v (one prv_chan as state: flags, last_value,
last_value_set, row, type; the value chan_read returns is an input; write_line appends an output record).
`G` (translate/gen.py) is injected by the plug-in loader.
"""
import importlib.util
import os

_spec = importlib.util.spec_from_file_location("ovni_verif_stagec_prv", os.path.join(os.path.dirname(os.path.abspath(__file__)), "_stagec.py"))
S = importlib.util.module_from_spec(_spec)
_spec.loader.exec_module(S)

UNITS = [
    ("src/emu/pv/prv.c", [("is_value_dup", "value"), ("emit", "action"), ("check_flags", "action")]),
]


def gen(work):
    S.G = G
    S.SX_T, S.ST_T = "penv", "pstate"
    S.PTR = {
        "struct prv *": ("ptr_prv", True),
        "struct prv_chan *": ("ptr_prv_chan", True),
        "struct chan *": ("ptr_chan", True),
        "struct value *": ("ptr_value", True),
    }
    S.STRUCTS = {"struct value": "cvalue"}
    S.NONNULL_LINK = set()
    S.PRIM_ACTION = set()
    S.PRIM_VALUE = {"value_is_equal", "value_is_null"}
    S.PRIM_ALLOC = set()
    S.PRIM_PROC = {"write_line"}
    S.OUT_ACTION = {"chan_read": 1}
    S.BYREF_READ = {"value_is_equal", "is_value_dup"}
    S.MACRO_PRIM = set()
    ctext, defs = S.translate_files(work, UNITS)
    text = (G.HEADER % "src/emu/pv/prv.c (unit prv)") + \
        "From Coq Require Import ZArith List Bool.\n" \
        "From OV Require Import Base.CInt Emu.PrvPre.\n" \
        "Import ListNotations.\nLocal Open Scope Z_scope.\n\n" \
        "(* enum constants, evaluated by the compiler *)\n" + ctext + "\n" + "\n".join(defs)
    return {"Prv_gen.v": text}
