"""Translator unit `cpuc`: the thread-list functions of src/emu/cpu.c (property C05).

Emits coq/Gen/CpuC_gen.v: find_thread WITH its search loop, and cpu_update, cpu_add_thread, cpu_remove_thread,
cpu_migrate_thread calling the generated find_thread (unit sys renders the last four with find_thread as a hand
primitive of coq/Emu/SysPre.v), statement by statement with the stage-C core (_stagec.py, imported UNCHANGED), over
coq/Emu/CpuCPre.v = Emu/SysPre.v (eng-guards' prelude of unit sys, unchanged: threads, CPUs, the generated chan_set on
their channels, the intrusive list cpu->threads as the Coq list of its elements in list order) + the loop combinator.

Additions of this unit to the subset of the core (wrappers around GT.stmts / GT.call_alloc, fail closed):
  1. the SEARCH LOOP  `DL_FOREACH2(p->head, el, next) BODY`  whose BODY may `return e;` (the core's one loop form is a
     pure fold without return): `bind (dl_search (fun sx st => list_<struct>_<head>_<next> sx st p) (fun el => BODY'))
     (fun r_ => match r_ with Some v_ => ret v_ | None => REST end)`, BODY' : M (option result) = BODY with `return e` =
     `ret (Some e)` and its end = `ret None` (next element).  The `for` statement must BE the macro's expansion
     `for ((el) = (head); el; (el) = (el)->next)` (checked on the AST against the macro's arguments); BODY may only
     contain `if` and `return` (no store, no call, no break / continue);
  2. `if (F(..) ==/!= NULL) { log; return -1; }` and `T *x = F(..)` with F a pointer-valued function of the unit: the
     result is bound first, the call parenthesised.
Still primitives (SysPre.v): the utlist macros DL_APPEND2 / DL_DELETE2 on the list (append / remove the element: the
pointer surgery of utlist.h is not translated), value_int64 / value_null, chan_set = Gen/Chan_gen.v.
"""
import importlib.util
import os
import re

_spec = importlib.util.spec_from_file_location("ovni_verif_stagec_cpuc", os.path.join(os.path.dirname(os.path.abspath(__file__)), "_stagec.py"))
S = importlib.util.module_from_spec(_spec)
_spec.loader.exec_module(S)

UNITS = [("src/emu/cpu.c", [("find_thread", "alloc"), ("cpu_update", "action"), ("cpu_add_thread", "action"),
                            ("cpu_remove_thread", "action"), ("cpu_migrate_thread", "action")])]
SEARCH_MACROS = {"DL_FOREACH2"}

_orig_stmts = S.GT.stmts
_orig_call_alloc = S.GT.call_alloc


def _call_alloc(self, n, env):
    r = _orig_call_alloc(self, n, env)
    return "(%s)" % r if r.startswith("bind") or r.startswith("(need") else r


def _name_of(n):
    t = S._strip(n)
    while t.get("kind") in ("ParenExpr", "ImplicitCastExpr"):
        t = S._strip(t["inner"][0])
    if t.get("kind") == "DeclRefExpr" and t.get("referencedDecl", {}).get("kind") in ("VarDecl", "ParmVarDecl"):
        return t["referencedDecl"]["name"]
    return None


def _has_return(n):
    if n.get("kind") == "ReturnStmt":
        return True
    return any(_has_return(c) for c in n.get("inner", []) or [] if isinstance(c, dict))


def _body_ok(self, n):
    k = n.get("kind")
    if k in ("BinaryOperator", "CompoundAssignOperator") and n.get("opcode", "").endswith("=") and n.get("opcode") not in ("==", "!=", "<=", ">="):
        self.bad(n, "store inside a search loop")
    if k == "UnaryOperator" and n.get("opcode") in ("++", "--"):
        self.bad(n, "++/-- inside a search loop")
    if k in ("CallExpr", "BreakStmt", "ContinueStmt", "GotoStmt", "ForStmt", "WhileStmt", "DoStmt", "SwitchStmt", "DeclStmt"):
        self.bad(n, "%s inside a search loop" % k)
    for c in n.get("inner", []) or []:
        if isinstance(c, dict):
            _body_ok(self, c)


def _search_loop(self, s, rest, env, kind):
    name, args = self.macro_of(s)
    if name not in SEARCH_MACROS or len(args) != 3:
        self.bad(s, "loop that is not DL_FOREACH2(p->head, el, next)")
    m = re.match(r"^(\w+)\s*->\s*(\w+)$", args[0])
    if not m or not re.match(r"^\w+$", args[1]) or not re.match(r"^\w+$", args[2]):
        self.bad(s, "loop arguments are not p->head, el, next")
    pv, headf, el, nxt = m.group(1), m.group(2), args[1], args[2]
    if pv not in env or not env[pv]["init"] or el not in env:
        self.bad(s, "loop over something that is not a field of a local pointer / element variable not declared")
    parts = s["inner"]
    if len(parts) != 5 or parts[1]:
        self.bad(s, "for statement")
    init, _, cond, inc, body = parts
    # the statement must be the expansion  for ((el) = (head); el; (el) = (el)->next)
    ok = init.get("kind") == "BinaryOperator" and init.get("opcode") == "=" and _name_of(init["inner"][0]) == el
    if ok:
        root, chain = self.chain_of(S._strip(init["inner"][1]))
        ok = root.get("kind") == "DeclRefExpr" and root["referencedDecl"]["name"] == pv and [(c[0], c[2]) for c in chain] == [(headf, True)]
    ok = ok and _name_of(cond) == el
    ok = ok and inc.get("kind") == "BinaryOperator" and inc.get("opcode") == "=" and _name_of(inc["inner"][0]) == el
    if ok:
        root, chain = self.chain_of(S._strip(inc["inner"][1]))
        ok = root.get("kind") == "DeclRefExpr" and root["referencedDecl"]["name"] == el and [(c[0], c[2]) for c in chain] == [(nxt, True)]
    if not ok:
        self.bad(s, "the for statement is not the expansion of %s(%s)" % (name, ", ".join(args)))
    st = S._struct_of(env[pv]["cty"])
    if st is None:
        self.bad(s, "loop head is not a field of a struct pointer")
    _body_ok(self, body)
    env_b = dict(env)
    env_b[el] = dict(env[el], init=True, nonnull=True)
    old = getattr(self, "_dl_kind", None)
    self._dl_kind = kind
    try:
        bt = self.stmts([body], env_b, "dlbody")
    finally:
        self._dl_kind = old
    env2 = dict(env)
    env2[el] = dict(env[el], init=False)        # NULL after a complete traversal: not to be used
    lst = "(fun sx st => list_%s_%s_%s sx st %s)" % (st, headf, nxt, env[pv]["g"])
    safe = S.SAFE_NN % env[pv]["g"] if S.PTR.get(S._norm_ptr(env[pv]["cty"]), (None, True))[1] else None
    return self.needed(safe, "bind (dl_search %s (fun %s =>\n%s)) (fun r_ =>\nmatch r_ with\n| Some v_ => ret v_\n| None =>\n%s\nend)" % (
        lst, env[el]["g"], bt, self.stmts(rest, env2, kind)))


def _stmts(self, ss, env, kind):
    self.cur_env_names = set(env)
    if kind == "dlbody":
        if not ss:
            return "ret None"
        s, rest = ss[0], ss[1:]
        k = s.get("kind")
        if k == "ReturnStmt":
            r = (s.get("inner") or [None])[0]
            if r is None or self._dl_kind != "alloc":
                self.bad(s, "return inside a search loop of a function that does not return a pointer")
            if self.cg._is_null(r):
                return "ret (Some None)"
            v = self.e_val(r, env)
            if v.dep or v.safe is not None:
                self.bad(s, "return of a state-dependent expression inside a search loop")
            return "ret (Some %s)" % v.t
        if k not in ("CompoundStmt", "NullStmt", "IfStmt"):
            self.bad(s, "statement inside a search loop")
        return _orig_stmts(self, ss, env, kind)
    if not ss:
        return _orig_stmts(self, ss, env, kind)
    s, rest = ss[0], ss[1:]
    k = s.get("kind")
    if k == "ForStmt" and _has_return(s["inner"][-1]):
        return _search_loop(self, s, rest, env, kind)
    if k == "IfStmt" and len(s["inner"]) == 2:
        c = s["inner"][0]
        while c.get("kind") == "ParenExpr":
            c = c["inner"][0]
        if c.get("kind") == "BinaryOperator" and c.get("opcode") in ("==", "!=") and self.cg._is_null(c["inner"][1]):
            call = S._strip(c["inner"][0])
            if call.get("kind") == "CallExpr" and self.kinds.get(S._callee(call)) == "alloc":
                if not self.is_fail_block(s["inner"][1], kind):
                    self.bad(s, "a NULL test of a call must guard { log; return failure; } only")
                test = "is_null r_" if c["opcode"] == "==" else "negb (is_null r_)"
                failt = "fail E_FAIL" if kind == "action" else "ret None"
                return "bind %s (fun r_ =>\nite (fun sx st => %s)\n(%s)\n(%s))" % (
                    self.call_alloc(call, env), test, failt, self.stmts(rest, env, kind))
    return _orig_stmts(self, ss, env, kind)


def gen(work):
    S.G = G
    S.GT.stmts = _stmts
    S.GT.call_alloc = _call_alloc
    S.SX_T, S.ST_T = "senv", "sys"
    S.PTR = {
        "struct thread *": ("ptr_thread", True),
        "struct cpu *": ("ptr_cpu", True),
        "struct chan *": ("ptr_chan", True),
        "struct proc *": ("ptr_proc", False),
    }
    S.STRUCTS = {"struct value": "cvalue"}
    S.NONNULL_LINK = {("thread", "proc")}
    S.PRIM_ACTION = {"chan_set"}
    S.PRIM_VALUE = {"value_int64", "value_null"}
    S.PRIM_ALLOC = set()
    S.MACRO_PRIM = {"DL_APPEND2", "DL_DELETE2"}
    ctext, defs = S.translate_files(work, UNITS)
    text = (G.HEADER % "src/emu/cpu.c (unit cpuc)") + \
        "From Coq Require Import ZArith List Bool.\n" \
        "From OV Require Import Base.CInt Emu.SysPre Emu.CpuCPre.\n" \
        "Import ListNotations.\nLocal Open Scope Z_scope.\n\n" \
        "(* enum constants, evaluated by the compiler *)\n" + ctext + "\n" + "\n".join(defs)
    return {"CpuC_gen.v": text}
