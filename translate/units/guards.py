"""Translator unit `guards` (DESIGN.md section 4, T2 stage C): the guard-sequence functions of the emulator.

Emits coq/Gen/Guards_gen.v: one Gallina definition per C function, statement by statement and in the
order of the C, in the reader+state+error monad of coq/Emu/GuardsPre.v:

  src/emu/ovni/event.c  pre_thread_execute/end/pause/resume/cool/warm, pre_thread, pre_affinity_set,
                        pre_affinity_remote, pre_affinity, model_ovni_event
  src/emu/cpu.c         cpu_migrate_thread
  src/emu/body.c        body_can_resurrect, body_can_pause, body_get_running, body_execute/pause/resume/end
  src/emu/task.c        task_is_parallel, create_body, task_execute/pause/resume/end

Everything these functions call that is not in the list is a PRIMITIVE defined by hand in GuardsPre.v
(PRIM_* below); the translator refuses a call to anything else.

Supported subset (anything else raises Unsupported naming file:line => BROKEN-TIE; no statement is
ever skipped silently):
  statements : compound; `;`; declarations of scalars/pointers with or without initialiser; assignment to a
               local; `p->f = e`, `p->f++`, `x |= e` (p, x locals/parameters); if/else; `return`;
               `if (f(..) != 0) { log...; return -1; }` for an int-status function f; switch over an integer
               with `case K:` groups ending in return/break; calls of err/warn/info/dbg whose arguments have
               no side effect (ignored); the utlist macros DL_PREPEND / DL_DELETE with arguments of the
               form `p->f, q` (become primitives named after the head field).
  expressions: integer/character literals, locals, parameters, enum constants, member chains rooted at a
               local pointer (one link, or any number of links through the never-NULL pointers of struct emu),
               a[i], & | + - comparisons && || !, integral casts (explicit CInt.cast_*), `p == NULL`,
               pointer equality, `&p->f`, calls of value functions/primitives.
Every dereference of a nullable pointer contributes to a `need` condition (NULL => E_TRAP), with the
short-circuit of && and || respected.
`G` (translate/gen.py) is injected by the plug-in loader.
"""
import importlib.util
import os

_spec = importlib.util.spec_from_file_location("ovni_verif_stagec_guards", os.path.join(os.path.dirname(os.path.abspath(__file__)), "_stagec.py"))
S = importlib.util.module_from_spec(_spec)
_spec.loader.exec_module(S)

# ---------------------------------------------------------------- what is translated

UNITS = [
    # (source file, [(function, kind)])  kind: action = int status (0 / -1) -> M unit
    #                                          value  = pure function of the state -> value (+ its _safe condition)
    #                                          alloc  = returns a pointer and changes the state -> M ptr
    ("src/emu/cpu.c", [("cpu_migrate_thread", "action")]),
    ("src/emu/ovni/event.c", [
        ("pre_thread_execute", "action"), ("pre_thread_end", "action"), ("pre_thread_pause", "action"),
        ("pre_thread_resume", "action"), ("pre_thread_cool", "action"), ("pre_thread_warm", "action"),
        ("pre_thread", "action"), ("pre_affinity_set", "action"), ("pre_affinity_remote", "action"),
        ("pre_affinity", "action"), ("model_ovni_event", "action")]),
    ("src/emu/body.c", [
        ("body_can_resurrect", "value"), ("body_can_pause", "value"), ("body_get_running", "value"),
        ("body_execute", "action"), ("body_pause", "action"), ("body_resume", "action"), ("body_end", "action")]),
    ("src/emu/task.c", [
        ("task_is_parallel", "value"), ("create_body", "alloc"),
        ("task_execute", "action"), ("task_pause", "action"), ("task_resume", "action"), ("task_end", "action")]),
]



def gen(work, only=None):
    S.G = G
    ctext, defs = S.translate_files(work, UNITS)
    text = (G.HEADER % "src/emu/ovni/event.c, src/emu/cpu.c, src/emu/body.c, src/emu/task.c (unit guards)") + \
        "From Coq Require Import ZArith List Bool.\n" \
        "From OV Require Import Base.CInt Emu.EmuCoreDefs Emu.GuardsPre.\n" \
        "Import ListNotations.\nLocal Open Scope Z_scope.\n\n" \
        "(* enum constants, evaluated by the compiler *)\n" + ctext + "\n" + "\n".join(defs)
    return {"Guards_gen.v": text}
