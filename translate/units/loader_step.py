"""Translator unit `loader_step`: src/emu/stream.c:next_ev_size, the bounds check of stream_step.

Emits coq/Gen/LoaderStep_gen.v with the Gallina translation of the C function.  It exists only in
trees that carry the repair `fix: stream_step reads the event header and jumbo size before the
bounds check` (patches/fix-c19-stream-bounds.diff); on any other tree the unit fails closed
("function next_ev_size not found"), which the checks report as a broken tie: the theorems of
Proofs/StreamProofs.v are about the repaired stream_step and do not apply to such a tree.
Also checks (textually, on the clang AST) that stream_step calls it before any other use of the
event: the call must be the condition of the first `if` after the assignment of cur_ev.
"""
import json
import os
import subprocess


def tu_text():
    return '#include "%s"\n' % os.path.join(G.REPO, "src", "emu", "stream.c")


def _walk(n, f):
    f(n)
    for c in n.get("inner", []) or []:
        if isinstance(c, dict):
            _walk(c, f)


def _calls(n):
    out = []

    def f(x):
        if x.get("kind") == "CallExpr":
            callee = x["inner"][0]
            while callee.get("kind") in ("ImplicitCastExpr", "ParenExpr"):
                callee = callee["inner"][0]
            nm = callee.get("referencedDecl", {}).get("name")
            if nm:
                out.append(nm)
    _walk(n, f)
    return out


def check_stream_step_shape(cg, incs, tu, work):
    """stream_step must (a) compare next_ev_size(cur_ev, size - offset) < 0 and return before the
    clock of the event is read, (b) not call ovni_ev_size on an event it has not validated: the only
    ovni_ev_size call allowed is the one that advances the offset over the *previous* event."""
    d = cg.clang_ast(tu, incs, "stream_step", work)
    body = [c for c in d["inner"] if c["kind"] == "CompoundStmt"][0]
    stmts = body.get("inner", [])
    seen_guard = False
    for s in stmts:
        calls = _calls(s)
        if "next_ev_size" in calls:
            if s.get("kind") != "IfStmt":
                raise cg.Unsupported("UNSUPPORTED stream_step: next_ev_size is not the condition of an if statement")
            seen_guard = True
            continue
        if not seen_guard and ("stream_evclock" in calls or "ovni_ev_get_clock" in calls):
            raise cg.Unsupported("UNSUPPORTED stream_step reads the event clock before next_ev_size validated the event")
        if "ovni_ev_size" in calls and seen_guard:
            raise cg.Unsupported("UNSUPPORTED stream_step calls ovni_ev_size after the guard (expected only before it, on the previous event)")
    if not seen_guard:
        raise cg.Unsupported("UNSUPPORTED stream_step does not call next_ev_size")


def gen(work):
    cg = G.cg
    inc, ver = G.ovni_h_dir(work)
    tu = tu_text()
    incs = G.incs(inc) + [os.path.join(G.REPO, "src", "emu")]
    tr = cg.Translator(incs, tu, work)
    tr.function("next_ev_size")
    check_stream_step_shape(cg, incs, tu, work)
    consts = tr.resolve()
    text = (G.HEADER % "src/emu/stream.c (unit loader_step)") + \
        "From OV Require Import Base.CInt Emu.LoaderPre Gen.Loader_gen.\nLocal Open Scope Z_scope.\n\n" + \
        "\n".join(l for l in consts.split("\n") if l and not _already(l)) + "\n\n" + "\n".join(tr.out)
    return {"LoaderStep_gen.v": text}


# constants Loader_gen.v already defines (same probe, same value): do not redefine them
_DEFINED = ("c_OVNI_EV_JUMBO", "c_sizeof_struct_ovni_ev_header", "c_sizeof_uint32_t")


def _already(line):
    return any(line.startswith("Definition %s " % n) for n in _DEFINED)
