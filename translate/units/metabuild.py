"""Translator unit `metabuild`: the builders of the emulator's system - src/emu/system.c find_loom, create_thread, create_proc,
create_loom, system_get_lpt, the per-stream body of create_system's loop (emitted as `stream_body`) and the `for` statement itself
(`create_system_loop`, checked on the AST); src/emu/loom.c loom_init_begin, loom_find_proc, loom_add_proc, loom_load_metadata;
src/emu/proc.c proc_init_begin, proc_find_thread, proc_add_thread, proc_load_metadata; src/emu/thread.c thread_init_begin.

Emits coq/Gen/MetaBuild_gen.v over the hand-written prelude coq/Emu/MetaBuildPre.v.  The renderer is the one of unit markread
(class R, imported and SUBCLASSED, not edited; _stagec.py is not used; unit meta is not touched).  Additional forms:
  x = malloc(sizeof(struct T));             bind (calloc_T) (fun x => ..)      (a fresh pending object; *_init_begin memsets it)
  DL_APPEND(sys->looms, loom);              bind_ (dl_append_looms sys loom) ..
  HASH_FIND_INT(p->procs|threads, &k, out)  bind (hash_find_proc|thread p k) (fun out => ..)
  HASH_ADD_INT(p->procs|threads, pid|tid, x)  bind_ (hash_add_proc|thread p x) ..   (another key field is refused)
  return NULL;  in a pointer function       a refusal (fail E_FAIL): every caller turns NULL into its own error return
  if (f(..) != NULL) { refusal }            bind (f ..) (fun r => ite (negb (is_null r)) (fail ..) ..)
  if ((x = e) < k) { .. }                   x = e; if (x < k) { .. }
  proc_set_loom(p, l); thread_set_proc(t, p);   bind_ (..) ..
  struct lpt *lpt = &sys->lpt[i++];         bind (lpt_next sys) (fun lpt => ..)
  stream_data_set(s, lpt);                  bind_ (stream_data_set s lpt) ..
  continue;  (loop body of create_system)   ret 0    (the body is emitted as a function of one stream)
  for (struct loom *x = sys->looms; x; x = x->next) { if (c) return x; }     bind (dl_find_looms sys (fun x => ret c)) (fun r => ite (negb (is_null r)) (ret r) ..)
  for (struct stream *s = trace->streams; s; s = s->next) { body } return 0;  bind_ (for_streams trace (fun s => stream_body sys s)) (ret 0)
  memset(x, 0, sizeof(struct T));           bind_ (memset_T x) ..
  if (snprintf(x->f, N, "%s" | "name.%d", v) >= N) { refusal }   bind (snprintf_s_T_f | snprintf_d_T_f ..) (fun len => ite (len >=? N) (fail ..) ..)
  set_hostname(x->hostname, x->name); cpu_init_begin(&x->vcpu, ..); cpu_set_loom(&x->vcpu, x);   bind_ (..) ..
  a->stream != b  (struct stream *)         negb (stream_eqb ..)
Primitives (prelude): the metadata gates and loaders unit meta translates (loom_name, proc_stream_get_pid, thread_stream_get_tid,
is_thread_stream, load_cpus, load_appid, load_rank, thread_load_metadata: their meaning on the stream's claims is
C15_stream_claims_from_source), the accessors proc_get_pid /
proc_set_loom / thread_get_tid / thread_set_proc, the uthash / utlist macros, malloc.
`G` (translate/gen.py) is injected by the plug-in loader.
"""
import importlib.util
import os
import re

_spec = importlib.util.spec_from_file_location("ovni_verif_markread_for_metabuild", os.path.join(os.path.dirname(os.path.abspath(__file__)), "markread.py"))
MRK = importlib.util.module_from_spec(_spec)
_spec.loader.exec_module(MRK)
EV = MRK.EV
V = MRK.V

MRK.STATEFUL = {"system", "lpt", "loom", "proc", "thread"}
MRK.PURE = {"loom_name", "proc_stream_get_pid", "thread_stream_get_tid", "stream_metadata", "strcmp", "strchr"}
MRK.FUNCS = {"find_loom": "ptr", "loom_init_begin": "int", "loom_load_metadata": "int", "loom_find_proc": "ptr", "proc_init_begin": "int",
             "loom_add_proc": "int", "proc_load_metadata": "int", "proc_find_thread": "ptr", "thread_init_begin": "int",
             "thread_load_metadata": "int", "proc_add_thread": "int", "is_thread_stream": "int", "proc_get_pid": "int", "thread_get_tid": "int", "load_appid": "int", "load_rank": "int", "load_cpus": "int",
             "create_thread": "ptr", "create_proc": "ptr", "create_loom": "ptr", "stream_data_get": "ptr", "system_get_lpt": "ptr"}
MRK.RPTYPES = {"char *": "ptr_str", "struct system *": "ptr_sys", "struct stream *": "ptr_stream", "struct loom *": "ptr_loom",
               "struct proc *": "ptr_proc", "struct thread *": "ptr_thread", "struct lpt *": "ptr_lpt", "JSON_Object *": "ptr_jobj"}
OWN = ["find_loom", "create_thread", "create_proc", "create_loom"]
VOIDFUNCS = {"proc_set_loom", "thread_set_proc"}
OTHER = [("src/emu/loom.c", ["loom_init_begin", "loom_find_proc", "loom_add_proc", "loom_load_metadata"]),
         ("src/emu/proc.c", ["proc_init_begin", "proc_find_thread", "proc_add_thread", "proc_load_metadata"]),
         ("src/emu/thread.c", ["thread_init_begin"])]


class B(MRK.R):
    def cond(self, n, env):
        c = self.strip(n)
        if c.get("kind") == "BinaryOperator" and c.get("opcode") in ("!=", "==") and all(self.norm(self.qt(x)) == "struct stream *" for x in c["inner"]):
            t = "(stream_eqb %s %s)" % (self.expr(c["inner"][0], env), self.expr(c["inner"][1], env))
            return "(negb %s)" % t if c["opcode"] == "!=" else t
        return MRK.R.cond(self, n, env)

    def ret_minus1(self, r):
        if getattr(self, "rkind", None) == "ptr" and getattr(self, "null_refusal", True) and self.is_nullc(r):
            return True
        return MRK.R.ret_minus1(self, r)

    def is_calloc(self, n, var):
        c = self.strip(n)
        if c.get("kind") == "CStyleCastExpr":
            c = self.strip(c["inner"][0])
        if c.get("kind") == "CallExpr" and self.callee(c) == "malloc" and len(c["inner"]) == 2:
            sz = self.strip(c["inner"][1])
            if sz.get("kind") == "UnaryExprOrTypeTraitExpr" and sz.get("name") == "sizeof":
                return True
            self.bad(n, "malloc must be `x = malloc(sizeof(struct T))`")
        return MRK.R.is_calloc(self, n, var)

    def hash_macro(self, s, rest, env):
        mt = self.macro_text(s)
        if mt is not None and mt[0] == "DL_APPEND":
            name, args = mt
            hm = re.match(r"^([A-Za-z_]\w*)\s*->\s*looms$", args[0].strip())
            if not hm or len(args) != 2:
                self.bad(s, "DL_APPEND must be DL_APPEND(sys->looms, loom)")
            base = self.ident(hm.group(1), env, s)
            obj = self.ident(args[1], env, s)
            return "bind_ (dl_append_looms %s %s)\n(%s)" % (env[base]["g"], env[obj]["g"], self.stmts(rest, env))
        if mt is not None and mt[0] in ("HASH_FIND_INT", "HASH_ADD_INT"):
            name, args = mt
            hm = re.match(r"^([A-Za-z_]\w*)\s*->\s*(procs|threads)$", args[0].strip())
            if not hm or len(args) != 3:
                self.bad(s, "hash head %r is not loom->procs / proc->threads" % args[0])
            base = self.ident(hm.group(1), env, s)
            tab = "proc" if hm.group(2) == "procs" else "thread"
            if name == "HASH_FIND_INT":
                kv = self.ident(args[1], env, s)
                ov = self.ident(args[2], env, s)
                g = self.gname(ov)
                env2 = dict(env)
                env2[ov] = dict(env[ov], kind="var", g=g)
                return "bind (hash_find_%s %s %s) (fun %s =>\n%s)" % (tab, env[base]["g"], env[kv]["g"], g, self.stmts(rest, env2))
            want = "pid" if tab == "proc" else "tid"
            if args[1].strip() != want:
                self.bad(s, "hash key field %r (expected %s)" % (args[1], want))
            ov = self.ident(args[2], env, s)
            return "bind_ (hash_add_%s %s %s)\n(%s)" % (tab, env[base]["g"], env[ov]["g"], self.stmts(rest, env))
        return MRK.R.hash_macro(self, s, rest, env)

    def stmts(self, ss, env):
        if ss:
            s, rest = ss[0], ss[1:]
            k = s.get("kind")
            if k == "DeclStmt" and len(s["inner"]) == 1 and s["inner"][0].get("kind") == "VarDecl" and self.norm(self.qt(s["inner"][0])) == "struct lpt *":
                v = s["inner"][0]
                inits = [c for c in v.get("inner", []) if c.get("kind") != "FullComment"]
                a = self.strip(inits[0]) if inits else {}
                if not (a.get("kind") == "UnaryOperator" and a.get("opcode") == "&"):
                    return MRK.R.stmts(self, ss, env)
                ok = True
                sub = self.strip(a["inner"][0]) if ok else {}
                ok = ok and sub.get("kind") == "ArraySubscriptExpr"
                if ok:
                    arr, idx = self.strip(sub["inner"][0]), self.strip(sub["inner"][1])
                    key = self.stateful_read(arr) if arr.get("kind") == "MemberExpr" else None
                    ok = key is not None and key[0] == "system" and key[1] == "lpt" and idx.get("kind") == "UnaryOperator" and idx.get("opcode") == "++" \
                        and idx.get("isPostfix") and self.strip(idx["inner"][0]).get("referencedDecl", {}).get("name") == "i"
                if not ok:
                    self.bad(s, "an lpt slot must be taken as `&sys->lpt[i++]`")
                g = self.gname(v["name"])
                env2 = dict(env)
                env2[v["name"]] = {"kind": "var", "g": g, "cty": "struct lpt *"}
                return "bind (lpt_next %s) (fun %s =>\n%s)" % (env[key[2]]["g"], g, self.stmts(rest, env2))
            if k == "IfStmt":
                c0 = self.strip(s["inner"][0])
                if c0.get("kind") == "BinaryOperator" and c0.get("opcode") in ("<", "!=", "==", ">", "<=", ">="):
                    a = self.strip(c0["inner"][0])
                    if a.get("kind") == "BinaryOperator" and a.get("opcode") == "=" and self.strip(a["inner"][0]).get("kind") == "DeclRefExpr":
                        c1 = dict(c0)
                        c1["inner"] = [a["inner"][0], c0["inner"][1]]
                        s1 = dict(s)
                        s1["inner"] = [c1] + list(s["inner"][1:])
                        return self.stmts([a, s1] + rest, env)
            if k == "IfStmt" and len(s["inner"]) == 2:
                c0 = self.strip(s["inner"][0])
                if c0.get("kind") == "BinaryOperator" and c0.get("opcode") == "!=" and self.strip(c0["inner"][0]).get("kind") == "CallExpr" \
                        and MRK.FUNCS.get(self.callee(self.strip(c0["inner"][0]))) == "ptr" and self.is_nullc(c0["inner"][1]) \
                        and self.terminal_fail(s["inner"][1]) is not None:
                    call = self.strip(c0["inner"][0])
                    self.fresh += 1
                    r = "r_%d" % self.fresh
                    return self.with_errno(list(call["inner"][1:]), env, lambda e: "bind %s (fun %s =>\nite (negb (is_null %s))\n(fail %s)\n(%s))" % (
                        self.mono_call(call, e), r, r, self.terminal_fail(s["inner"][1]), self.stmts(rest, env)))
            if k == "CallExpr" and self.callee(s) in ("set_hostname", "cpu_init_begin", "cpu_set_loom"):
                a = [self.strip(x) for x in s["inner"][1:]]
                if self.callee(s) == "set_hostname":
                    k0 = self.stateful_read(a[0]) if a[0].get("kind") == "MemberExpr" else None
                    k1 = self.stateful_read(a[1]) if a[1].get("kind") == "MemberExpr" else None
                    if not (k0 and k1 and k0[2] == k1[2] and k0[1] == "hostname" and k1[1] == "name"):
                        self.bad(s, "set_hostname must be set_hostname(x->hostname, x->name)")
                    return "bind_ (set_hostname_%s %s)\n(%s)" % (k0[0], env[k0[2]]["g"], self.stmts(rest, env))
                u = a[0]
                mem = self.strip(u["inner"][0]) if u.get("kind") == "UnaryOperator" and u.get("opcode") == "&" else {}
                kk = self.stateful_read(mem) if mem.get("kind") == "MemberExpr" else None
                if not (kk and kk[1] == "vcpu"):
                    self.bad(s, "%s must act on &x->vcpu" % self.callee(s))
                return "bind_ (%s_vcpu %s %s)\n(%s)" % (self.callee(s), env[kk[2]]["g"], " ".join(self.expr(x, env) for x in a[1:]), self.stmts(rest, env))
            if k == "CallExpr" and self.callee(s) == "memset":
                a = s["inner"][1:]
                x = self.strip(a[0])
                while x.get("kind") in ("ImplicitCastExpr", "CStyleCastExpr"):
                    x = self.strip(x["inner"][0])
                z = self.strip(a[1])
                sz = self.strip(a[2])
                nm = x.get("referencedDecl", {}).get("name")
                m = re.match(r"^struct (\w+) \*$", self.norm(env.get(nm, {}).get("cty", ""))) if nm in env else None
                ok = m and z.get("kind") == "IntegerLiteral" and z.get("value") == "0" and sz.get("kind") == "UnaryExprOrTypeTraitExpr" \
                    and sz.get("name") == "sizeof" and self.norm(sz.get("argType", {}).get("qualType", "")) == "struct %s" % m.group(1)
                if not ok:
                    self.bad(s, "memset must be `memset(x, 0, sizeof(struct T))` with x a struct T * parameter")
                return "bind_ (memset_%s %s)\n(%s)" % (m.group(1), env[nm]["g"], self.stmts(rest, env))
            if k == "IfStmt" and len(s["inner"]) == 2:
                c0 = self.strip(s["inner"][0])
                call = self.strip(c0["inner"][0]) if c0.get("kind") == "BinaryOperator" and c0.get("opcode") == ">=" else {}
                if call.get("kind") == "CallExpr" and self.callee(call) == "snprintf" and self.terminal_fail(s["inner"][1]) is not None:
                    a = call["inner"][1:]
                    d = self.strip(a[0]) if a else {}
                    key = self.stateful_read(d) if d.get("kind") == "MemberExpr" else None
                    fmt = self.strip(a[2]) if len(a) == 4 else {}
                    fm = re.match(r'^"([a-z]+\.)%d"$', fmt.get("value", "")) if fmt.get("kind") == "StringLiteral" else None
                    if key is not None and fmt.get("kind") == "StringLiteral" and fmt.get("value") == '"%s"':
                        self.fresh += 1
                        g = "len_%d" % self.fresh
                        return "bind (snprintf_s_%s_%s %s %s %s) (fun %s =>\nite (Z.geb %s %s)\n(fail %s)\n(%s))" % (
                            key[0], key[1], env[key[2]]["g"], self.expr(a[1], env), self.expr(a[3], env), g, g, self.expr(c0["inner"][1], env),
                            self.terminal_fail(s["inner"][1]), self.stmts(rest, env))
                    if key is None or not fm:
                        self.bad(s, "snprintf in a condition must be `snprintf(x->field, N, \"name.%d\", v) >= N`")
                    self.fresh += 1
                    g = "len_%d" % self.fresh
                    pre = "; ".join(str(b) for b in fm.group(1).encode())
                    return "bind (snprintf_d_%s_%s %s %s [%s] %s) (fun %s =>\nite (Z.geb %s %s)\n(fail %s)\n(%s))" % (
                        key[0], key[1], env[key[2]]["g"], self.expr(a[1], env), pre, self.expr(a[3], env), g, g, self.expr(c0["inner"][1], env),
                        self.terminal_fail(s["inner"][1]), self.stmts(rest, env))
            if k == "ForStmt":
                t = self.loom_walk(s, rest, env)
                if t is not None:
                    return t
            if k == "CallExpr" and self.callee(s) in VOIDFUNCS:
                return "bind_ (%s %s)\n(%s)" % (self.callee(s), " ".join(self.expr(self.strip(a), env) for a in s["inner"][1:]), self.stmts(rest, env))
            if k == "CallExpr" and self.callee(s) == "stream_data_set":
                return "bind_ (stream_data_set %s)\n(%s)" % (" ".join(self.expr(self.strip(a), env) for a in s["inner"][1:]), self.stmts(rest, env))
        return MRK.R.stmts(self, ss, env)


def _loom_walk(self, s, rest, env):
    """for (struct loom *x = sys->looms; x; x = x->next) { if (c) return x; }  ->  dl_find_looms sys (fun x => c)"""
    init, _, cond, inc, body = s["inner"]
    v = init["inner"][0] if isinstance(init, dict) and init.get("kind") == "DeclStmt" and len(init["inner"]) == 1 else {}
    if v.get("kind") != "VarDecl" or self.norm(self.qt(v)) != "struct loom *":
        return None
    vin = [x for x in v.get("inner", []) if x.get("kind") != "FullComment"]
    head = self.stateful_read(self.strip(vin[0])) if vin and self.strip(vin[0]).get("kind") == "MemberExpr" else None
    c = self.strip(cond) if isinstance(cond, dict) else {}
    i0 = inc if isinstance(inc, dict) else {}
    nxt = self.strip(i0["inner"][1]) if i0.get("kind") == "BinaryOperator" and i0.get("opcode") == "=" else {}
    ok = head is not None and head[0] == "system" and head[1] == "looms" \
        and c.get("kind") == "DeclRefExpr" and c["referencedDecl"]["name"] == v["name"] \
        and i0.get("kind") == "BinaryOperator" and self.strip(i0["inner"][0]).get("referencedDecl", {}).get("name") == v["name"] \
        and nxt.get("kind") == "MemberExpr" and nxt.get("name") == "next" and self.strip(nxt["inner"][0]).get("referencedDecl", {}).get("name") == v["name"]
    fl = self.flat([body])
    ok = ok and len(fl) == 1 and fl[0].get("kind") == "IfStmt" and len(fl[0]["inner"]) == 2
    if ok:
        th = self.flat([fl[0]["inner"][1]])
        ok = len(th) == 1 and th[0].get("kind") == "ReturnStmt" and th[0].get("inner") \
            and self.strip(th[0]["inner"][0]).get("referencedDecl", {}).get("name") == v["name"]
    if not ok:
        self.bad(s, "a loop over the looms must be `for (struct loom *x = sys->looms; x; x = x->next) { if (c) return x; }`")
    g = self.gname(v["name"])
    envb = dict(env)
    envb[v["name"]] = {"kind": "var", "g": g, "cty": "struct loom *"}
    cnd = fl[0]["inner"][0]
    bt = self.with_errno([cnd], envb, lambda e: "ret %s" % self.cond(cnd, e))
    self.fresh += 1
    r = "r_%d" % self.fresh
    return "bind (dl_find_looms %s (fun %s =>\n%s)) (fun %s =>\nite (negb (is_null %s))\n(ret %s)\n(%s))" % (
        env[head[2]]["g"], g, bt, r, r, r, self.stmts(rest, env))


B.loom_walk = _loom_walk


def no_continue(n):
    if isinstance(n, dict):
        if n.get("kind") == "ContinueStmt":
            return {"kind": "ReturnStmt", "range": n.get("range", {}), "inner": [{"kind": "IntegerLiteral", "value": "0", "type": {"qualType": "int"}, "range": n.get("range", {})}]}
        return {k: no_continue(v) for k, v in n.items()}
    if isinstance(n, list):
        return [no_continue(x) for x in n]
    return n


def gen(work):
    cg = G.cg
    V.G = G
    EV.G = G
    MRK.G = G
    inc, ver = G.ovni_h_dir(work)
    rel = "src/emu/system.c"
    path = os.path.join(G.REPO, rel)
    if not os.path.exists(path):
        raise cg.Unsupported("UNSUPPORTED %s does not exist" % rel)
    tu = '#include "%s"\n' % path
    incs = G.incs(inc) + [os.path.dirname(path)]
    defs = []
    ctext = ""
    for (orel, fns) in OTHER:
        opath = os.path.join(G.REPO, orel)
        if not os.path.exists(opath):
            raise cg.Unsupported("UNSUPPORTED %s does not exist" % orel)
        otu = '#include "%s"\n' % opath
        for fn in fns:
            d = cg.clang_ast(otu, incs, fn, work)
            t = B(cg, orel, fn, None)
            t.last_file = opath
            defs.append(t.function_r(d, MRK.FUNCS[fn]))
            if t.consts:
                vals = cg.probe_consts(otu, incs, {"c_" + n: n for n in sorted(t.consts)}, work)
                ctext += "".join("Definition %s : Z := (%s).\n" % (k, vals[k]) for k in sorted(vals))
    for fn in OWN:
        d = cg.clang_ast(tu, incs, fn, work)
        t = B(cg, rel, fn, None)
        t.last_file = path
        defs.append(t.function_r(d, MRK.FUNCS[fn]))
    # system_get_lpt: NULL is a result here, not a refusal
    d = cg.clang_ast(tu, incs, "system_get_lpt", work)
    t = B(cg, rel, "system_get_lpt", None)
    t.last_file = path
    t.null_refusal = False
    defs.append(t.function_r(d, "ptr"))
    # the body of the loop of create_system as a function of one stream
    d = cg.clang_ast(tu, incs, "create_system", work)
    t = B(cg, rel, "create_system", None)
    t.last_file = path
    body = [c for c in d["inner"] if c["kind"] == "CompoundStmt"][0]
    loops = [x for x in t.flat([body]) if x.get("kind") == "ForStmt"]
    if len(loops) != 1:
        raise cg.Unsupported("UNSUPPORTED %s function create_system: expected one loop over the streams" % rel)
    init, _, cond, inc_, lbody = loops[0]["inner"]
    iv = init["inner"][0] if isinstance(init, dict) and init.get("kind") == "DeclStmt" else {}
    if iv.get("name") != "s" or t.norm(t.qt(iv)) != "struct stream *":
        raise cg.Unsupported("UNSUPPORTED %s function create_system: the loop must be `for (struct stream *s = trace->streams; s; s = s->next)`" % rel)
    sysp = [c for c in d["inner"] if c["kind"] == "ParmVarDecl" and c["name"] == "sys"]
    fake = {"kind": "FunctionDecl", "name": "stream_body", "type": {"qualType": "int (struct system *, struct stream *)"},
            "inner": sysp + [{"kind": "ParmVarDecl", "name": "s", "type": {"qualType": "struct stream *"}},
                             {"kind": "CompoundStmt", "inner": [no_continue(lbody), {"kind": "ReturnStmt", "inner": [{"kind": "IntegerLiteral", "value": "0", "type": {"qualType": "int"}}]}]}]}
    t.fn = "stream_body"
    defs.append(t.function_r(fake, "int"))
    # the for statement itself: exactly the walk over trace->streams, nothing after it but `return 0`
    vin = [x for x in iv.get("inner", []) if x.get("kind") != "FullComment"]
    i0 = t.strip(vin[0]) if vin else {}
    c0 = t.strip(cond) if isinstance(cond, dict) else {}
    n0 = t.strip(inc_["inner"][1]) if isinstance(inc_, dict) and inc_.get("kind") == "BinaryOperator" and inc_.get("opcode") == "=" else {}
    ok = i0.get("kind") == "MemberExpr" and i0.get("name") == "streams" and t.strip(i0["inner"][0]).get("referencedDecl", {}).get("name") == "trace" \
        and c0.get("kind") == "DeclRefExpr" and c0["referencedDecl"]["name"] == "s" \
        and isinstance(inc_, dict) and t.strip(inc_["inner"][0]).get("referencedDecl", {}).get("name") == "s" \
        and n0.get("kind") == "MemberExpr" and n0.get("name") == "next" and t.strip(n0["inner"][0]).get("referencedDecl", {}).get("name") == "s"
    top = t.flat([body])
    li = top.index(loops[0])
    after = top[li + 1:]
    ok = ok and len(after) == 1 and after[0].get("kind") == "ReturnStmt" and t.strip(after[0]["inner"][0]).get("kind") == "IntegerLiteral" \
        and t.strip(after[0]["inner"][0]).get("value") == "0"
    before = [x.get("kind") for x in top[:li]]
    ok = ok and before == ["BinaryOperator", "IfStmt", "DeclStmt"]
    if not ok:
        raise cg.Unsupported("UNSUPPORTED %s function create_system: expected `sys->lpt = calloc(..); if (..) {..} size_t i = 0; "
                             "for (struct stream *s = trace->streams; s; s = s->next) {..} return 0;`" % rel)
    defs.append("(* %s: create_system: for (struct stream *s = trace->streams; s; s = s->next) { stream_body } return 0; *)\n"
                "Definition create_system_loop (sys : ptr_sys) (trace : ptr_trace) : M Z :=\n"
                "  bind_ (for_streams trace (fun s =>\n      stream_body sys s))\n  (ret (0)).\n" % rel)
    text = (G.HEADER % "src/emu/loom.c loom_find_proc, loom_add_proc, loom_load_metadata; src/emu/proc.c proc_find_thread, proc_add_thread, proc_load_metadata; src/emu/system.c create_thread, create_proc, create_loom, the loop body of create_system (unit metabuild)") + \
        "From Coq Require Import ZArith List Bool.\n" \
        "From OV Require Import Base.CInt Emu.MetaDefs Emu.MetaBuildPre.\n" \
        "Import ListNotations.\nLocal Open Scope Z_scope.\n\n(* enum constants, evaluated by the compiler *)\n" + ctext + "\n" + "\n".join(defs)
    return {"MetaBuild_gen.v": text}
