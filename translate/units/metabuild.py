"""Translator unit `metabuild`: the builders of the emulator's system - src/emu/system.c create_thread, create_proc, create_loom and
the per-stream body of create_system's loop (emitted as `stream_body`); src/emu/loom.c loom_find_proc, loom_add_proc,
loom_load_metadata; src/emu/proc.c proc_find_thread, proc_add_thread, proc_load_metadata.

Emits coq/Gen/MetaBuild_gen.v over the hand-written prelude coq/Emu/MetaBuildPre.v.  The renderer is the one of unit markread
(class R, imported and SUBCLASSED, not edited; _stagec.py is not used; unit meta is not touched).  Additional forms:
  x = malloc(sizeof(struct T));             bind (calloc_T) (fun x => ..)      (a fresh pending object; *_init_begin memsets it)
  DL_APPEND(sys->looms, loom);              bind_ (dl_append_looms sys loom) ..
  HASH_FIND_INT(p->procs|threads, &k, out)  bind (hash_find_proc|thread p k) (fun out => ..)
  HASH_ADD_INT(p->procs|threads, pid|tid, x)  bind_ (hash_add_proc|thread p x) ..   (another key field is refused)
  return NULL;  in a pointer function       a refusal (fail E_FAIL): every caller turns NULL into its own error return
  if (f(..) != NULL) { refusal }            bind (f ..) (fun r => ite (negb (is_null r)) (fail ..) ..)
  if ((x = e) < k) { .. }                   x = e; if (x < k) { .. }
  proc_set_loom(p, l); thread_set_proc(t, p);   bind_ (..) ..
  struct lpt *lpt = &sys->lpt[i++];         bind (lpt_next sys) (fun lpt => ..)
  stream_data_set(s, lpt);                  bind_ (stream_data_set s lpt) ..
  continue;  (loop body of create_system)   ret 0    (the body is emitted as a function of one stream)
Primitives (prelude): the metadata gates and loaders unit meta translates (loom_name, proc_stream_get_pid, thread_stream_get_tid,
is_thread_stream, load_cpus, load_appid, load_rank, thread_load_metadata: their meaning on the stream's claims is
C15_stream_claims_from_source), find_loom, loom_init_begin, proc_init_begin, thread_init_begin, the accessors proc_get_pid /
proc_set_loom / thread_get_tid / thread_set_proc, the uthash / utlist macros, malloc.
`G` (translate/gen.py) is injected by the plug-in loader.
"""
import importlib.util
import os
import re

_spec = importlib.util.spec_from_file_location("ovni_verif_markread_for_metabuild", os.path.join(os.path.dirname(os.path.abspath(__file__)), "markread.py"))
MRK = importlib.util.module_from_spec(_spec)
_spec.loader.exec_module(MRK)
EV = MRK.EV
V = MRK.V

MRK.STATEFUL = {"system", "lpt", "loom", "proc"}
MRK.PURE = {"loom_name", "proc_stream_get_pid", "thread_stream_get_tid", "stream_metadata"}
MRK.FUNCS = {"find_loom": "ptr", "loom_init_begin": "int", "loom_load_metadata": "int", "loom_find_proc": "ptr", "proc_init_begin": "int",
             "loom_add_proc": "int", "proc_load_metadata": "int", "proc_find_thread": "ptr", "thread_init_begin": "int",
             "thread_load_metadata": "int", "proc_add_thread": "int", "is_thread_stream": "int", "proc_get_pid": "int", "thread_get_tid": "int", "load_appid": "int", "load_rank": "int", "load_cpus": "int",
             "create_thread": "ptr", "create_proc": "ptr", "create_loom": "ptr"}
MRK.RPTYPES = {"char *": "ptr_str", "struct system *": "ptr_sys", "struct stream *": "ptr_stream", "struct loom *": "ptr_loom",
               "struct proc *": "ptr_proc", "struct thread *": "ptr_thread", "struct lpt *": "ptr_lpt", "JSON_Object *": "ptr_jobj"}
OWN = ["create_thread", "create_proc", "create_loom"]
VOIDFUNCS = {"proc_set_loom", "thread_set_proc"}
OTHER = [("src/emu/loom.c", ["loom_find_proc", "loom_add_proc", "loom_load_metadata"]),
         ("src/emu/proc.c", ["proc_find_thread", "proc_add_thread", "proc_load_metadata"])]


class B(MRK.R):
    def ret_minus1(self, r):
        if getattr(self, "rkind", None) == "ptr" and self.is_nullc(r):
            return True
        return MRK.R.ret_minus1(self, r)

    def is_calloc(self, n, var):
        c = self.strip(n)
        if c.get("kind") == "CStyleCastExpr":
            c = self.strip(c["inner"][0])
        if c.get("kind") == "CallExpr" and self.callee(c) == "malloc" and len(c["inner"]) == 2:
            sz = self.strip(c["inner"][1])
            if sz.get("kind") == "UnaryExprOrTypeTraitExpr" and sz.get("name") == "sizeof":
                return True
            self.bad(n, "malloc must be `x = malloc(sizeof(struct T))`")
        return MRK.R.is_calloc(self, n, var)

    def hash_macro(self, s, rest, env):
        mt = self.macro_text(s)
        if mt is not None and mt[0] == "DL_APPEND":
            name, args = mt
            hm = re.match(r"^([A-Za-z_]\w*)\s*->\s*looms$", args[0].strip())
            if not hm or len(args) != 2:
                self.bad(s, "DL_APPEND must be DL_APPEND(sys->looms, loom)")
            base = self.ident(hm.group(1), env, s)
            obj = self.ident(args[1], env, s)
            return "bind_ (dl_append_looms %s %s)\n(%s)" % (env[base]["g"], env[obj]["g"], self.stmts(rest, env))
        if mt is not None and mt[0] in ("HASH_FIND_INT", "HASH_ADD_INT"):
            name, args = mt
            hm = re.match(r"^([A-Za-z_]\w*)\s*->\s*(procs|threads)$", args[0].strip())
            if not hm or len(args) != 3:
                self.bad(s, "hash head %r is not loom->procs / proc->threads" % args[0])
            base = self.ident(hm.group(1), env, s)
            tab = "proc" if hm.group(2) == "procs" else "thread"
            if name == "HASH_FIND_INT":
                kv = self.ident(args[1], env, s)
                ov = self.ident(args[2], env, s)
                g = self.gname(ov)
                env2 = dict(env)
                env2[ov] = dict(env[ov], kind="var", g=g)
                return "bind (hash_find_%s %s %s) (fun %s =>\n%s)" % (tab, env[base]["g"], env[kv]["g"], g, self.stmts(rest, env2))
            want = "pid" if tab == "proc" else "tid"
            if args[1].strip() != want:
                self.bad(s, "hash key field %r (expected %s)" % (args[1], want))
            ov = self.ident(args[2], env, s)
            return "bind_ (hash_add_%s %s %s)\n(%s)" % (tab, env[base]["g"], env[ov]["g"], self.stmts(rest, env))
        return MRK.R.hash_macro(self, s, rest, env)

    def stmts(self, ss, env):
        if ss:
            s, rest = ss[0], ss[1:]
            k = s.get("kind")
            if k == "DeclStmt" and len(s["inner"]) == 1 and s["inner"][0].get("kind") == "VarDecl" and self.norm(self.qt(s["inner"][0])) == "struct lpt *":
                v = s["inner"][0]
                inits = [c for c in v.get("inner", []) if c.get("kind") != "FullComment"]
                a = self.strip(inits[0]) if inits else {}
                ok = a.get("kind") == "UnaryOperator" and a.get("opcode") == "&"
                sub = self.strip(a["inner"][0]) if ok else {}
                ok = ok and sub.get("kind") == "ArraySubscriptExpr"
                if ok:
                    arr, idx = self.strip(sub["inner"][0]), self.strip(sub["inner"][1])
                    key = self.stateful_read(arr) if arr.get("kind") == "MemberExpr" else None
                    ok = key is not None and key[0] == "system" and key[1] == "lpt" and idx.get("kind") == "UnaryOperator" and idx.get("opcode") == "++" \
                        and idx.get("isPostfix") and self.strip(idx["inner"][0]).get("referencedDecl", {}).get("name") == "i"
                if not ok:
                    self.bad(s, "an lpt slot must be taken as `&sys->lpt[i++]`")
                g = self.gname(v["name"])
                env2 = dict(env)
                env2[v["name"]] = {"kind": "var", "g": g, "cty": "struct lpt *"}
                return "bind (lpt_next %s) (fun %s =>\n%s)" % (env[key[2]]["g"], g, self.stmts(rest, env2))
            if k == "IfStmt":
                c0 = self.strip(s["inner"][0])
                if c0.get("kind") == "BinaryOperator" and c0.get("opcode") in ("<", "!=", "==", ">", "<=", ">="):
                    a = self.strip(c0["inner"][0])
                    if a.get("kind") == "BinaryOperator" and a.get("opcode") == "=" and self.strip(a["inner"][0]).get("kind") == "DeclRefExpr":
                        c1 = dict(c0)
                        c1["inner"] = [a["inner"][0], c0["inner"][1]]
                        s1 = dict(s)
                        s1["inner"] = [c1] + list(s["inner"][1:])
                        return self.stmts([a, s1] + rest, env)
            if k == "IfStmt" and len(s["inner"]) == 2:
                c0 = self.strip(s["inner"][0])
                if c0.get("kind") == "BinaryOperator" and c0.get("opcode") == "!=" and self.strip(c0["inner"][0]).get("kind") == "CallExpr" \
                        and MRK.FUNCS.get(self.callee(self.strip(c0["inner"][0]))) == "ptr" and self.is_nullc(c0["inner"][1]) \
                        and self.terminal_fail(s["inner"][1]) is not None:
                    call = self.strip(c0["inner"][0])
                    self.fresh += 1
                    r = "r_%d" % self.fresh
                    return self.with_errno(list(call["inner"][1:]), env, lambda e: "bind %s (fun %s =>\nite (negb (is_null %s))\n(fail %s)\n(%s))" % (
                        self.mono_call(call, e), r, r, self.terminal_fail(s["inner"][1]), self.stmts(rest, env)))
            if k == "CallExpr" and self.callee(s) in VOIDFUNCS:
                return "bind_ (%s %s)\n(%s)" % (self.callee(s), " ".join(self.expr(self.strip(a), env) for a in s["inner"][1:]), self.stmts(rest, env))
            if k == "CallExpr" and self.callee(s) == "stream_data_set":
                return "bind_ (stream_data_set %s)\n(%s)" % (" ".join(self.expr(self.strip(a), env) for a in s["inner"][1:]), self.stmts(rest, env))
        return MRK.R.stmts(self, ss, env)


def no_continue(n):
    if isinstance(n, dict):
        if n.get("kind") == "ContinueStmt":
            return {"kind": "ReturnStmt", "range": n.get("range", {}), "inner": [{"kind": "IntegerLiteral", "value": "0", "type": {"qualType": "int"}, "range": n.get("range", {})}]}
        return {k: no_continue(v) for k, v in n.items()}
    if isinstance(n, list):
        return [no_continue(x) for x in n]
    return n


def gen(work):
    cg = G.cg
    V.G = G
    EV.G = G
    MRK.G = G
    inc, ver = G.ovni_h_dir(work)
    rel = "src/emu/system.c"
    path = os.path.join(G.REPO, rel)
    if not os.path.exists(path):
        raise cg.Unsupported("UNSUPPORTED %s does not exist" % rel)
    tu = '#include "%s"\n' % path
    incs = G.incs(inc) + [os.path.dirname(path)]
    defs = []
    for (orel, fns) in OTHER:
        opath = os.path.join(G.REPO, orel)
        if not os.path.exists(opath):
            raise cg.Unsupported("UNSUPPORTED %s does not exist" % orel)
        otu = '#include "%s"\n' % opath
        for fn in fns:
            d = cg.clang_ast(otu, incs, fn, work)
            t = B(cg, orel, fn, None)
            t.last_file = opath
            defs.append(t.function_r(d, MRK.FUNCS[fn]))
    for fn in OWN:
        d = cg.clang_ast(tu, incs, fn, work)
        t = B(cg, rel, fn, None)
        t.last_file = path
        defs.append(t.function_r(d, MRK.FUNCS[fn]))
    # the body of the loop of create_system as a function of one stream
    d = cg.clang_ast(tu, incs, "create_system", work)
    t = B(cg, rel, "create_system", None)
    t.last_file = path
    body = [c for c in d["inner"] if c["kind"] == "CompoundStmt"][0]
    loops = [x for x in t.flat([body]) if x.get("kind") == "ForStmt"]
    if len(loops) != 1:
        raise cg.Unsupported("UNSUPPORTED %s function create_system: expected one loop over the streams" % rel)
    init, _, cond, inc_, lbody = loops[0]["inner"]
    iv = init["inner"][0] if isinstance(init, dict) and init.get("kind") == "DeclStmt" else {}
    if iv.get("name") != "s" or t.norm(t.qt(iv)) != "struct stream *":
        raise cg.Unsupported("UNSUPPORTED %s function create_system: the loop must be `for (struct stream *s = trace->streams; s; s = s->next)`" % rel)
    sysp = [c for c in d["inner"] if c["kind"] == "ParmVarDecl" and c["name"] == "sys"]
    fake = {"kind": "FunctionDecl", "name": "stream_body", "type": {"qualType": "int (struct system *, struct stream *)"},
            "inner": sysp + [{"kind": "ParmVarDecl", "name": "s", "type": {"qualType": "struct stream *"}},
                             {"kind": "CompoundStmt", "inner": [no_continue(lbody), {"kind": "ReturnStmt", "inner": [{"kind": "IntegerLiteral", "value": "0", "type": {"qualType": "int"}}]}]}]}
    t.fn = "stream_body"
    defs.append(t.function_r(fake, "int"))
    text = (G.HEADER % "src/emu/loom.c loom_find_proc, loom_add_proc, loom_load_metadata; src/emu/proc.c proc_find_thread, proc_add_thread, proc_load_metadata; src/emu/system.c create_thread, create_proc, create_loom, the loop body of create_system (unit metabuild)") + \
        "From Coq Require Import ZArith List Bool.\n" \
        "From OV Require Import Base.CInt Emu.MetaDefs Emu.MetaBuildPre.\n" \
        "Import ListNotations.\nLocal Open Scope Z_scope.\n\n" + "\n".join(defs)
    return {"MetaBuild_gen.v": text}
