"""Translator unit `rtfs`: the file handling of the tracing runtime's relocation code, src/rt/ovni.c.

Emits coq/Gen/RtFs_gen.v: copy_thread_to_final, move_thdir_step, move_thdir_to_final, try_clean_dir, write_evbuf and
ovni_thread_free (the latter for its shape only: which relocation functions it calls, under which condition) as
SYNTAX TREES (Rt/RtFsPre.v `stmt` / `expr`), statement by statement and in C order, including their loops (while,
do/while), break / continue, assignments inside conditions, the comma operator and the short-circuit operators.  The
meaning of the trees is the interpreter of coq/Rt/RtFsPre.v; every libc call is a primitive of that interpreter which
appends the corresponding RtFsDefs.op to the log and takes its result from the environment (one injected fault).
This unit does NOT use the stage-C core (_stagec.py): those functions are loops around libc calls, which the core's
monadic rendering has no form for; it has its own small printer below.  Fails closed: any statement or expression kind
not listed raises Unsupported with file:line.
`G` (translate/gen.py) is injected by the plug-in loader.
"""
import os
import re

REL = "src/rt/ovni.c"
FUNCS = ["copy_thread_to_final", "move_thdir_step", "move_thdir_to_final", "try_clean_dir", "write_evbuf", "ovni_thread_free"]
PRIMS = {"fopen", "fread", "fwrite", "fclose", "ferror", "opendir", "readdir", "closedir", "remove", "rmdir",
         "strncmp", "strcmp", "strlen", "snprintf", "write",
         # called by ovni_thread_free; they have no meaning in the interpreter (a call is stuck): that function is only
         # translated for its shape (RtFsGenProofs.thread_free_relocates)
         "json_value_get_object", "json_object_dotset_number", "set_thread_rank", "set_thread_cpus", "thread_metadata_store", "free", "close"}
LOG = {"verr"}
DIE = {"vdie"}
GLOBALS = {"rthread", "rproc"}


class T:
    def __init__(self, cg, src):
        self.cg, self.src, self.fn = cg, src, None
        self.consts = {}

    def line(self, n):
        for key in ("range", "loc"):
            loc = n.get(key, {})
            loc = loc.get("begin", loc)
            for k in ("expansionLoc", "spellingLoc"):
                if k in loc:
                    loc = loc[k]
                    break
            if "offset" in loc:
                return self.src[:loc["offset"]].count("\n") + 1
        return "?"

    def bad(self, n, why):
        raise self.cg.Unsupported("UNSUPPORTED %s:%s function %s: %s %s" % (REL, self.line(n), self.fn, n.get("kind"), why))

    def strip(self, n):
        while n.get("kind") in ("ParenExpr", "ImplicitCastExpr", "ConstantExpr") or \
                (n.get("kind") == "CStyleCastExpr" and n.get("castKind") in ("NoOp", "IntegralCast", "BitCast", "NullToPointer", "ToVoid")):
            if n.get("kind") == "CStyleCastExpr" and n.get("castKind") == "NullToPointer":
                return {"kind": "NULL"}
            n = n["inner"][0]
        return n

    def callee(self, n):
        c = self.strip(n["inner"][0])
        if c.get("kind") != "DeclRefExpr":
            self.bad(n, "indirect call")
        return c["referencedDecl"]["name"]

    def q(self, s):
        return '"%s"' % s.replace('"', '""')

    def expr(self, n):
        n = self.strip(n)
        k = n.get("kind")
        if k == "NULL":
            return "ENull"
        if k == "IntegerLiteral":
            return "(ELit (%s))" % n["value"]
        if k == "StringLiteral":
            v = n["value"]
            if not (v.startswith('"') and v.endswith('"')) or "\\" in v:
                self.bad(n, "string literal with escapes")
            return "(EStr %s)" % self.q(v[1:-1])
        if k == "DeclRefExpr":
            rd = n["referencedDecl"]
            if rd["kind"] == "EnumConstantDecl":
                self.consts[rd["name"]] = None
                return "(ELit c_%s)" % rd["name"]
            if rd["kind"] in ("VarDecl", "ParmVarDecl"):
                return "(EVar %s)" % self.q(rd["name"])
            self.bad(n, "reference to a " + rd["kind"])
        if k == "MemberExpr":
            base = self.strip(n["inner"][0])
            if n.get("isArrow") and n["name"] == "d_name":
                return "(EPrim \"d_name\" [%s])" % self.expr(base)
            if not n.get("isArrow") and base.get("kind") == "DeclRefExpr" and base["referencedDecl"].get("kind") == "VarDecl" and \
                    base["referencedDecl"]["name"] in GLOBALS and n["name"]:
                return "(EVar %s)" % self.q(base["referencedDecl"]["name"] + "." + n["name"])
            self.bad(n, "member access")
        if k == "UnaryExprOrTypeTraitExpr" and n.get("name") == "sizeof":
            arg = (n.get("inner") or [None])[0]
            t = (arg or {}).get("type", {}).get("qualType", "") if arg else n.get("argType", {}).get("qualType", "")
            m = re.match(r"^char\s*\[(\d+)\]$", t.strip())
            if not m:
                self.bad(n, "sizeof of something that is not a char array")
            return "(ELit (%s))" % m.group(1)
        if k == "UnaryOperator":
            op = n["opcode"]
            a = n["inner"][0]
            if op == "!":
                return "(ENot %s)" % self.expr(a)
            if op == "-":
                x = self.strip(a)
                if x.get("kind") == "IntegerLiteral":
                    return "(ELit (-%s))" % x["value"]
            if op == "*":
                x = self.strip(a)
                if x.get("kind") == "CallExpr" and self.callee(x) == "__errno_location":
                    return "(EVar \"errno\")"
            self.bad(n, "unary operator " + op)
        if k in ("BinaryOperator", "CompoundAssignOperator"):
            op = n["opcode"]
            a, b = n["inner"]
            if op == "=":
                return "(EAssign %s %s)" % (self.lvalue(a), self.expr(b))
            if op in ("-=", "+="):
                lv = self.lvalue(a)
                return "(EAssign %s (EBin %s (EVar %s) %s))" % (lv, "OSub" if op == "-=" else "OAdd", lv, self.expr(b))
            if op == ",":
                return "(EComma %s %s)" % (self.expr(a), self.expr(b))
            if op == "&&":
                return "(EAnd %s %s)" % (self.expr(a), self.expr(b))
            if op == "||":
                return "(EOr %s %s)" % (self.expr(a), self.expr(b))
            tbl = {"==": "OEq", "!=": "ONe", "<": "OLt", "<=": "OLe", ">": "OGt", ">=": "OGe", "+": "OAdd", "-": "OSub"}
            if op in tbl:
                return "(EBin %s %s %s)" % (tbl[op], self.expr(a), self.expr(b))
            self.bad(n, "binary operator " + op)
        if k == "CallExpr":
            name = self.callee(n)
            args = [self.expr(a) for a in n["inner"][1:]]
            if name in PRIMS:
                return "(EPrim %s [%s])" % (self.q(name), "; ".join(args))
            if name in FUNCS:
                return "(ECall %s [%s])" % (self.q(name), "; ".join(args))
            self.bad(n, "call of " + name)
        self.bad(n, "expression")

    def lvalue(self, n):
        e = self.expr(n)
        m = re.match(r'^\(EVar ("[^"]*")\)$', e)
        if not m:
            self.bad(n, "assignment target")
        return m.group(1)

    def seq(self, ss):
        ss = [s for s in ss if s != "SSkip"]
        if not ss:
            return "SSkip"
        out = ss[-1]
        for s in reversed(ss[:-1]):
            out = "(SSeq %s\n%s)" % (s, out)
        return out

    def stmt(self, s):
        k = s.get("kind")
        if k == "CompoundStmt":
            return self.seq([self.stmt(x) for x in s.get("inner", [])])
        if k == "NullStmt":
            return "SSkip"
        if k == "DeclStmt":
            out = []
            for v in s["inner"]:
                if v.get("kind") != "VarDecl":
                    self.bad(v, "declaration")
                inits = [c for c in v.get("inner", []) if c.get("kind") != "FullComment"]
                out.append("(SDecl %s %s)" % (self.q(v["name"]), "(Some %s)" % self.expr(inits[0]) if inits else "None"))
            return self.seq(out)
        if k == "IfStmt":
            p = s["inner"]
            return "(SIf %s\n%s\n%s)" % (self.expr(p[0]), self.stmt(p[1]), self.stmt(p[2]) if len(p) > 2 else "SSkip")
        if k == "WhileStmt":
            c, b = s["inner"]
            return "(SWhile %s\n%s)" % (self.expr(c), self.stmt(b))
        if k == "DoStmt":
            b, c = s["inner"]
            return "(SDoWhile %s\n%s)" % (self.stmt(b), self.expr(c))
        if k == "ReturnStmt":
            r = (s.get("inner") or [None])[0]
            return "(SRet %s)" % ("(Some %s)" % self.expr(r) if r is not None else "None")
        if k == "BreakStmt":
            return "SBreak"
        if k == "ContinueStmt":
            return "SContinue"
        if k == "CallExpr":
            name = self.callee(s)
            if name in LOG or name in DIE:
                # the arguments of the logging call must be free of side effects
                self.pure(s)
                return "SErr" if name in LOG else "SDie"
        return "(SExpr %s)" % self.expr(s)

    def pure(self, n):
        k = n.get("kind")
        if k in ("BinaryOperator", "CompoundAssignOperator") and n.get("opcode", "").endswith("=") and n.get("opcode") not in ("==", "!=", "<=", ">="):
            self.bad(n, "side effect inside a logging call")
        if k == "UnaryOperator" and n.get("opcode") in ("++", "--"):
            self.bad(n, "side effect inside a logging call")
        if k == "CallExpr" and self.callee(n) not in LOG | DIE | {"__errno_location"}:
            self.bad(n, "call inside a logging call")
        for c in n.get("inner", []) or []:
            if isinstance(c, dict):
                self.pure(c)

    def function(self, d, fn):
        self.fn = fn
        params = [c["name"] for c in d["inner"] if c["kind"] == "ParmVarDecl"]
        body = [c for c in d["inner"] if c["kind"] == "CompoundStmt"][0]
        sig = d["type"]["qualType"].replace("*", "ptr")
        return "(* %s: %s %s *)\nDefinition f_%s : fn :=\n  {| f_params := [%s];\n     f_body :=\n%s |}.\n" % (
            REL, fn, sig, fn, "; ".join(self.q(p) for p in params), self.stmt(body))


def gen(work):
    cg = G.cg
    inc, ver = G.ovni_h_dir(work)
    path = os.path.join(G.REPO, REL)
    if not os.path.exists(path):
        raise cg.Unsupported("UNSUPPORTED %s does not exist" % REL)
    tu = '#include "%s"\n' % path
    incs = G.incs(inc) + [os.path.dirname(path)]
    t = T(cg, open(path, errors="replace").read())
    defs = []
    for fn in FUNCS:
        d = cg.clang_ast(tu, incs, fn, work)
        defs.append(t.function(d, fn))
    vals = cg.probe_consts(tu, incs, {"c_" + n: n for n in sorted(t.consts)}, work) if t.consts else {}
    ctext = "".join("Definition %s : Z := (%s).\n" % (k, vals[k]) for k in sorted(vals))
    table = "Definition fns : list (string * fn) :=\n  [%s].\n" % ";\n   ".join('("%s", f_%s)' % (f, f) for f in FUNCS)
    text = (G.HEADER % (REL + " (unit rtfs)")) + \
        "From Coq Require Import ZArith List String.\n" \
        "From OV Require Import Rt.RtFsPre.\n" \
        "Import ListNotations.\nLocal Open Scope Z_scope.\nLocal Open Scope string_scope.\n\n" \
        "(* enum constants, evaluated by the compiler *)\n" + ctext + "\n" + "\n".join(defs) + "\n" + table
    return {"RtFs_gen.v": text}
