"""Translator unit `markread`: the readers of the mark metadata in src/emu/ovni/mark.c - parse_number, find_label, add_label,
parse_labels, find_mark_type, create_mark_type, parse_mark, scan_thread.

Emits coq/Gen/MarkRead_gen.v over the hand-written prelude coq/Emu/MarkReadPre.v.  The renderer is the one of the units
vparse / evspec (classes T, E, W: imported and SUBCLASSED, not edited; _stagec.py is not used).  Everything outside the
subset raises Unsupported naming file:line (=> BROKEN-TIE).  Additional forms of this unit:
  uthash macros (recognised by the macro name and argument text at the expansion site)
      HASH_FIND(hh, p->labels, &k, sizeof k, out) / HASH_FIND_LONG(m->types, &k, out)   bind (hash_find_label p k | hash_find_type m k) (fun out => ..)
      HASH_ADD(hh, p->labels, key, sizeof .., obj) / HASH_ADD_LONG(m->types, key, obj)  bind_ (hash_add_label p obj | hash_add_type m obj) ..
  T *x;                                     an uninitialised pointer local (assigned before use)
  x = calloc(1, sizeof(*x));                bind (calloc_<struct>) (fun x => ..)
  x = f(args); / T *x = f(args);            bind (f args) (fun x => ..)        f one of the functions of this unit
  int n = snprintf(x->f, N, "%s", s);       bind (snprintf_<struct>_<f> x N s) (fun n => ..)
  x->f = e;                                 bind_ (set_<struct>_<f> x e) ..    (x a struct mark_type / mark_label / ovni_mark_emu)
  x->f  (in an expression)                  a state read: bind (rd_<struct>_<f> x) (fun f_k => ..)
  m->ntypes++;                              bind (rd_.._ntypes m) (fun n => bind_ (set_.._ntypes m (n + 1)) ..)
  for (size_t i = 0; i < n; i++) { S }      bind_ (for_count (0) n (fun i => S; ret tt)) ..   (S: refusals and effects)
  int64_t v; if (parse_number(s, &v) != 0) { refusal }     bind (parse_number s tt) (fun r => ite (r != 0) (fail ..) (bind get_out (fun v => ..)))
  *result = e;  (int64_t *result parameter)                bind_ (set_out e) ..
  if (c1) { x = K1; } else if (c2) { x = K2; } else { refusal }   bind (ite c1 (ret K1) (ite c2 (ret K2) (fail ..))) (fun x => ..)
  json_object_get_count / get_name / get_value_at / get_string / get_object / has_value / dotget_object,
  json_value_get_string / get_object, strcmp                          pure primitives <name>_c
  strtol / strtoll(s, &end, base)           bind (strtol_c s base) ..           (VParsePre's model)
`G` (translate/gen.py) is injected by the plug-in loader.
"""
import importlib.util
import os
import re

_spec = importlib.util.spec_from_file_location("ovni_verif_evspec_for_markread", os.path.join(os.path.dirname(os.path.abspath(__file__)), "evspec.py"))
EV = importlib.util.module_from_spec(_spec)
_spec.loader.exec_module(EV)
V = EV.V

STATEFUL = {"mark_type", "mark_label", "ovni_mark_emu"}
PURE = {"json_object_get_count", "json_object_get_name", "json_object_get_value_at", "json_value_get_string", "json_value_get_object",
        "json_object_get_string", "json_object_get_object", "json_object_has_value", "json_object_dotget_object", "strcmp"}
FUNCS = {"parse_number": "int", "find_label": "ptr", "add_label": "int", "parse_labels": "int", "find_mark_type": "ptr",
         "create_mark_type": "ptr", "parse_mark": "int", "scan_thread": "int"}
RPTYPES = {"char *": "ptr_str", "struct mark_type *": "ptr_mtype", "struct mark_label *": "ptr_mlabel", "struct ovni_mark_emu *": "ptr_memu",
           "JSON_Object *": "ptr_jobj", "JSON_Value *": "ptr_jval", "struct thread *": "ptr_thread"}


class R(EV.W):
    def norm(self, q):
        return re.sub(r"\s+", " ", re.sub(r"\bconst\b", "", q)).strip()

    # ------------------------------------------------------------ state reads
    def stateful_read(self, n):
        n0 = self.strip(n)
        if n0.get("kind") == "MemberExpr" and n0.get("isArrow") and n0.get("name"):
            m = re.match(r"^struct (\w+) \*$", self.norm(self.qt(n0["inner"][0])))
            b = self.strip(n0["inner"][0])
            if m and m.group(1) in STATEFUL and b.get("kind") == "DeclRefExpr":
                return (m.group(1), n0["name"], b["referencedDecl"]["name"])
        return None

    def reads_in(self, n, acc):
        k = self.stateful_read(n) if n.get("kind") in ("MemberExpr", "ImplicitCastExpr", "ParenExpr") else None
        if k is not None and n.get("kind") == "MemberExpr":
            if k not in acc:
                acc.append(k)
            return
        for c in n.get("inner", []) or []:
            if isinstance(c, dict):
                self.reads_in(c, acc)

    def with_errno(self, nodes, env, k):
        acc = []
        for x in nodes:
            self.reads_in(x, acc)
        acc = [a for a in acc if a not in env.get("__rd", {})]
        if acc:
            env2 = dict(env)
            env2["__rd"] = dict(env.get("__rd", {}))
            pre = []
            for (st, f, b) in acc:
                self.fresh += 1
                g = "%s_%d" % (f, self.fresh)
                env2["__rd"][(st, f, b)] = g
                pre.append("bind (rd_%s_%s %s) (fun %s =>\n" % (st, f, env[b]["g"], g))
            # the reads are valid for this statement only
            body = V.T.with_errno(self, nodes, env2, lambda e: k({kk: vv for kk, vv in e.items() if kk != "__rd"} if False else e))
            return "".join(pre) + body + ")" * len(pre)
        return V.T.with_errno(self, nodes, env, k)

    # ------------------------------------------------------------ expressions
    def expr(self, n, env):
        k = n.get("kind")
        if k == "MemberExpr":
            key = self.stateful_read(n)
            if key is not None:
                if key not in env.get("__rd", {}):
                    self.bad(n, "field of a table object read where the translator did not bind it")
                return env["__rd"][key]
        if k == "CallExpr" and self.callee(n) in PURE:
            return "(%s_c %s)" % (self.callee(n), " ".join(self.expr(a, env) for a in n["inner"][1:]))
        if k == "DeclRefExpr" and n.get("referencedDecl", {}).get("kind") == "EnumConstantDecl":
            self.consts[n["referencedDecl"]["name"]] = None
            return "c_%s" % n["referencedDecl"]["name"]
        if k == "BinaryOperator" and n.get("opcode") in ("+", "-"):
            t = self.ity(n)
            if t is not None and self.ity(n["inner"][0]) is not None and self.ity(n["inner"][1]) is not None:
                r = "(%s %s %s)" % ("Z.add" if n["opcode"] == "+" else "Z.sub", self.expr(n["inner"][0], env), self.expr(n["inner"][1], env))
                return "(cast_%s %s)" % (t, r)
        if self.is_nullc(n):
            q = self.norm(self.qt(n))
            if q in RPTYPES:
                return "(None : %s)" % RPTYPES[q]
        return EV.W.expr(self, n, env)

    def ity(self, n):
        return EV.E.ity(self, n)

    def is_errno(self, n):
        return V.T.is_errno(self, n)

    # ------------------------------------------------------------ macros
    def macro_text(self, s):
        b = s.get("range", {}).get("begin", {})
        e = b.get("expansionLoc")
        if not e or "offset" not in e:
            return None
        f = e.get("file") or self.last_file
        try:
            src = open(f, "rb").read().decode("latin1")
        except Exception:
            return None
        m = re.match(r"([A-Za-z_]\w*)\s*\(", src[e["offset"]:e["offset"] + 200])
        if not m:
            return None
        i = e["offset"] + m.end()
        depth, args, cur = 1, [], ""
        while i < len(src) and depth > 0:
            c = src[i]
            if c == "(":
                depth += 1
            elif c == ")":
                depth -= 1
                if depth == 0:
                    break
            if c == "," and depth == 1:
                args.append(cur.strip())
                cur = ""
            else:
                cur += c
            i += 1
        args.append(cur.strip())
        return m.group(1), args

    def ident(self, txt, env, node):
        txt = txt.strip()
        if txt.startswith("&"):
            txt = txt[1:].strip()
        if not re.match(r"^[A-Za-z_]\w*$", txt) or txt not in env or env[txt].get("kind") not in ("var", "uninitptr"):
            self.bad(node, "macro argument %r is not a local or a parameter" % txt)
        return txt

    def hash_macro(self, s, rest, env):
        mt = self.macro_text(s)
        if mt is None:
            return None
        name, args = mt
        if name in ("HASH_FIND", "HASH_FIND_LONG", "HASH_ADD", "HASH_ADD_LONG"):
            if name == "HASH_FIND":
                head, key, out = args[1], args[2], args[4]
            elif name == "HASH_FIND_LONG":
                head, key, out = args[0], args[1], args[2]
            elif name == "HASH_ADD":
                head, key, out = args[1], args[2], args[4]
            else:
                head, key, out = args[0], args[1], args[2]
            hm = re.match(r"^([A-Za-z_]\w*)\s*->\s*(labels|types)$", head.strip())
            if not hm:
                self.bad(s, "hash head %r is not p->labels / m->types" % head)
            base = self.ident(hm.group(1), env, s)
            tab = "label" if hm.group(2) == "labels" else "type"
            if name.startswith("HASH_FIND"):
                kv = self.ident(key, env, s)
                ov = self.ident(out, env, s)
                if env[kv]["g"] is None:
                    self.bad(s, "hash key read before it is assigned")
                g = self.gname(ov)
                env2 = dict(env)
                env2[ov] = dict(env[ov], kind="var", g=g)
                return "bind (hash_find_%s %s %s) (fun %s =>\n%s)" % (tab, env[base]["g"], env[kv]["g"], g, self.stmts(rest, env2))
            ov = self.ident(out, env, s)
            want = "value" if tab == "label" else "type"
            if key.strip() != want:
                self.bad(s, "hash key field %r (expected %s)" % (key, want))
            return "bind_ (hash_add_%s %s %s)\n(%s)" % (tab, env[base]["g"], env[ov]["g"], self.stmts(rest, env))
        return None

    # ------------------------------------------------------------ statements
    def mono_call(self, call, env):
        name = self.callee(call)
        return "(%s %s)" % (name, " ".join(self.expr(a, env) for a in call["inner"][1:]))

    def is_calloc(self, n, var):
        c = self.strip(n)
        if c.get("kind") == "CStyleCastExpr":
            c = self.strip(c["inner"][0])
        if c.get("kind") == "CallExpr" and self.callee(c) == "calloc" and len(c["inner"]) == 3:
            one = self.strip(c["inner"][1])
            sz = self.strip(c["inner"][2])
            ok = one.get("kind") == "IntegerLiteral" and one.get("value") == "1" and sz.get("kind") == "UnaryExprOrTypeTraitExpr" and sz.get("name") == "sizeof"
            if ok:
                inner = [x for x in self.walk(sz) if x.get("kind") == "DeclRefExpr"]
                if len(inner) == 1 and inner[0]["referencedDecl"]["name"] == var:
                    return True
            self.bad(n, "calloc must be `x = calloc(1, sizeof(*x))`")
        return False

    def snprintf_field(self, call, g, env, env2, rest):
        a = call["inner"][1:]
        d = self.strip(a[0]) if a else {}
        key = self.stateful_read(d) if d.get("kind") == "MemberExpr" else None
        # the destination is an array member: it decays, strip() stops at the MemberExpr
        if key is None or len(a) != 4 or self.strip(a[2]).get("kind") != "StringLiteral" or self.strip(a[2]).get("value") != '"%s"':
            self.bad(call, "snprintf must be `snprintf(x->field, N, \"%s\", s)` with x a table object")
        return self.with_errno([a[1], a[3]], env, lambda e: "bind (snprintf_%s_%s %s %s %s) (fun %s =>\n%s)" % (
            key[0], key[1], env[key[2]]["g"], self.expr(a[1], e), self.expr(a[3], e), g, self.stmts(rest, env2)))

    def assign_from(self, name, rhs, env, rest, node):
        """x = <monadic rhs> ; returns a term or None"""
        r = self.strip(rhs)
        g = self.gname(name)
        env2 = dict(env)
        env2[name] = dict(env[name], kind="var", g=g, const=None)
        if self.is_calloc(rhs, name):
            m = re.match(r"^struct (\w+) \*$", self.norm(env[name].get("cty", "")))
            if not m:
                self.bad(node, "calloc into a variable of type " + env[name].get("cty", "?"))
            return "bind (calloc_%s) (fun %s =>\n%s)" % (m.group(1), g, self.stmts(rest, env2))
        if r.get("kind") == "CallExpr" and self.callee(r) in FUNCS:
            return self.with_errno(list(r["inner"][1:]), env, lambda e: "bind %s (fun %s =>\n%s)" % (self.mono_call(r, e), g, self.stmts(rest, env2)))
        if r.get("kind") == "CallExpr" and self.callee(r) == "snprintf":
            return self.snprintf_field(r, g, env, env2, rest)
        if r.get("kind") == "CallExpr" and self.callee(r) in ("strtol", "strtoll"):
            return self.strtol(r, g, env, env2, rest)
        return None

    def stmts(self, ss, env):
        if not ss:
            return EV.W.stmts(self, ss, env)
        s, rest = ss[0], ss[1:]
        k = s.get("kind")
        if k == "DoStmt":
            t = self.hash_macro(s, rest, env)
            if t is not None:
                return t
        if k == "DeclStmt" and len(s["inner"]) == 1 and s["inner"][0].get("kind") == "VarDecl":
            v = s["inner"][0]
            q = self.norm(self.qt(v))
            inits = [c for c in v.get("inner", []) if c.get("kind") != "FullComment"]
            if not inits and (q in RPTYPES or self.ity(v) is not None):
                env2 = dict(env)
                env2[v["name"]] = {"kind": "uninitptr", "g": None, "cty": q}
                return self.stmts(rest, env2)
            if inits:
                env1 = dict(env)
                env1[v["name"]] = {"kind": "var", "g": None, "cty": q}
                t = self.assign_from(v["name"], inits[0], env1, rest, s)
                if t is not None:
                    return t
        if k == "BinaryOperator" and s.get("opcode") == "=":
            l = self.strip(s["inner"][0])
            if l.get("kind") == "DeclRefExpr" and env.get(l["referencedDecl"]["name"], {}).get("kind") in ("var", "uninitptr"):
                t = self.assign_from(l["referencedDecl"]["name"], s["inner"][1], env, rest, s)
                if t is not None:
                    return t
                if env[l["referencedDecl"]["name"]].get("kind") == "uninitptr":
                    nm = l["referencedDecl"]["name"]
                    g = self.gname(nm)
                    env2 = dict(env)
                    env2[nm] = dict(env[nm], kind="var", g=g)
                    return self.with_errno([s["inner"][1]], env, lambda e: "let %s := %s in\n%s" % (g, self.expr(s["inner"][1], e), self.stmts(rest, env2)))
            key = self.stateful_read(l) if l.get("kind") == "MemberExpr" else None
            if key is not None:
                rhs = s["inner"][1]
                return self.with_errno([rhs], env, lambda e: "bind_ (set_%s_%s %s %s)\n(%s)" % (key[0], key[1], env[key[2]]["g"], self.expr(rhs, e), self.stmts(rest, env)))
            if l.get("kind") == "UnaryOperator" and l.get("opcode") == "*":
                p = self.strip(l["inner"][0])
                if p.get("kind") == "DeclRefExpr" and env.get(p["referencedDecl"]["name"], {}).get("kind") == "outcell":
                    rhs = s["inner"][1]
                    return "bind_ (set_out %s)\n(%s)" % (self.expr(rhs, env), self.stmts(rest, env))
        if k == "UnaryOperator" and s.get("opcode") == "++":
            key = self.stateful_read(s["inner"][0])
            if key is not None:
                self.fresh += 1
                g = "%s_%d" % (key[1], self.fresh)
                b = env[key[2]]["g"]
                return "bind (rd_%s_%s %s) (fun %s =>\nbind_ (set_%s_%s %s (cast_int64 (Z.add %s (1))))\n(%s))" % (
                    key[0], key[1], b, g, key[0], key[1], b, g, self.stmts(rest, env))
        if k == "ForStmt":
            init, _, cond, inc, body = s["inner"]
            v = init["inner"][0] if isinstance(init, dict) and init.get("kind") == "DeclStmt" and len(init["inner"]) == 1 else {}
            c = self.strip(cond) if isinstance(cond, dict) else {}
            vin = [x for x in v.get("inner", []) if x.get("kind") != "FullComment"]
            ok = self.ity(v) is not None and vin and self.strip(vin[0]).get("kind") == "IntegerLiteral" and self.strip(vin[0]).get("value") == "0" and \
                c.get("kind") == "BinaryOperator" and c.get("opcode") == "<" and self.strip(c["inner"][0]).get("referencedDecl", {}).get("name") == v.get("name") and \
                isinstance(inc, dict) and inc.get("kind") == "UnaryOperator" and inc.get("opcode") == "++" and \
                self.strip(inc["inner"][0]).get("referencedDecl", {}).get("name") == v.get("name")
            bnd = self.strip(c["inner"][1]) if ok else {}
            if ok and bnd.get("kind") == "DeclRefExpr" and env.get(bnd["referencedDecl"]["name"], {}).get("kind") == "var":
                for x in self.walk(body):
                    if x.get("kind") in ("BreakStmt", "ContinueStmt", "GotoStmt", "ForStmt", "WhileStmt"):
                        self.bad(x, "inside a loop body")
                    if x.get("kind") == "ReturnStmt" and not (x.get("inner") and self.ret_minus1(x["inner"][0])):
                        self.bad(x, "a return other than `return -1` inside a loop body")
                    if x.get("kind") == "BinaryOperator" and x.get("opcode") == "=":
                        l = self.strip(x["inner"][0])
                        if l.get("kind") == "DeclRefExpr" and l["referencedDecl"]["name"] in env:
                            self.bad(x, "a loop body assigns a local declared outside it")
                gi = self.gname(v["name"])
                envb = dict(env)
                envb[v["name"]] = {"kind": "var", "g": gi, "cty": "size_t"}
                bt = self.stmts([body, {"kind": "__retunit"}], envb)
                return "bind_ (for_count (0) %s (fun %s =>\n%s))\n(%s)" % (self.expr(c["inner"][1], env), gi, bt, self.stmts(rest, env))
        if k == "IfStmt":
            parts = list(s["inner"])
            cond, then = parts[0], parts[1]
            els = parts[2] if len(parts) > 2 else None
            c0 = self.strip(cond)
            # if (parse_number(s, &v) != 0) { refusal }
            if c0.get("kind") == "BinaryOperator" and c0.get("opcode") == "!=" and self.strip(c0["inner"][0]).get("kind") == "CallExpr" \
                    and self.callee(self.strip(c0["inner"][0])) == "parse_number" and els is None and self.terminal_fail(then) is not None:
                call = self.strip(c0["inner"][0])
                o = self.strip(call["inner"][2])
                ov = self.strip(o["inner"][0]) if o.get("kind") == "UnaryOperator" and o.get("opcode") == "&" else {}
                nm = ov.get("referencedDecl", {}).get("name")
                if env.get(nm, {}).get("kind") != "uninitptr":
                    self.bad(s, "the output of parse_number must be `&v` with v an uninitialised local")
                g = self.gname(nm)
                env2 = dict(env)
                env2[nm] = dict(env[nm], kind="var", g=g)
                self.fresh += 1
                r = "r_%d" % self.fresh
                return "bind (parse_number %s tt) (fun %s =>\nite (negb (Z.eqb %s (0)))\n(fail %s)\n(bind get_out (fun %s =>\n%s)))" % (
                    self.expr(call["inner"][1], env), r, r, self.terminal_fail(then), g, self.stmts(rest, env2))
            # if (f(args) != 0) { refusal }   f a function of this unit
            if c0.get("kind") == "BinaryOperator" and c0.get("opcode") == "!=" and self.strip(c0["inner"][0]).get("kind") == "CallExpr" \
                    and self.callee(self.strip(c0["inner"][0])) in FUNCS and els is None and self.terminal_fail(then) is not None:
                call = self.strip(c0["inner"][0])
                self.fresh += 1
                r = "r_%d" % self.fresh
                return self.with_errno(list(call["inner"][1:]), env, lambda e: "bind %s (fun %s =>\nite (negb (Z.eqb %s (0)))\n(fail %s)\n(%s))" % (
                    self.mono_call(call, e), r, r, self.terminal_fail(then), self.stmts(rest, env)))
            # if (c1) { x = K1; } else if (c2) { x = K2; } else { refusal }
            chain = self.assign_chain(s, env)
            if chain is not None:
                nm, arms, failname = chain
                g = self.gname(nm)
                env2 = dict(env)
                env2[nm] = dict(env[nm], kind="var", g=g)

                def kk(e):
                    t = "fail %s" % failname
                    for cnd, val in reversed(arms):
                        t = "ite %s\n(ret %s)\n(%s)" % (self.cond(cnd, e), self.expr(val, e), t)
                    return "bind (%s) (fun %s =>\n%s)" % (t, g, self.stmts(rest, env2))
                return self.with_errno([c for c, _ in arms], env, kk)
            # if (c) { refusal } [else S]  with state reads in c
            tf = self.terminal_fail(then)
            if tf is not None:
                return self.with_errno([cond], env, lambda e: "ite %s\n(fail %s)\n(%s)" % (
                    self.cond(cond, e), tf, self.stmts(([els] if els is not None else []) + rest, env)))
            # every path of the then-branch returns: the rest belongs to the else side only
            if self.terminates_all(then):
                return self.with_errno([cond], env, lambda e: "ite %s\n(%s)\n(%s)" % (
                    self.cond(cond, e), self.stmts([then], env), self.stmts(([els] if els is not None else []) + rest, env)))
            # branches made of effects and refusals (no other return); at most one outer local assigned: it flows out
            a = []
            if self.effects_only(then, env, a) and (els is None or self.effects_only(els, env, a)):
                if len(a) > 1:
                    self.bad(s, "more than one local assigned in the branches of an if")
                if a:
                    nm = a[0]
                    g = self.gname(nm)
                    env2 = dict(env)
                    env2[nm] = dict(env[nm], kind="var", g=g, const=None)
                    tb = self.stmts([then, {"kind": "__retvar", "name": nm}], env)
                    eb = self.stmts(([els] if els is not None else []) + [{"kind": "__retvar", "name": nm}], env)
                    return self.with_errno([cond], env, lambda e: "bind (ite %s\n(%s)\n(%s)) (fun %s =>\n%s)" % (
                        self.cond(cond, e), tb, eb, g, self.stmts(rest, env2)))
                tb = self.stmts([then, {"kind": "__retunit"}], env)
                eb = self.stmts(([els] if els is not None else []) + [{"kind": "__retunit"}], env)
                return self.with_errno([cond], env, lambda e: "bind_ (ite %s\n(%s)\n(%s))\n(%s)" % (self.cond(cond, e), tb, eb, self.stmts(rest, env)))
            self.bad(s, "if statement outside the forms of this unit")
        if k == "ReturnStmt" and self.rkind == "ptr":
            r = (s.get("inner") or [None])[0]
            return self.with_errno([r], env, lambda e: "ret %s" % self.expr(r, e))
        return EV.W.stmts(self, ss, env)

    def terminates_all(self, s):
        fl = self.flat([s])
        if not fl:
            return False
        last = fl[-1]
        if last.get("kind") == "ReturnStmt":
            return True
        if last.get("kind") == "IfStmt" and len(last["inner"]) == 3:
            return self.terminates_all(last["inner"][1]) and self.terminates_all(last["inner"][2])
        return False

    def assign_chain(self, s, env):
        arms = []
        nm = None
        cur = s
        while True:
            parts = list(cur["inner"])
            th = self.flat([parts[1]])
            if len(th) != 1 or th[0].get("kind") != "BinaryOperator" or th[0].get("opcode") != "=":
                return None
            l = self.strip(th[0]["inner"][0])
            if l.get("kind") != "DeclRefExpr" or env.get(l["referencedDecl"]["name"], {}).get("kind") != "uninitptr":
                return None
            if nm is not None and nm != l["referencedDecl"]["name"]:
                return None
            nm = l["referencedDecl"]["name"]
            arms.append((parts[0], th[0]["inner"][1]))
            if len(parts) < 3:
                return None
            nxt = parts[2]
            if nxt.get("kind") == "IfStmt":
                cur = nxt
                continue
            tf = self.terminal_fail(nxt)
            if tf is None:
                return None
            return nm, arms, tf

    def function_r(self, d, rkind):
        self.rkind = rkind
        params = [c for c in d["inner"] if c["kind"] == "ParmVarDecl"]
        body = [c for c in d["inner"] if c["kind"] == "CompoundStmt"][0]
        env = {}
        plist = []
        for p in params:
            q = self.norm(self.qt(p))
            g = self.gname(p["name"])
            if q == "int64_t *":
                env[p["name"]] = {"kind": "outcell"}
                plist.append("(%s : unit)" % g)
            elif q in RPTYPES:
                env[p["name"]] = {"kind": "var", "g": g, "cty": q}
                plist.append("(%s : %s)" % (g, RPTYPES[q]))
            elif self.ity(p) is not None:
                env[p["name"]] = {"kind": "var", "g": g, "cty": q}
                plist.append("(%s : Z)" % g)
            else:
                raise self.cg.Unsupported("UNSUPPORTED %s function %s: parameter of type %s" % (self.relpath, self.fn, q))
        rett = self.norm(d["type"]["qualType"].split("(")[0])
        sig = d["type"]["qualType"].replace("*", "ptr")
        term = self.stmts([body], env)
        gt = "Z" if rkind == "int" else RPTYPES.get(rett)
        if gt is None:
            raise self.cg.Unsupported("UNSUPPORTED %s function %s: returns %s" % (self.relpath, self.fn, rett))
        return "(* %s: %s %s *)\nDefinition %s %s : M %s :=\n%s.\n" % (self.relpath, self.fn, sig, self.fn, " ".join(plist), gt, V.indent(term))


def gen(work):
    cg = G.cg
    V.G = G
    EV.G = G
    inc, ver = G.ovni_h_dir(work)
    rel = "src/emu/ovni/mark.c"
    path = os.path.join(G.REPO, rel)
    if not os.path.exists(path):
        raise cg.Unsupported("UNSUPPORTED %s does not exist" % rel)
    tu = '#include "%s"\n' % path
    incs = G.incs(inc) + [os.path.dirname(path), os.path.join(G.REPO, "src", "emu")]
    defs = []
    consts = {}
    for fn in ("parse_number", "find_label", "add_label", "parse_labels", "find_mark_type", "create_mark_type", "parse_mark", "scan_thread"):
        d = cg.clang_ast(tu, incs, fn, work)
        t = R(cg, rel, fn, None)
        t.last_file = path
        defs.append(t.function_r(d, FUNCS[fn]))
        consts.update(t.consts)
    ctext = ""
    if consts:
        vals = cg.probe_consts(tu, incs, {"c_" + n: n for n in sorted(consts)}, work)
        ctext = "".join("Definition %s : Z := (%s).\n" % (k, vals[k]) for k in sorted(vals))
    text = (G.HEADER % "src/emu/ovni/mark.c parse_number, find_label, add_label, parse_labels, find_mark_type, create_mark_type, parse_mark, scan_thread (unit markread)") + \
        "From Coq Require Import ZArith List Bool.\n" \
        "From OV Require Import Base.CInt Emu.MarkReadPre.\n" \
        "Import ListNotations.\nLocal Open Scope Z_scope.\n\n" \
        "(* enum constants, evaluated by the compiler *)\n" + ctext + "\n" + "\n".join(defs)
    return {"MarkRead_gen.v": text}
