"""Translator unit `pvw`: the Paraver WRITER PRIMITIVES of src/emu/pv/pcf.c, prf.c and prv.c.

Emits coq/Gen/PvW_gen.v (three modules Pcf, Prf, Prv: `write_header` exists in pcf.c and in prv.c), statement by
statement and in C order, with the stage-C translator core (_stagec.py, imported UNCHANGED), over the hand-written prelude
coq/Emu/PvWPre.v:

  pv/pcf.c  pcf_find_type, pcf_add_type, pcf_find_value, pcf_add_value, write_header, write_type, write_types, pcf_close
  pv/prf.c  prf_open, prf_add, prf_close
  pv/prv.c  write_header, prv_open_file, get_id, find_prv_chan, write_line, prv_register
(prv.c's is_value_dup / emit / check_flags belong to unit prv, prv_advance / prv_close to unit emuloop: not repeated.)

Primitives (hand-written in PvWPre.v, they stand for untranslated C):
  uthash                HASH_FIND_INT / HASH_FIND / HASH_FIND_LONG = first entry with that key of an insertion-ordered list,
                        HASH_ADD_INT / HASH_ADD / HASH_ADD_LONG = append (uthash iterates in insertion order);
  calloc                a fresh zeroed object (calloc_<struct>; `p->f = calloc(n, sizeof(T))` = calloc_into_<struct>_<f>);
                        memset(p, 0, sizeof ..) = zero_<struct>; fopen(path, "w") = fopen_into_<struct>_<f> (a new empty file)
  snprintf(d, N, "%s", s)   copies s, truncated to N-1 characters, into the label d and returns the length of s
  fprintf               the format string is parsed HERE into items (literal text, %s, %d/%ld/%lld with the flags '-' / '0'
                        and a width) and rendered by PvWPre.render with PvDefs' dec / pad_left / pad_right / dec_pad0;
                        any other conversion is refused
  fclose, bay_add_cb, write_colors (pcf.c: it passes three `&local` out-parameters to decompose_rgb inside a counting loop
                        - outside the subset; = PvDefs.colors_lines), check_flags (= Gen/Prv_gen.v, unit prv), value_null
  pcf_def_header, pcf_palette, pcf_palette_len   the constants of Gen/Pv_gen.v (unit pv: dumped from the source)

Additions of this unit to the subset of the core (wrappers around GT.e_val / GT.stmts, fail-closed like the core):
  1. the uthash macros above (DoStmt with the macro's name and argument texts): find binds its output variable;
  2. `x = calloc(1, sizeof(struct T))`, `p->f = calloc(n, sizeof(struct T))`, `p->f = fopen(path, "w")`, memset-zero;
  3. `int n = snprintf(p->label, N, "%s", s);` = `bind (snprintf_s (addr_<struct>_label p) N s) (fun n => ..)`;
  4. `fprintf(f, "literal format", args..)` = `fprintf (fun sx st => f) (fun sx st => [items])`;
  5. loops, as PRIMITIVE FOLDS WITH TRANSLATED BODIES (the core's one loop form is a pure fold over DL_FOREACH2):
       for (struct T *v = E; v != NULL; v = v->hh.next) BODY      ->  for_hh_<T> (fun sx st => E) (fun v => BODY')
       for (long i = 0; i < BOUND; i++) BODY                      ->  for_range (fun sx st => BOUND) (fun i => BODY')
     BODY may contain declarations, `if`, fprintf, calls of translated procedures and (in an int-status function)
     `return -1` (= fail, leaves the function); no store, no break/continue, no assignment to the loop variable;
  6. `if (ALLOC(args) == NULL) { log; return -1; }` (bay_add_cb) = bind the result, then the NULL test;
  7. a function used as a value = the constant fn_<name>; conversions to `void *` = void_of_<ptr type>; NULL carries
     its pointer type; the globals listed above = constants of Pv_gen;
  8. call statements are parenthesised (the core emits `bind_ bind (eval ..) ..` for state-dependent arguments).
"""
import importlib.util
import os
import re

_spec = importlib.util.spec_from_file_location("ovni_verif_stagec_pvw", os.path.join(os.path.dirname(os.path.abspath(__file__)), "_stagec.py"))
S = importlib.util.module_from_spec(_spec)
_spec.loader.exec_module(S)

FILES = [
    ("Pcf", "src/emu/pv/pcf.c", [("pcf_find_type", "alloc"), ("pcf_add_type", "alloc"), ("pcf_find_value", "alloc"),
                                ("pcf_add_value", "alloc"), ("write_header", "proc"), ("write_type", "proc"),
                                ("write_types", "proc"), ("pcf_close", "action")]),
    ("Prf", "src/emu/pv/prf.c", [("prf_open", "action"), ("prf_add", "action"), ("prf_close", "action")]),
    ("Prv", "src/emu/pv/prv.c", [("write_header", "proc"), ("prv_open_file", "action"), ("get_id", "value"),
                                ("find_prv_chan", "alloc"), ("write_line", "proc"), ("prv_register", "action")]),
]
if os.environ.get("PVW_FUNCS"):
    _keep = set(os.environ["PVW_FUNCS"].split(","))
    FILES = [(m, rel, [f for f in fns if f[0] in _keep]) for m, rel, fns in FILES]

HASH_FIND = {"HASH_FIND_INT": (0, 1, 2), "HASH_FIND_LONG": (0, 1, 2), "HASH_FIND": (1, 2, 4)}     # head, &key, out
HASH_ADD = {"HASH_ADD_INT": (0, 1, 2), "HASH_ADD_LONG": (0, 1, 2), "HASH_ADD": (1, 2, 4)}        # head, keyfield, added
GLOBAL_CONSTS = {"pcf_def_header": "Pv_gen.pcf_def_header", "pcf_palette": "Pv_gen.pcf_palette",
                 "pcf_palette_len": "(Z.of_nat (length Pv_gen.pcf_palette))"}
ALLOC_IN_COND = {"bay_add_cb"}

_orig_e_val = S.GT.e_val
_orig_stmts = S.GT.stmts


def _e_val(self, n, env):
    k = n.get("kind")
    if k in ("ImplicitCastExpr", "CStyleCastExpr", "ParenExpr") and self.cg._is_null(n):
        q = S._norm_ptr(S._qt(n))
        if q in S.PTR:
            return S.Val("(None : %s)" % S.PTR[q][0])
    if k in ("ImplicitCastExpr", "CStyleCastExpr"):
        ck = n.get("castKind")
        inner = n["inner"][0]
        if ck == "BitCast" and S._norm_ptr(S._qt(n)) == "void *" and S._norm_ptr(S._qt(inner)) in S.PTR:
            a = self.e_val(inner, env)
            return S.Val("(void_of_%s %s)" % (S.PTR[S._norm_ptr(S._qt(inner))][0], a.t), a.safe, a.dep)
        if ck == "FunctionToPointerDecay" and inner.get("kind") == "DeclRefExpr" and inner.get("referencedDecl", {}).get("kind") == "FunctionDecl":
            return S.Val("fn_%s" % inner["referencedDecl"]["name"])
    if k == "DeclRefExpr" and n.get("referencedDecl", {}).get("kind") == "VarDecl":
        nm = n["referencedDecl"]["name"]
        if nm not in env and nm in GLOBAL_CONSTS:
            return S.Val(GLOBAL_CONSTS[nm])
    return _orig_e_val(self, n, env)


def _unescape(self, node):
    v = node.get("value", "")
    if not (v.startswith('"') and v.endswith('"')):
        self.bad(node, "string literal")
    out, i, s = [], 0, v[1:-1]
    while i < len(s):
        c = s[i]
        if c == "\\":
            i += 1
            m = {"n": 10, "\\": 92, '"': 34, "t": 9}
            if i >= len(s) or s[i] not in m:
                self.bad(node, "escape sequence in a string literal")
            out.append(m[s[i]])
        else:
            if ord(c) > 126:
                self.bad(node, "non-ASCII string literal")
            out.append(ord(c))
        i += 1
    return out


def _literal(self, a):
    a = S._strip(a)
    while a.get("kind") in ("ImplicitCastExpr", "ParenExpr"):
        a = a["inner"][0]
    if a.get("kind") != "StringLiteral":
        return None
    return _unescape(self, a)


def _fmt_items(self, s, fmt, args, env):
    """printf format -> Gallina list of PvWPre.fitem; (term, safe)"""
    items, lit, i, ai, safe = [], [], 0, 0, None

    def flush():
        if lit:
            items.append("F_lit [%s]" % "; ".join(str(b) for b in lit))
            del lit[:]
    while i < len(fmt):
        c = fmt[i]
        if c != 37:
            lit.append(c)
            i += 1
            continue
        m = re.match(r"%(-?)(0?)(\d*)(l{0,2})([dis])", bytes(fmt[i:i + 12]).decode("latin1"))
        if not m:
            self.bad(s, "printf conversion outside the subset (s, [-|0][width][l|ll]d): " + repr(bytes(fmt)))
        if ai >= len(args):
            self.bad(s, "printf: too few arguments")
        a = args[ai]
        ai += 1
        v = self.e_val(a, env)
        safe = S.s_and(safe, v.safe)
        flush()
        left, zero, width, ln, conv = m.groups()
        if conv == "s":
            if left or zero or width or ln:
                self.bad(s, "printf %s with flags")
            if S._norm_ptr(S._qt(a)) != "char *":
                self.bad(s, "printf %%s of a %s" % S._qt(a))
            items.append("F_str %s" % v.t)
        else:
            want = {"": ("int32",), "l": ("int64",), "ll": ("int64",)}[ln]
            if self.ity(a) not in want and not (ln == "" and self.ity(a) in ("uint8", "int8", "int16", "uint16")):
                self.bad(s, "printf %%%sd of a %s" % (ln, S._qt(a)))
            if left and zero:
                self.bad(s, "printf flags -0")
            fl = "FL" if left else ("FZ" if zero else "FR")
            items.append("F_dec %s %s%%nat %s" % (fl, width or "0", v.t))
        i += len(m.group(0))
    flush()
    if ai != len(args):
        self.bad(s, "printf: too many arguments")
    return "[%s]" % "; ".join(items), safe


def _macro_parts(self, s):
    name, args = self.macro_of(s)
    return name, args


def _local(self, s, name, env, need_init=True):
    if name not in env or (need_init and not env[name]["init"]):
        self.bad(s, "macro argument %s is not an initialised local/parameter" % name)
    return env[name]


def _has_store(self, n, loopvar):
    k = n.get("kind")
    if k in ("BinaryOperator", "CompoundAssignOperator") and n.get("opcode", "").endswith("=") and n.get("opcode") not in ("==", "!=", "<=", ">="):
        t = S._strip(n["inner"][0])
        if t.get("kind") != "DeclRefExpr" or t["referencedDecl"]["name"] == loopvar:
            self.bad(n, "store inside a loop body")
    if k == "UnaryOperator" and n.get("opcode") in ("++", "--"):
        self.bad(n, "++/-- inside a loop body")
    if k in ("BreakStmt", "ContinueStmt", "GotoStmt", "ForStmt", "WhileStmt", "DoStmt"):
        if k == "DoStmt":
            return
        self.bad(n, "%s inside a loop body" % k)
    for c in n.get("inner", []) or []:
        if isinstance(c, dict):
            _has_store(self, c, loopvar)


def _loop(self, s, rest, env, kind):
    parts = s["inner"]
    if len(parts) != 5:
        self.bad(s, "for statement")
    init, condvar, cond, inc, body = parts
    if condvar or init.get("kind") != "DeclStmt" or len(init.get("inner", [])) != 1 or init["inner"][0].get("kind") != "VarDecl":
        self.bad(s, "for statement without `T v = e` initialisation")
    v = init["inner"][0]
    vname, g = v["name"], self.gname(v["name"])
    inits = [c for c in v.get("inner", []) if c.get("kind") not in ("FullComment",)]
    if len(inits) != 1 or vname in env:
        self.bad(s, "for statement: loop variable")
    _has_store(self, body, vname)
    env_b = dict(env)
    env_b[vname] = {"g": g, "cty": S._qt(v), "init": True, "nonnull": True}
    q = S._norm_ptr(S._qt(v))
    c = cond
    while c.get("kind") in ("ParenExpr", "ImplicitCastExpr"):
        c = c["inner"][0]
    old = getattr(self, "_loop_ret", None)
    self._loop_ret = kind
    try:
        if q in S.PTR:
            # for (struct T *v = E; v != NULL; v = v->hh.next)
            st = S._struct_of(q)
            ok = (c.get("kind") == "BinaryOperator" and c.get("opcode") == "!=" and _local_name(c["inner"][0]) == vname and self.cg._is_null(c["inner"][1])) \
                or (c.get("kind") == "DeclRefExpr" and c["referencedDecl"]["name"] == vname)
            i_ = inc
            ok2 = i_.get("kind") == "BinaryOperator" and i_.get("opcode") == "=" and _local_name(i_["inner"][0]) == vname
            if ok2:
                r = S._strip(i_["inner"][1])
                while r.get("kind") in ("ImplicitCastExpr", "CStyleCastExpr"):
                    r = S._strip(r["inner"][0])
                root, chain = self.chain_of(r)
                ok2 = root.get("kind") == "DeclRefExpr" and root["referencedDecl"]["name"] == vname and [x[0] for x in chain] == ["hh", "next"]
            if not ok or not ok2:
                self.bad(s, "pointer loop that is not `for (T *v = e; v != NULL; v = v->hh.next)`")
            e = self.e_val(inits[0], env)
            bt = self.stmts([body], env_b, "proc")
            term = "bind_ (for_hh_%s %s (fun %s =>\n%s))\n(%s)" % (st, self.fn_of_state(e.t), g, bt, self.stmts(rest, env, kind))
            return self.needed(e.safe, term)
        if self.ity(v) in ("int32", "int64"):
            # for (long i = 0; i < BOUND; i++)
            if _int_lit(inits[0]) != 0:
                self.bad(s, "counting loop not starting at 0")
            ok = c.get("kind") == "BinaryOperator" and c.get("opcode") == "<" and _local_name(c["inner"][0]) == vname
            ok2 = inc.get("kind") == "UnaryOperator" and inc.get("opcode") == "++" and _local_name(inc["inner"][0]) == vname
            if not ok or not ok2:
                self.bad(s, "counting loop that is not `for (T i = 0; i < bound; i++)`")
            b = self.e_val(c["inner"][1], env)
            bt = self.stmts([body], env_b, "proc")
            term = "bind_ (for_range %s (fun %s =>\n%s))\n(%s)" % (self.fn_of_state(b.t), g, bt, self.stmts(rest, env, kind))
            return self.needed(b.safe, term)
    finally:
        self._loop_ret = old
    self.bad(s, "for statement outside the two loop forms")


def _local_name(n):
    t = S._strip(n)
    if t.get("kind") == "DeclRefExpr" and t.get("referencedDecl", {}).get("kind") in ("VarDecl", "ParmVarDecl"):
        return t["referencedDecl"]["name"]
    return None


def _int_lit(n):
    n = S._strip(n)
    while n.get("kind") == "ImplicitCastExpr" and n.get("castKind") == "IntegralCast":
        n = S._strip(n["inner"][0])
    return int(n["value"]) if n.get("kind") == "IntegerLiteral" else None


def _call_of(n, name):
    c = S._strip(n)
    while c.get("kind") in ("ImplicitCastExpr", "CStyleCastExpr", "ParenExpr"):
        c = c["inner"][0]
    if c.get("kind") == "CallExpr" and S._callee(c) == name:
        return c
    return None


def _sizeof_struct(self, n):
    n = S._strip(n)
    while n.get("kind") in ("ImplicitCastExpr", "ParenExpr"):
        n = n["inner"][0]
    if n.get("kind") != "UnaryExprOrTypeTraitExpr" or n.get("name") != "sizeof":
        return None
    q = n.get("argType", {}).get("qualType") or S._qt(n["inner"][0])
    q = S._norm_struct(q)
    m = re.match(r"^struct (\w+)$", q)
    return m.group(1) if m else None


def _snprintf(self, s, call, env):
    a = call["inner"][1:]
    if len(a) != 4 or _literal(self, a[2]) != [37, 115]:
        self.bad(s, 'snprintf that is not snprintf(dst, N, "%s", src)')
    d = S._strip(a[0])
    if d.get("kind") != "MemberExpr":
        self.bad(s, "snprintf destination is not p->label")
    var, st, fields, safe = self.own_fields(d, env)
    n_, src = self.e_val(a[1], env), self.e_val(a[3], env)
    if n_.dep or src.dep or n_.safe or src.safe:
        self.bad(s, "snprintf with state-dependent arguments")
    return "(snprintf_s (addr_%s_%s %s) %s %s)" % (st, "_".join(fields), var["g"], n_.t, src.t)


def _stmts(self, ss, env, kind):
    self.cur_env_names = set(env)
    if not ss:
        return _orig_stmts(self, ss, env, kind)
    s, rest = ss[0], ss[1:]
    k = s.get("kind")
    if k == "ForStmt":
        return _loop(self, s, rest, env, kind)
    if k == "ReturnStmt" and getattr(self, "_loop_ret", None) is not None and kind == "proc":
        r = (s.get("inner") or [None])[0]
        if self._loop_ret == "action" and r is not None and self.ret_const(r) == -1:
            return "fail E_FAIL"
        self.bad(s, "return inside a loop body (only `return -1` of an int-status function)")
    # 1. uthash
    if k == "DoStmt":
        name, args = self.macro_of(s)
        if name in HASH_FIND:
            hi, ki, oi = HASH_FIND[name]
            if len(args) <= max(hi, ki, oi):
                self.bad(s, "macro %s arguments" % name)
            m = re.match(r"^(\w+)\s*->\s*(\w+)$", args[hi])
            mk = re.match(r"^&\s*(\w+)$", args[ki])
            if not m or not mk or not re.match(r"^\w+$", args[oi]):
                self.bad(s, "macro %s arguments are not p->head, &key, out" % name)
            p, key = _local(self, s, m.group(1), env), _local(self, s, mk.group(1), env)
            out = _local(self, s, args[oi], env, need_init=False)
            st = S._struct_of(p["cty"])
            if st is None or self.cg.INT_TYPES.get(re.sub(r"\bconst\b", "", key["cty"]).strip()) is None:
                self.bad(s, "macro %s: head is not a field of a struct pointer / key is not an integer" % name)
            env2 = dict(env)
            env2[args[oi]] = dict(out, init=True)
            return "bind (hash_find_%s_%s %s %s) (fun %s =>\n%s)" % (st, m.group(2), p["g"], key["g"], out["g"], self.stmts(rest, env2, kind))
        if name in HASH_ADD:
            hi, ki, ai = HASH_ADD[name]
            if len(args) <= max(hi, ki, ai):
                self.bad(s, "macro %s arguments" % name)
            m = re.match(r"^(\w+)\s*->\s*(\w+)$", args[hi])
            if not m or not re.match(r"^\w+$", args[ki]) or not re.match(r"^\w+$", args[ai]):
                self.bad(s, "macro %s arguments are not p->head, keyfield, added" % name)
            p, add = _local(self, s, m.group(1), env), _local(self, s, args[ai], env)
            st = S._struct_of(p["cty"])
            if st is None:
                self.bad(s, "macro %s: head is not a field of a struct pointer" % name)
            return "bind_ (hash_add_%s_%s_by_%s %s %s)\n(%s)" % (st, m.group(2), args[ki], p["g"], add["g"], self.stmts(rest, env, kind))
    # 3. int n = snprintf(...)
    if k == "DeclStmt" and len(s.get("inner", [])) == 1 and s["inner"][0].get("kind") == "VarDecl":
        v = s["inner"][0]
        inits = [c for c in v.get("inner", []) if c.get("kind") not in ("FullComment",)]
        call = _call_of(inits[0], "snprintf") if inits else None
        if call is not None:
            if self.ity(v) != "int32":
                self.bad(s, "snprintf result type")
            env2 = dict(env)
            g = self.gname(v["name"])
            env2[v["name"]] = {"g": g, "cty": S._qt(v), "init": True}
            return "bind %s (fun %s =>\n%s)" % (_snprintf(self, s, call, env), g, self.stmts(rest, env2, kind))
    # 2. allocation forms
    if k == "BinaryOperator" and s.get("opcode") == "=":
        tgt, rhs = s["inner"]
        t = S._strip(tgt)
        call = _call_of(rhs, "calloc")
        if call is not None:
            n_, sz = call["inner"][1], call["inner"][2]
            stn = _sizeof_struct(self, sz)
            if stn is None:
                self.bad(s, "calloc of something that is not sizeof(struct T)")
            if _local_name(tgt) is not None:
                name = _local_name(tgt)
                if _int_lit(n_) != 1 or name not in env or S._struct_of(env[name]["cty"]) != stn:
                    self.bad(s, "calloc into a local that is not `x = calloc(1, sizeof(*x))`")
                env2 = dict(env)
                env2[name] = dict(env[name], init=True)
                return "bind calloc_%s (fun %s =>\n%s)" % (stn, env[name]["g"], self.stmts(rest, env2, kind))
            if t.get("kind") == "MemberExpr":
                var, st, fields, safe = self.own_fields(t, env)
                if S._struct_of(S._qt(t)) != stn:
                    self.bad(s, "calloc of another type than the field's")
                cnt = self.e_val(n_, env)
                return self.needed(cnt.safe, "bind_ (calloc_into_%s_%s %s %s)\n(%s)" % (
                    st, "_".join(fields), var["g"], self.fn_of_state(cnt.t), self.stmts(rest, env, kind)))
            self.bad(s, "calloc target")
        call = _call_of(rhs, "fopen")
        if call is not None and t.get("kind") == "MemberExpr":
            if _literal(self, call["inner"][2]) != [119]:
                self.bad(s, 'fopen mode is not "w"')
            var, st, fields, safe = self.own_fields(t, env)
            path = self.e_val(call["inner"][1], env)
            if path.dep or path.safe:
                self.bad(s, "fopen path")
            return "bind_ (fopen_into_%s_%s %s %s)\n(%s)" % (st, "_".join(fields), var["g"], path.t, self.stmts(rest, env, kind))
    if k == "CallExpr":
        name = S._callee(s)
        if name == "memset":
            a = s["inner"][1:]
            p = S._strip(a[0])
            while p.get("kind") in ("ImplicitCastExpr",):
                p = S._strip(p["inner"][0])
            pn = _local_name(p)
            stn = _sizeof_struct(self, a[2])
            if pn is None or pn not in env or _int_lit(a[1]) != 0 or stn is None or S._struct_of(env[pn]["cty"]) != stn:
                self.bad(s, "memset that is not memset(p, 0, sizeof(*p))")
            return "bind_ (zero_%s %s)\n(%s)" % (stn, env[pn]["g"], self.stmts(rest, env, kind))
        if name == "fprintf":
            a = s["inner"][1:]
            fmt = _literal(self, a[1]) if len(a) >= 2 else None
            if fmt is None:
                self.bad(s, "fprintf without a literal format")
            f = self.e_val(a[0], env)
            items, safe = _fmt_items(self, s, fmt, a[2:], env)
            return self.needed(S.s_and(f.safe, safe), "bind_ (fprintf %s %s)\n(%s)" % (
                self.fn_of_state(f.t), self.fn_of_state(items), self.stmts(rest, env, kind)))
        if name in S.PRIM_PROC or self.kinds.get(name) == "proc":
            args = [self.e_val(a, env) for a in s["inner"][1:]]
            call = self.bind_args(args, lambda ts: "(%s %s)" % (name, " ".join(ts)) if ts else name)
            return "bind_ (%s)\n(%s)" % (call, self.stmts(rest, env, kind))
    # 6. if (ALLOC(..) == NULL) { log; return -1; }
    if k == "IfStmt" and len(s["inner"]) == 2:
        c = s["inner"][0]
        while c.get("kind") == "ParenExpr":
            c = c["inner"][0]
        if c.get("kind") == "BinaryOperator" and c.get("opcode") == "==" and self.cg._is_null(c["inner"][1]):
            call = S._strip(c["inner"][0])
            if call.get("kind") == "CallExpr" and S._callee(call) in ALLOC_IN_COND:
                if not self.is_fail_block(s["inner"][1], kind):
                    self.bad(s, "a failing allocation must be followed by { log; return -1; } only")
                return "bind %s (fun r_ =>\nite (fun sx st => is_null r_)\n(fail E_FAIL)\n(%s))" % (
                    self.call_alloc(call, env), self.stmts(rest, env, kind))
    return _orig_stmts(self, ss, env, kind)


def gen(work):
    S.G = G
    S.GT.e_val = _e_val
    S.GT.stmts = _stmts
    S.SX_T, S.ST_T = "wenv", "wstate"
    S.PTR = {
        "struct pcf *": ("ptr_pcf", False),
        "struct pcf_type *": ("ptr_pcf_type", True),
        "struct pcf_value *": ("ptr_pcf_value", True),
        "struct prf *": ("ptr_prf", False),
        "struct prf_row *": ("ptr_prf_row", True),
        "struct prv *": ("ptr_prv", False),
        "struct prv_chan *": ("ptr_prv_chan", True),
        "struct bay *": ("ptr_bay", False),
        "struct bay_cb *": ("ptr_bay_cb", True),
        "struct chan *": ("ptr_chan", False),
        "FILE *": ("ptr_file", True),
        "char *": ("str", False),
        "void *": ("ptr_void", False),
    }
    S.STRUCTS = {"struct value": "cvalue"}
    S.NONNULL_LINK = set()
    S.PRIM_ACTION = {"check_flags"}
    S.PRIM_VALUE = {"value_null"}
    S.PRIM_ALLOC = {"bay_add_cb"}
    S.PRIM_PROC = {"fclose", "write_colors"}
    S.OUT_ACTION = {}
    S.BYREF_READ = set()
    S.INDIRECT_CALLS = {}
    S.MACRO_PRIM = set()
    S.MACRO_IGNORED = {"dbg"}
    mods = []
    consts = {}
    for mod, rel, fns in FILES:
        if not fns:
            continue
        ctext, defs = S.translate_files(work, [(rel, fns)])
        for line in ctext.splitlines():
            m = re.match(r"Definition (\w+) : Z := \((-?\d+)\)\.", line)
            if m:
                if consts.get(m.group(1), m.group(2)) != m.group(2):
                    raise G.cg.Unsupported("UNSUPPORTED constant %s has two values" % m.group(1))
                consts[m.group(1)] = m.group(2)
        mods.append("Module %s.\n\n%s\nEnd %s.\n" % (mod, "\n".join(defs), mod))
    ctext = "".join("Definition %s : Z := (%s).\n" % (k, consts[k]) for k in sorted(consts))
    text = (G.HEADER % "src/emu/pv/pcf.c, prf.c, prv.c (unit pvw)") + \
        "From Coq Require Import ZArith List Bool.\n" \
        "From OV Require Import Base.CInt Emu.MarkDefs Emu.PvWPre.\n" \
        "From OV Require Gen.Pv_gen.\n" \
        "Import ListNotations.\nLocal Open Scope Z_scope.\n\n" \
        "(* enum constants, evaluated by the compiler *)\n" + ctext + "\n" + "\n".join(mods)
    return {"PvW_gen.v": text}
