"""Translator unit `meta`: the emulator-side metadata gates, from the C source.

Emits coq/Gen/Meta_gen.v with the stage-C translator core (_stagec.py, imported UNCHANGED), over the hand-written
prelude coq/Emu/MetaPre.v (one stream / one struct proc / one struct thread as state; parson's look-up API with the
meaning coq/Rt/RtMetaDefs.v gives the object model):

  value functions (side-effect free, `f sx st args`):
    stream.c   check_version
    system.c   is_thread_stream
    loom.c     loom_name
    proc.c     proc_stream_get_pid
    thread.c   thread_stream_get_tid
    model.c    should_enable
    loom.c     load_cpus_entry   <- the BODY of the `for` loop of load_cpus up to the look-up of the CPU (see below)
  int-status functions (`M unit`, return -1 = fail E_FAIL):
    proc.c     load_appid, load_rank
    thread.c   thread_load_metadata

Additions of this unit to the subset of the core (wrappers around GT.gtype / GT.e_val / GT.e_bool / GT.vstmts, fail-closed
like the core; the core file is not edited):
  1. string literals: `(str_lit [bytes])` (a `const char *`), refused when the literal contains an escape sequence;
  2. `double` (parson numbers): Gallina type `double` (= Z in MetaPre.v: integral numbers, the domain of RtMetaDefs);
     comparisons of doubles, the implicit conversion int -> double `(double_of_int e)` and the cast
     `(int) d` = `(int_of_double d)`;
  3. in value functions: a logging call (`err(...)` = verr) or an ignored macro (`dbg`) as a statement is dropped after
     checking that its arguments have no side effect (the core does this in int-status functions only);
  4. should_enable: `int want[3]; if (version_parse(req_version, want) != 0) { log; return -1; }` is rendered
     `match version_parse_c sx st req_version with None => -1 | Some want => rest end` (exact shape or refused);
  5. load_cpus: the `for (size_t i = 0; i < ncpus; i++) { ... }` loop is NOT translated as a loop.  Its body is cut at
     `struct cpu *cpu = loom_find_cpu(loom, phyid);` and the statements before that (the JSON reads of one entry and
     the `index < 0` refusal) are translated as the value function `load_cpus_entry cpuarray i` whose result is the
     entry the rest of the body works on: `entry_err` / `entry_ok index phyid` (the core has no loops, no `continue`,
     no calloc: the find-or-insert half of the body stays the hand model Emu/MetaDefs.add_cpu, tied by C15's
     in-process correspondence).  The prefix of load_cpus before the loop (array look-up, empty array) is translated
     as the value function `load_cpus_head meta` with the loop statement replaced by `return 1` (= "iterate").
Not translated, with the construct that stops the core:
  - stream.c load_json: json_parse_file_with_comments (file I/O) and a pointer-returning function with failure paths
    that call an int-status function inside the condition and return NULL;
  - system.c report_libovni_version: a `for` loop over the thread list with running locals (version/commit/mixed);
  - system.c create_loom/create_proc/create_thread/create_system: loops, malloc, list search and insertion;
  - loom.c loom_init_begin (strchr on the name), proc.c proc_init_end: memset/snprintf, not metadata look-ups.
`G` (translate/gen.py) is injected by the plug-in loader.
"""
import copy
import importlib.util
import os
import re

_spec = importlib.util.spec_from_file_location("ovni_verif_stagec_meta", os.path.join(os.path.dirname(os.path.abspath(__file__)), "_stagec.py"))
S = importlib.util.module_from_spec(_spec)
_spec.loader.exec_module(S)

UNITS = [
    ("src/emu/stream.c", [("check_version", "value")]),
    ("src/emu/system.c", [("is_thread_stream", "value")]),
    ("src/emu/loom.c", [("loom_name", "value")]),
    ("src/emu/proc.c", [("proc_stream_get_pid", "value"), ("load_appid", "action"), ("load_rank", "action")]),
    ("src/emu/thread.c", [("thread_stream_get_tid", "value"), ("thread_load_metadata", "action")]),
    ("src/emu/model.c", [("should_enable", "value")]),
]


def _is_double(n):
    return re.sub(r"\bconst\b", "", S._qt(n)).strip() == "double"


_orig_gtype = S.GT.gtype


def _gtype(self, node):
    if _is_double(node):
        return "double"
    return _orig_gtype(self, node)


_orig_e_val = S.GT.e_val


def _e_val(self, n, env):
    k = n.get("kind")
    if k == "StringLiteral":
        v = n.get("value", "")
        if len(v) < 2 or v[0] != '"' or v[-1] != '"' or "\\" in v or any(ord(c) > 126 or ord(c) < 32 for c in v):
            self.bad(n, "string literal with an escape sequence or a prefix")
        return S.Val("(str_lit [%s])" % "; ".join(str(ord(c)) for c in v[1:-1]))
    if k in ("ImplicitCastExpr", "CStyleCastExpr"):
        ck = n.get("castKind")
        inner = n["inner"][0]
        if ck == "FloatingToIntegral":
            if not _is_double(inner) or self.ity(n) != "int32":
                self.bad(n, "conversion %s -> %s" % (S._qt(inner), S._qt(n)))
            a = self.e_val(inner, env)
            return S.Val("(int_of_double %s)" % a.t, a.safe, a.dep)
        if ck == "IntegralToFloating":
            if not _is_double(n) or self.ity(inner) is None:
                self.bad(n, "conversion %s -> %s" % (S._qt(inner), S._qt(n)))
            a = self.e_val(inner, env)
            return S.Val("(double_of_int %s)" % a.t, a.safe, a.dep)
    return _orig_e_val(self, n, env)


_orig_e_bool = S.GT.e_bool


def _e_bool(self, n, env):
    if n.get("kind") == "BinaryOperator" and n.get("opcode") in ("==", "!=", "<", ">", "<=", ">="):
        a, b = n["inner"]
        if _is_double(a) and _is_double(b):
            x, y = self.e_val(a, env), self.e_val(b, env)
            op = n["opcode"]
            tbl = {"==": "double_eqb", "<": "double_ltb", ">": "double_gtb", "<=": "double_leb", ">=": "double_geb"}
            r = "(negb (double_eqb %s %s))" % (x.t, y.t) if op == "!=" else "(%s %s %s)" % (tbl[op], x.t, y.t)
            return S.Val(r, S.s_and(x.safe, y.safe), x.dep or y.dep)
    return _orig_e_bool(self, n, env)


_orig_vstmts = S.GT.vstmts


def _vstmts(self, ss, env):
    if ss:
        s = ss[0]
        k = s.get("kind")
        if k == "CallExpr" and S._callee(s) in S.LOG_CALLS:
            self.pure_tree(s)
            return self.vstmts(ss[1:], env)
        if k == "DoStmt":
            name, args = self.macro_of(s)
            if name in S.MACRO_IGNORED:
                self.pure_tree(s)
                return self.vstmts(ss[1:], env)
        # int want[3]; if (version_parse(req_version, want) != 0) { log; return -1; }
        if k == "DeclStmt" and len(s["inner"]) == 1 and s["inner"][0].get("kind") == "VarDecl" and S._qt(s["inner"][0]) == "int[3]" \
                and not [c for c in s["inner"][0].get("inner", []) if c.get("kind") != "FullComment"]:
            arr = s["inner"][0]["name"]
            if len(ss) < 2 or ss[1].get("kind") != "IfStmt" or len(ss[1]["inner"]) != 2:
                self.bad(s, "an int[3] local must be filled by `if (version_parse(str, arr) != 0) { log; return -1; }` at once")
            cond, then = ss[1]["inner"]
            c = cond
            while c.get("kind") == "ParenExpr":
                c = c["inner"][0]
            ok = c.get("kind") == "BinaryOperator" and c.get("opcode") == "!=" and self.ret_const(c["inner"][1]) == 0
            call = S._strip(c["inner"][0]) if ok else None
            if not ok or call.get("kind") != "CallExpr" or S._callee(call) != "version_parse" or len(call["inner"]) != 3:
                self.bad(ss[1], "an int[3] local must be filled by `if (version_parse(str, arr) != 0) { log; return -1; }` at once")
            out = S._strip(call["inner"][2])
            if out.get("kind") != "DeclRefExpr" or out["referencedDecl"]["name"] != arr:
                self.bad(ss[1], "version_parse does not fill the int[3] local declared just before")
            fv, fs = self.vstmts([then], env)
            if not self.terminates(then):
                self.bad(then, "the failure branch of version_parse must return")
            a = self.e_val(call["inner"][1], env)
            g = self.gname(arr)
            env2 = dict(env)
            env2[arr] = {"g": g, "cty": "int[3]", "init": True}
            rv, rs = self.vstmts(ss[2:], env2)
            val = "match version_parse_c sx st %s with\n| None => (%s)\n| Some %s => (%s)\nend" % (a.t, fv, g, rv)
            safe = "match version_parse_c sx st %s with\n| None => (%s)\n| Some %s => (%s)\nend" % (a.t, fs, g, rs)
            if a.safe is not None:
                safe = "andb %s (%s)" % (a.safe, safe)
            return val, safe
    return _orig_vstmts(self, ss, env)


_orig_clang_ast = None


def _cut_load_cpus(fn_node, which):
    """load_cpus -> the AST of a synthetic function (see the module docstring, item 5)"""
    d = copy.deepcopy(fn_node)
    body = [c for c in d["inner"] if c["kind"] == "CompoundStmt"][0]
    stm = body["inner"]
    fors = [i for i, s in enumerate(stm) if s["kind"] == "ForStmt"]
    if len(fors) != 1 or fors[0] != len(stm) - 2 or stm[-1]["kind"] != "ReturnStmt":
        raise G.cg.Unsupported("UNSUPPORTED src/emu/loom.c function load_cpus: expected `<prefix>; for (...) {...} return 0;`")
    loop = stm[fors[0]]
    one = {"kind": "IntegerLiteral", "value": "1", "type": {"qualType": "int"}, "range": loop.get("range", {})}
    if which == "head":
        body["inner"] = stm[:fors[0]] + [{"kind": "ReturnStmt", "inner": [one], "range": loop.get("range", {})}]
        return d
    # the loop header must be: for (size_t i = 0; i < ncpus; i++)
    parts = loop["inner"]
    init, cond, inc, lbody = parts[0], parts[2], parts[3], parts[4]

    def txt_ok():
        if init.get("kind") != "DeclStmt" or len(init["inner"]) != 1 or init["inner"][0]["name"] != "i" or S._qt(init["inner"][0]) != "size_t":
            return False
        c = cond
        if c.get("kind") != "BinaryOperator" or c.get("opcode") != "<":
            return False
        l, r = S._strip(c["inner"][0]), S._strip(c["inner"][1])
        if l.get("referencedDecl", {}).get("name") != "i" or r.get("referencedDecl", {}).get("name") != "ncpus":
            return False
        if inc.get("kind") != "UnaryOperator" or inc.get("opcode") != "++" or S._strip(inc["inner"][0]).get("referencedDecl", {}).get("name") != "i":
            return False
        return lbody.get("kind") == "CompoundStmt"
    if not txt_ok():
        raise G.cg.Unsupported("UNSUPPORTED src/emu/loom.c function load_cpus: the loop is not `for (size_t i = 0; i < ncpus; i++) { ... }`")
    ls = lbody["inner"]
    cut = [j for j, s in enumerate(ls) if s["kind"] == "DeclStmt" and s["inner"][0].get("name") == "cpu"]
    if len(cut) != 1:
        raise G.cg.Unsupported("UNSUPPORTED src/emu/loom.c function load_cpus: `struct cpu *cpu = loom_find_cpu(loom, phyid);` not found in the loop body")
    decl = ls[cut[0]]["inner"][0]
    call = S._strip([c for c in decl.get("inner", []) if c.get("kind") != "FullComment"][0])
    if call.get("kind") != "CallExpr" or S._callee(call) != "loom_find_cpu" or \
            [S._strip(a).get("referencedDecl", {}).get("name") for a in call["inner"][1:]] != ["loom", "phyid"]:
        raise G.cg.Unsupported("UNSUPPORTED src/emu/loom.c function load_cpus: the cut statement is not `cpu = loom_find_cpu(loom, phyid)`")
    # the entry handed to the rest of the body: entry_ok(index, phyid)
    rng = ls[cut[0]].get("range", {})
    mk = {"kind": "CallExpr", "type": {"qualType": "int"}, "range": rng, "inner": [
        {"kind": "ImplicitCastExpr", "castKind": "FunctionToPointerDecay", "type": {"qualType": "int (*)(int, int)"}, "range": rng,
         "inner": [{"kind": "DeclRefExpr", "type": {"qualType": "int (int, int)"}, "range": rng, "referencedDecl": {"kind": "FunctionDecl", "name": "entry_ok"}}]},
        _ref_local(ls[:cut[0]], "index", rng),
        _ref_local(ls[:cut[0]], "phyid", rng)]}
    mk["type"] = {"qualType": "struct cpu_entry"}
    pre = ls[:cut[0]]

    def fix_returns(x):
        """`return -1;` inside the cut part -> `return entry_err();`"""
        if isinstance(x, dict):
            if x.get("kind") == "ReturnStmt":
                r = (x.get("inner") or [None])[0]
                c = r
                while c is not None and c.get("kind") in ("ParenExpr", "ImplicitCastExpr"):
                    c = c["inner"][0]
                if not (c is not None and c.get("kind") == "UnaryOperator" and c.get("opcode") == "-" and
                        c["inner"][0].get("kind") == "IntegerLiteral" and c["inner"][0].get("value") == "1"):
                    raise G.cg.Unsupported("UNSUPPORTED src/emu/loom.c function load_cpus: a return other than `return -1` before the CPU look-up")
                x["inner"] = [{"kind": "CallExpr", "type": {"qualType": "struct cpu_entry"}, "range": x.get("range", {}), "inner": [
                    {"kind": "ImplicitCastExpr", "castKind": "FunctionToPointerDecay", "type": {"qualType": "struct cpu_entry (*)(void)"}, "range": x.get("range", {}),
                     "inner": [{"kind": "DeclRefExpr", "type": {"qualType": "struct cpu_entry (void)"}, "range": x.get("range", {}),
                                "referencedDecl": {"kind": "FunctionDecl", "name": "entry_err"}}]}]}]
                return
            if x.get("kind") in ("ContinueStmt", "BreakStmt", "ForStmt", "WhileStmt", "GotoStmt"):
                raise G.cg.Unsupported("UNSUPPORTED src/emu/loom.c function load_cpus: %s before the CPU look-up" % x.get("kind"))
            for c in x.get("inner", []) or []:
                fix_returns(c)
    for x in pre:
        fix_returns(x)
    body["inner"] = pre + [{"kind": "ReturnStmt", "inner": [mk], "range": rng}]
    d["type"] = {"qualType": "struct cpu_entry (JSON_Array *, size_t)"}
    # parameters: (JSON_Array *cpuarray, size_t i)
    arr_decl = [s["inner"][0] for s in stm[:fors[0]] if s["kind"] == "DeclStmt" and s["inner"][0].get("name") == "cpuarray"]
    if len(arr_decl) != 1:
        raise G.cg.Unsupported("UNSUPPORTED src/emu/loom.c function load_cpus: local cpuarray not found")
    params = [{"kind": "ParmVarDecl", "name": "cpuarray", "type": arr_decl[0]["type"], "range": rng},
              {"kind": "ParmVarDecl", "name": "i", "type": init["inner"][0]["type"], "range": rng}]
    d["inner"] = params + [body]
    return d


def _ref_local(stmts, name, rng):
    for s in stmts:
        if s["kind"] == "DeclStmt":
            for v in s["inner"]:
                if v.get("name") == name and S._qt(v) == "int":
                    return {"kind": "ImplicitCastExpr", "castKind": "LValueToRValue", "type": {"qualType": "int"}, "range": rng,
                            "inner": [{"kind": "DeclRefExpr", "type": {"qualType": "int"}, "range": rng,
                                       "referencedDecl": {"kind": "VarDecl", "name": name, "type": {"qualType": "int"}}}]}
    raise G.cg.Unsupported("UNSUPPORTED src/emu/loom.c function load_cpus: local int %s not declared before the CPU look-up" % name)


def gen(work):
    S.G = G
    S.GT.gtype = _gtype
    S.GT.e_val = _e_val
    S.GT.e_bool = _e_bool
    S.GT.vstmts = _vstmts
    S.SX_T, S.ST_T = "menv", "mstate"
    S.PTR = {
        "struct stream *": ("ptr_stream", False),
        "struct proc *": ("ptr_proc", False),
        "struct thread *": ("ptr_thread", False),
        "struct loom *": ("ptr_loom", False),
        "struct model_spec *": ("ptr_spec", False),
        "JSON_Object *": ("ptr_jobj", True),
        "JSON_Value *": ("ptr_jval", True),
        "JSON_Array *": ("ptr_jarr", True),
        "char *": ("ptr_str", True),
        "int *": ("arr_int", False),
    }
    S.STRUCTS = {"struct cpu_entry": "cpu_entry"}
    S.NONNULL_LINK = set()
    S.PRIM_ACTION = set()
    S.PRIM_VALUE = {"stream_metadata", "json_object_get_value", "json_object_dotget_value", "json_number", "json_object_dotget_number",
                    "json_object_dotget_string", "json_object_dotget_object", "json_object_get_string", "json_object_dotget_array",
                    "json_array_get_count", "json_array_get_object", "json_object_get_number", "strcmp", "version_is_compatible", "entry_ok", "entry_err"}
    S.PRIM_ALLOC = set()
    S.PRIM_PROC = set()
    S.OUT_ACTION = {}
    S.BYREF_READ = set()
    S.INDIRECT_CALLS = {}
    S.MACRO_PRIM = set()
    ctext, defs = S.translate_files(work, UNITS)
    # load_cpus: two synthetic functions cut out of its AST (docstring item 5)
    cg = G.cg
    orig = cg.clang_ast

    def patched(tu_text, incs, fn, work_):
        if fn in ("load_cpus_head", "load_cpus_entry"):
            return _cut_load_cpus(orig(tu_text, incs, "load_cpus", work_), "head" if fn == "load_cpus_head" else "entry")
        return orig(tu_text, incs, fn, work_)
    cg.clang_ast = patched
    try:
        ctext2, defs2 = S.translate_files(work, [("src/emu/loom.c", [("load_cpus_head", "value"), ("load_cpus_entry", "value")])])
    finally:
        cg.clang_ast = orig
    text = (G.HEADER % "src/emu/stream.c, system.c, loom.c, proc.c, thread.c, model.c (unit meta)") + \
        "From Coq Require Import ZArith List Bool.\n" \
        "From OV Require Import Base.CInt Emu.MetaPre.\n" \
        "Import ListNotations.\nLocal Open Scope Z_scope.\n\n" \
        "(* enum constants, evaluated by the compiler *)\n" + ctext + ctext2 + "\n" + "\n".join(defs + defs2)
    return {"Meta_gen.v": text}
