"""Translator unit `evspec`: ovnidump's renderer - src/emu/ev_spec.c advance_out, print_arg (-> Gen/EvSpec_gen.v), advance_in,
parse_printf_format, parse_arg_name, ev_spec_find_arg, format_region, ev_spec_print (-> Gen/EvSpecWalk_gen.v) and src/emu/model.c
model_event_print (-> Gen/EvSpecModel_gen.v); the classes W, P, F, Mdl further down document the forms each part adds.

First part: advance_out and print_arg.

Emits coq/Gen/EvSpec_gen.v over the hand-written prelude coq/Tools/EvSpecPre.v.  The renderer is the one of the unit
vparse (translate/units/vparse.py, class T, imported and SUBCLASSED here, not edited; _stagec.py is not used), extended
with what print_arg needs.  Everything outside the subset raises Unsupported naming file:line (=> BROKEN-TIE).

Additions of this unit:
  enum constants                         c_<NAME> (value probed with the compiler, emitted as a Definition)
  e1 + e2, e1 - e2 on size_t / int       (cast_uint64 (Z.add ..)) / Z arithmetic with the C wrap of the result type
  (T *) p between byte pointers          the same pointer (uint8_t * / char * / the payload union are one type ptr_u8)
  &p[i]                                  (u8_index p i)
  memchr(p, ch, n)                       (memchr_c p ch n)
  c->len  (struct cursor *c)             a state read: bind (get_cursor_len c) (fun len_k => ...)
  c->out += n;  c->len -= n;             bind_ (add_cursor_out c n) .. / bind (get_cursor_len c) (fun l => set_cursor_len c (l - n))
  T data; memcpy(&data, p, sizeof(data)) bind (load_<T> p) (fun data => ...)     T one of u/int8..64_t (E_OOB outside the payload)
  n = snprintf(c->out, size, fmt, x)     bind (snprintf_c c size fmt (AInt <bits of the promoted type> x | AStr x)) (fun n => ...)   (also as an initialiser)
  advance_out(c, n);                     bind_ (advance_out c n) ..                 (advance_out is generated too)
  do { S } while (0)                     S
  if (c) { S }   (S: refusals only)      bind_ (ite c (S; ret tt) (ret tt)) ..
  switch (e) { case K: S; break; ... default: S }   nested ite on (e =? c_K), the statements after the switch appended to
                                         every case (each case must end in break or return; no fall through)
`G` (translate/gen.py) is injected by the plug-in loader.
"""
import importlib.util
import os
import re

_spec = importlib.util.spec_from_file_location("ovni_verif_vparse_for_evspec", os.path.join(os.path.dirname(os.path.abspath(__file__)), "vparse.py"))
V = importlib.util.module_from_spec(_spec)
_spec.loader.exec_module(V)

PTYPES = {"struct ev_arg *": "ptr_arg", "char *": "cfmt", "struct cursor *": "ptr_cursor", "struct emu_ev *": "ptr_ev"}
LOADS = {"uint8": "load_uint8", "uint16": "load_uint16", "uint32": "load_uint32", "uint64": "load_uint64",
         "int8": "load_int8", "int16": "load_int16", "int32": "load_int32", "int64": "load_int64"}


class E(V.T):
    def __init__(self, *a):
        V.T.__init__(self, *a)
        self.consts = {}

    # ------------------------------------------------------------ cursor reads
    def is_cursor_len(self, n):
        n = self.strip(n)
        if n.get("kind") == "MemberExpr" and n.get("isArrow") and n.get("name") == "len":
            q = re.sub(r"\bconst\b", "", self.qt(n["inner"][0])).strip()
            return q == "struct cursor *"
        return False

    def mentions_len(self, n):
        if self.is_cursor_len(n):
            return True
        return any(isinstance(c, dict) and self.mentions_len(c) for c in n.get("inner", []) or [])

    def with_errno(self, nodes, env, k):
        if any(self.mentions_len(x) for x in nodes):
            self.fresh += 1
            g = "len_%d" % self.fresh
            env2 = dict(env)
            env2["__len"] = g
            cur = [x for x in env if env[x].get("cty") == "struct cursor *"]
            if len(cur) != 1:
                self.bad(nodes[0], "c->len read without a single cursor variable in scope")
            return "bind (get_cursor_len %s) (fun %s =>\n%s)" % (env[cur[0]]["g"], g, V.T.with_errno(self, nodes, env2, k))
        return V.T.with_errno(self, nodes, env, k)

    # ------------------------------------------------------------ expressions
    def is_byte_ptr(self, q):
        q = re.sub(r"\s+", " ", re.sub(r"\bconst\b", "", q)).strip()
        return q in ("uint8_t *", "char *", "union ovni_ev_payload *", "void *", "unsigned char *")

    def expr(self, n, env):
        k = n.get("kind")
        if self.is_cursor_len(n) and k == "MemberExpr":
            if "__len" not in env:
                self.bad(n, "c->len read where the translator did not bind it")
            return env["__len"]
        if k == "DeclRefExpr" and n.get("referencedDecl", {}).get("kind") == "EnumConstantDecl":
            self.consts[n["referencedDecl"]["name"]] = None
            return "c_%s" % n["referencedDecl"]["name"]
        if k in ("ImplicitCastExpr", "CStyleCastExpr") and n.get("castKind") == "BitCast" and not self.is_nullc(n):
            inner = n["inner"][0]
            if self.is_byte_ptr(self.qt(n)) and self.is_byte_ptr(self.qt(inner)):
                return self.expr(inner, env)
            self.bad(n, "pointer cast %s -> %s" % (self.qt(inner), self.qt(n)))
        if k == "UnaryOperator" and n.get("opcode") == "&":
            a = self.strip(n["inner"][0])
            if a.get("kind") == "ArraySubscriptExpr" and self.is_byte_ptr(self.qt(a["inner"][0])):
                return "(u8_index %s %s)" % (self.expr(a["inner"][0], env), self.expr(a["inner"][1], env))
        if k == "BinaryOperator" and n.get("opcode") in ("+", "-"):
            t = self.ity(n)
            if t is None or self.ity(n["inner"][0]) is None or self.ity(n["inner"][1]) is None:
                self.bad(n, "arithmetic on non-integers")
            r = "(%s %s %s)" % ("Z.add" if n["opcode"] == "+" else "Z.sub", self.expr(n["inner"][0], env), self.expr(n["inner"][1], env))
            return "(cast_%s %s)" % (t, r)
        if k == "CallExpr" and self.callee(n) == "memchr" and len(n["inner"]) == 4:
            a = n["inner"][1:]
            return "(memchr_c %s %s %s)" % (self.expr(a[0], env), self.expr(a[1], env), self.expr(a[2], env))
        return V.T.expr(self, n, env)

    def ity(self, n):
        r = V.T.ity(self, n)
        if r is None:
            t = n.get("type", {})
            for c in (t.get("qualType"), t.get("desugaredQualType")):
                if c and re.sub(r"\bconst\b", "", c).strip().startswith("enum "):
                    return "uint32"      # gcc/clang: an enum without negative enumerators is unsigned int
        return r

    # ------------------------------------------------------------ statements
    def snprintf(self, call, g, env, env2, rest):
        a = call["inner"][1:]
        if len(a) != 4:
            self.bad(call, "snprintf(c->out, size, fmt, x) expected")
        d = self.strip(a[0])
        if not (d.get("kind") == "MemberExpr" and d.get("isArrow") and d.get("name") == "out" and
                re.sub(r"\bconst\b", "", self.qt(d["inner"][0])).strip() == "struct cursor *"):
            self.bad(call, "snprintf destination is not c->out")
        x = a[3]
        if self.is_ptr(x):
            arg = "(AStr %s)" % self.expr(x, env)
        elif self.ity(x) in ("int32", "uint32", "int64", "uint64"):
            # the width of the promoted argument, as the variadic call passes it
            arg = "(AInt (%s) %s)" % (self.ity(x)[-2:], self.expr(x, env))
        else:
            self.bad(x, "snprintf argument of type " + self.qt(x))
        return self.with_errno([a[1]], env, lambda e: "bind (snprintf_c %s %s %s %s) (fun %s =>\n%s)" % (
            self.expr(d["inner"][0], e), self.expr(a[1], e), self.expr(a[2], e), arg, g, self.stmts(rest, env2)))

    def flat(self, ss):
        out = []
        for s in ss:
            k = s.get("kind")
            if k == "CompoundStmt":
                out.extend(self.flat(s.get("inner", [])))
            elif k == "DoStmt" and self.is_do0(s):
                out.extend(self.flat([s["inner"][0]]))
            elif k == "NullStmt":
                pass
            else:
                out.append(s)
        return out

    def is_do0(self, s):
        if s.get("kind") != "DoStmt" or len(s.get("inner", [])) != 2:
            return False
        c = self.strip(s["inner"][1])
        if not (c.get("kind") == "IntegerLiteral" and c.get("value") == "0"):
            return False
        # the logging macros are do/while(0) too: those are handled (dropped) by the base class
        try:
            self.pure(s)
            return False
        except self.cg.Unsupported:
            return True

    def stmts(self, ss, env):
        if not ss:
            return V.T.stmts(self, ss, env)
        s, rest = ss[0], ss[1:]
        k = s.get("kind")
        if k == "__retunit":
            return "ret tt"
        if k == "DoStmt" and self.is_do0(s):
            return self.stmts([s["inner"][0]] + rest, env)
        if k == "DeclStmt" and len(s["inner"]) == 1 and s["inner"][0].get("kind") == "VarDecl":
            v = s["inner"][0]
            inits = [c for c in v.get("inner", []) if c.get("kind") != "FullComment"]
            if not inits and self.ity(v) in LOADS:
                env2 = dict(env)
                env2[v["name"]] = {"kind": "uninit", "ity": self.ity(v), "g": None}
                return self.stmts(rest, env2)
            if inits and self.strip(inits[0]).get("kind") == "CallExpr" and self.callee(self.strip(inits[0])) == "snprintf":
                g = self.gname(v["name"])
                env2 = dict(env)
                env2[v["name"]] = {"kind": "var", "g": g, "cty": self.qt(v)}
                return self.snprintf(self.strip(inits[0]), g, env, env2, rest)
        if k == "CallExpr":
            name = self.callee(s)
            a = s["inner"][1:]
            if name == "memcpy" and len(a) == 3:
                d = self.strip(a[0])
                dv = self.strip(d["inner"][0]) if d.get("kind") == "UnaryOperator" and d.get("opcode") == "&" else {}
                nm = dv.get("referencedDecl", {}).get("name")
                sz = self.strip(a[2])
                szv = self.strip(sz["inner"][0]) if sz.get("kind") == "UnaryExprOrTypeTraitExpr" and sz.get("name") == "sizeof" and sz.get("inner") else {}
                if dv.get("kind") != "DeclRefExpr" or env.get(nm, {}).get("kind") != "uninit" or szv.get("referencedDecl", {}).get("name") != nm:
                    self.bad(s, "memcpy must be `memcpy(&x, p, sizeof(x))` with x an uninitialised integer local")
                g = self.gname(nm)
                env2 = dict(env)
                env2[nm] = {"kind": "var", "g": g, "cty": "int"}
                return "bind (%s %s) (fun %s =>\n%s)" % (LOADS[env[nm]["ity"]], self.expr(a[1], env), g, self.stmts(rest, env2))
            if name == "advance_out" and len(a) == 2:
                return "bind_ (advance_out %s %s)\n(%s)" % (self.expr(a[0], env), self.expr(a[1], env), self.stmts(rest, env))
        if k == "BinaryOperator" and s.get("opcode") == "=":
            l = self.strip(s["inner"][0])
            r = self.strip(s["inner"][1])
            if l.get("kind") == "DeclRefExpr" and r.get("kind") == "CallExpr" and self.callee(r) == "snprintf" and \
                    env.get(l["referencedDecl"]["name"], {}).get("kind") == "var":
                nm = l["referencedDecl"]["name"]
                g = self.gname(nm)
                env2 = dict(env)
                env2[nm] = dict(env[nm], g=g, const=None)
                return self.snprintf(r, g, env, env2, rest)
        if k == "CompoundAssignOperator" and s.get("opcode") in ("+=", "-="):
            l = self.strip(s["inner"][0])
            if l.get("kind") == "MemberExpr" and l.get("isArrow") and re.sub(r"\bconst\b", "", self.qt(l["inner"][0])).strip() == "struct cursor *":
                cur = self.expr(l["inner"][0], env)
                v = self.expr(s["inner"][1], env)
                if l["name"] == "out" and s["opcode"] == "+=":
                    return "bind_ (add_cursor_out %s %s)\n(%s)" % (cur, v, self.stmts(rest, env))
                if l["name"] == "len" and s["opcode"] == "-=":
                    self.fresh += 1
                    g = "len_%d" % self.fresh
                    return "bind (get_cursor_len %s) (fun %s =>\nbind_ (set_cursor_len %s (cast_int32 (Z.sub %s %s)))\n(%s))" % (cur, g, cur, g, v, self.stmts(rest, env))
            self.bad(s, "compound assignment")
        if k == "IfStmt":
            parts = list(s["inner"])
            if len(parts) == 2 and self.terminal_fail(parts[1]) is None:
                a1 = []
                try:
                    only_assign = self.assigned(parts[1], env, a1)
                except self.cg.Unsupported:
                    only_assign = False
                if not only_assign:
                    body = self.stmts([parts[1], {"kind": "__retunit"}], env)
                    return self.with_errno([parts[0]], env, lambda e: "bind_ (ite %s\n(%s)\n(ret tt))\n(%s)" % (
                        self.cond(parts[0], e), body, self.stmts(rest, env)))
        if k == "SwitchStmt":
            return self.switch(s, rest, env)
        return V.T.stmts(self, ss, env)

    def switch(self, s, rest, env):
        scrut, body = s["inner"][0], s["inner"][1]
        if body.get("kind") != "CompoundStmt":
            self.bad(s, "switch body")
        groups = []          # (label term or None for default, [statements])
        for x in body.get("inner", []):
            k = x.get("kind")
            if k == "CaseStmt":
                lab = self.expr(x["inner"][0], env)
                groups.append((lab, [x["inner"][-1]]))
            elif k == "DefaultStmt":
                groups.append((None, [x["inner"][-1]]))
            else:
                if not groups:
                    self.bad(x, "statement before the first case label")
                groups[-1][1].append(x)
        if not groups or groups[-1][0] is not None or any(g[0] is None for g in groups[:-1]):
            self.bad(s, "switch without a final default")
        self.fresh += 1
        sw = "sw_%d" % self.fresh

        def arm(stl):
            fl = self.flat(stl)
            for i, x in enumerate(fl):
                if x.get("kind") == "BreakStmt":
                    for y in fl[:i]:
                        for z in self.walk(y):
                            if z.get("kind") in ("BreakStmt", "ContinueStmt", "CaseStmt", "DefaultStmt"):
                                self.bad(z, "inside a case")
                    return self.stmts(fl[:i] + rest, env)
                if x.get("kind") == "ReturnStmt":
                    return self.stmts(fl[:i + 1], env)
            self.bad(s, "a case falls through")
        t = arm(groups[-1][1])
        for lab, stl in reversed(groups[:-1]):
            t = "ite (Z.eqb %s %s)\n(%s)\n(%s)" % (sw, lab, arm(stl), t)
        return self.with_errno([scrut], env, lambda e: "let %s := %s in\n%s" % (sw, self.expr(scrut, e), t))

    def function2(self, d):
        params = [c for c in d["inner"] if c["kind"] == "ParmVarDecl"]
        body = [c for c in d["inner"] if c["kind"] == "CompoundStmt"][0]
        rett = d["type"]["qualType"].split("(")[0].strip()
        env = {}
        plist = []
        for p in params:
            q = re.sub(r"\s+", " ", re.sub(r"\bconst\b", "", self.qt(p)).strip())
            g = self.gname(p["name"])
            if q in PTYPES:
                env[p["name"]] = {"kind": "var", "g": g, "cty": q}
                plist.append("(%s : %s)" % (g, PTYPES[q]))
            elif self.ity(p) is not None:
                env[p["name"]] = {"kind": "var", "g": g, "cty": q}
                plist.append("(%s : Z)" % g)
            else:
                raise self.cg.Unsupported("UNSUPPORTED %s function %s: parameter of type %s" % (self.relpath, self.fn, q))
        sig = d["type"]["qualType"].replace("*", "ptr")
        if rett == "void":
            term = self.stmts([body, {"kind": "__retunit"}], env)
            return "(* %s: %s %s *)\nDefinition %s %s : M unit :=\n%s.\n" % (self.relpath, self.fn, sig, self.fn, " ".join(plist), V.indent(term))
        if rett != "int":
            raise self.cg.Unsupported("UNSUPPORTED %s function %s: returns %s" % (self.relpath, self.fn, rett))
        term = self.stmts([body], env)
        return "(* %s: %s %s *)\nDefinition %s %s : M Z :=\n%s.\n" % (self.relpath, self.fn, sig, self.fn, " ".join(plist), V.indent(term))



# ====================================================================================================
# the walk over the description: advance_in, format_region, ev_spec_print -> coq/Gen/EvSpecWalk_gen.v over
# coq/Tools/EvSpecWalkPre.v (a second monad W: the output cursor of EvSpecPre plus the input position and the two
# local char buffers of format_region).  Additional forms:
#   c->X and c.X (a local `struct cursor c`), &c        the one cursor
#   *c->in                                             a state read: bind (get_cursor_in c) (fun in_k => ...)
#   c->in++ ; c->in += n                               bind_ (add_cursor_in c n) ..
#   *c->out = e;                                       bind_ (put_cursor_out c e) ..
#   struct cursor c = { in, out, len };                bind_ (init_cursor in out len) ..
#   char b[N];                                         a buffer cell (buf k), k = order of declaration; sizeof(b) = N
#   if (f(args) OP lit) { refusal }                    bind (f args) (fun r_k => ite (OP r_k lit) (fail ..) ..)   f a generated
#                                                      function or one of the primitives below; a buffer passed to a
#                                                      generated function is read first (bind (buf_get (buf k)) ..)
#   T *x = ev_spec_find_arg(spec, b);                  bind (ev_spec_find_arg_c spec (buf k)) (fun x => ..)
#   type_fmt[e]                                        (type_fmt_c e)
#   if (c) { S1 } else { S2 } (no return except refusals; at most one local assigned)
#                                                      bind (ite c (S1; ret x) (S2; ret x)) (fun x => ..)
#   if (c) { S; return e; }                            ite c (S; ret e) (rest)
#   while (*c.in != '\0') { S }                        bind_ (while_in c (S; ret tt)) ..
# primitives (EvSpecWalkPre.v): parse_printf_format, parse_arg_name (loops over char buffers: defined from scan_fmt /
# scan_name of EvSpecDefs.v), ev_spec_find_arg (loop with strcmp: find_arg), snprintf into a local buffer, type_fmt.
MONADIC = {"format_region": "format_region", "print_arg": "print_arg", "ev_spec_print": "ev_spec_print", "parse_printf_format": "parse_printf_format",
           "parse_arg_name": "parse_arg_name", "snprintf": "snprintf_buf"}
GENERATED = {"format_region", "print_arg"}
WPTYPES = {"struct ev_spec *": "ptr_specw", "struct cursor *": "ptr_cursor", "struct emu_ev *": "ptr_ev", "char *": "ptr_out",
           "struct ev_arg *": "ptr_argw"}


class W(E):
    def cur_of(self, n, env):
        """the cursor an expression `c` / `&c` / c of a member access denotes, or None"""
        n = self.strip(n)
        if n.get("kind") == "UnaryOperator" and n.get("opcode") == "&":
            n = self.strip(n["inner"][0])
        if n.get("kind") == "DeclRefExpr":
            e = env.get(n["referencedDecl"]["name"], {})
            if e.get("kind") == "cursor":
                return "tt"
            if e.get("cty") == "struct cursor *":
                return e["g"]
        return None

    def cur_field(self, n, name, env=None):
        n = self.strip(n)
        if n.get("kind") == "MemberExpr" and n.get("name") == name:
            q = re.sub(r"\bconst\b", "", self.qt(n["inner"][0])).strip()
            return q in ("struct cursor *", "struct cursor")
        return False

    def is_cursor_len(self, n):
        return self.cur_field(n, "len")

    def is_in_char(self, n):
        n = self.strip(n)
        return n.get("kind") == "UnaryOperator" and n.get("opcode") == "*" and self.cur_field(n["inner"][0], "in")

    def mentions_in(self, n):
        if self.is_in_char(n):
            return True
        return any(isinstance(c, dict) and self.mentions_in(c) for c in n.get("inner", []) or [])

    def the_cursor(self, env, node):
        cur = [x for x in env if isinstance(env[x], dict) and (env[x].get("cty") == "struct cursor *" or env[x].get("kind") == "cursor")]
        if len(cur) != 1:
            self.bad(node, "cursor access without a single cursor in scope")
        return "tt" if env[cur[0]].get("kind") == "cursor" else env[cur[0]]["g"]

    def with_errno(self, nodes, env, k):
        if any(self.mentions_in(x) for x in nodes) and "__in_bound" not in env:
            self.fresh += 1
            g = "in_%d" % self.fresh
            env2 = dict(env)
            env2["__inch"] = g
            env2["__in_bound"] = True
            r = self.with_errno(nodes, env2, lambda e: k({kk: vv for kk, vv in e.items() if kk != "__in_bound"}))
            return "bind (get_cursor_in %s) (fun %s =>\n%s)" % (self.the_cursor(env, nodes[0]), g, r)
        if any(self.mentions_len(x) for x in nodes):
            self.fresh += 1
            g = "len_%d" % self.fresh
            env2 = dict(env)
            env2["__len"] = g
            return "bind (get_cursor_len %s) (fun %s =>\n%s)" % (self.the_cursor(env, nodes[0]), g, V.T.with_errno(self, nodes, env2, k))
        return V.T.with_errno(self, nodes, env, k)

    def expr(self, n, env):
        k = n.get("kind")
        if self.is_in_char(n) and k == "UnaryOperator":
            if "__inch" not in env:
                self.bad(n, "*c->in read where the translator did not bind it")
            return env["__inch"]
        if k == "MemberExpr" and self.cur_field(n, "len"):
            if "__len" not in env:
                self.bad(n, "c->len read where the translator did not bind it")
            return env["__len"]
        c = self.cur_of(n, env) if k in ("UnaryOperator", "DeclRefExpr", "ImplicitCastExpr") else None
        if c is not None and (k != "DeclRefExpr" or env.get(n["referencedDecl"]["name"], {}).get("kind") == "cursor" or True):
            if k == "UnaryOperator" and n.get("opcode") == "&":
                return c
            if k == "DeclRefExpr":
                return c
        if k == "ArraySubscriptExpr":
            b = self.strip(n["inner"][0])
            if b.get("kind") == "DeclRefExpr" and b["referencedDecl"]["name"] == "type_fmt" and b["referencedDecl"]["name"] not in env:
                return "(type_fmt_c %s)" % self.expr(n["inner"][1], env)
        if k == "UnaryExprOrTypeTraitExpr" and n.get("name") == "sizeof":
            a = self.strip(n["inner"][0]) if n.get("inner") else {}
            e = env.get(a.get("referencedDecl", {}).get("name"), {})
            if a.get("kind") == "DeclRefExpr" and e.get("kind") == "buf":
                return "(%d)" % e["size"]
            self.bad(n, "sizeof of something that is not a local char buffer")
        if k == "DeclRefExpr" and env.get(n["referencedDecl"]["name"], {}).get("kind") == "buf":
            return "(buf %d)" % env[n["referencedDecl"]["name"]]["id"]
        return E.expr(self, n, env)

    def mcall(self, call, env, k):
        """a call of a monadic function: k(term) with buffers handed to GENERATED callees read first"""
        name = self.callee(call)
        args = call["inner"][1:]
        if name == "snprintf":
            d = self.strip(args[0])
            if not (d.get("kind") == "DeclRefExpr" and env.get(d["referencedDecl"]["name"], {}).get("kind") == "buf"):
                self.bad(call, "snprintf in a condition must write a local char buffer")
        pre = []
        ts = []
        for a in args:
            a0 = self.strip(a)
            if name in GENERATED and a0.get("kind") == "DeclRefExpr" and env.get(a0["referencedDecl"]["name"], {}).get("kind") == "buf":
                self.fresh += 1
                g = "%s_%d" % (self.gname(a0["referencedDecl"]["name"]), self.fresh)
                pre.append((g, "(buf %d)" % env[a0["referencedDecl"]["name"]]["id"]))
                ts.append(g)
            else:
                ts.append(self.expr(a, env))
        t = k("(%s %s)" % (MONADIC[name], " ".join(ts)))
        for g, b in reversed(pre):
            t = "bind (buf_get %s) (fun %s =>\n%s)" % (b, g, t)
        return t

    def ends_in_return(self, s):
        fl = self.flat([s])
        return bool(fl) and fl[-1].get("kind") == "ReturnStmt"

    def effects_only(self, s, env, assigned):
        """a branch made of effects, refusals and top-level assignments of int locals (collected); no other return"""
        for x in self.flat([s]):
            for y in self.walk(x):
                if y.get("kind") in ("BreakStmt", "ContinueStmt", "GotoStmt", "WhileStmt", "ForStmt"):
                    return False
            if x.get("kind") == "ReturnStmt":
                return False
            if x.get("kind") == "BinaryOperator" and x.get("opcode") == "=":
                l = self.strip(x["inner"][0])
                if l.get("kind") == "DeclRefExpr" and env.get(l["referencedDecl"]["name"], {}).get("kind") == "var":
                    if l["referencedDecl"]["name"] not in assigned:
                        assigned.append(l["referencedDecl"]["name"])
            for y in self.walk(x):
                if y.get("kind") == "ReturnStmt" and not (y.get("inner") and self.ret_minus1(y["inner"][0])):
                    return False
        return True

    def stmts(self, ss, env):
        if not ss:
            return E.stmts(self, ss, env)
        s, rest = ss[0], ss[1:]
        k = s.get("kind")
        if k == "__retvar":
            return "ret %s" % env[s["name"]]["g"]
        if k == "DeclStmt" and len(s["inner"]) == 1 and s["inner"][0].get("kind") == "VarDecl":
            v = s["inner"][0]
            q = self.qt(v)
            inits = [c for c in v.get("inner", []) if c.get("kind") != "FullComment"]
            m = re.match(r"^char\[(\d+)\]$", q)
            if m and not inits:
                env2 = dict(env)
                env2[v["name"]] = {"kind": "buf", "size": int(m.group(1)), "id": len([1 for e in env.values() if isinstance(e, dict) and e.get("kind") == "buf"])}
                return self.stmts(rest, env2)
            if q == "struct cursor" and inits and inits[0].get("kind") == "InitListExpr" and len(inits[0]["inner"]) == 3:
                a = inits[0]["inner"]
                env2 = dict(env)
                env2[v["name"]] = {"kind": "cursor"}
                return "bind_ (init_cursor %s %s %s)\n(%s)" % (self.expr(a[0], env), self.expr(a[1], env), self.expr(a[2], env), self.stmts(rest, env2))
            if inits and self.strip(inits[0]).get("kind") == "CallExpr" and self.callee(self.strip(inits[0])) == "ev_spec_find_arg":
                call = self.strip(inits[0])
                g = self.gname(v["name"])
                env2 = dict(env)
                env2[v["name"]] = {"kind": "var", "g": g, "cty": re.sub(r"\s+", " ", q)}
                b = self.strip(call["inner"][2])
                if b.get("kind") != "DeclRefExpr" or env.get(b["referencedDecl"]["name"], {}).get("kind") != "buf":
                    self.bad(call, "the name handed to ev_spec_find_arg is not a local char buffer")
                self.fresh += 1
                gb = "%s_%d" % (self.gname(b["referencedDecl"]["name"]), self.fresh)
                return "bind (buf_get (buf %d)) (fun %s =>\nlet %s := (ev_spec_find_arg %s %s) in\n%s)" % (
                    env[b["referencedDecl"]["name"]]["id"], gb, g, self.expr(call["inner"][1], env), gb, self.stmts(rest, env2))
        if k == "UnaryOperator" and s.get("opcode") in ("++",) and self.cur_field(s["inner"][0], "in"):
            return "bind_ (add_cursor_in %s (1))\n(%s)" % (self.the_cursor(env, s), self.stmts(rest, env))
        if k == "CompoundAssignOperator" and s.get("opcode") == "+=" and self.cur_field(s["inner"][0], "in"):
            return "bind_ (add_cursor_in %s %s)\n(%s)" % (self.the_cursor(env, s), self.expr(s["inner"][1], env), self.stmts(rest, env))
        if k == "BinaryOperator" and s.get("opcode") == "=":
            l = self.strip(s["inner"][0])
            if l.get("kind") == "UnaryOperator" and l.get("opcode") == "*" and self.cur_field(l["inner"][0], "out"):
                rhs = s["inner"][1]
                return self.with_errno([rhs], env, lambda e: "bind_ (put_cursor_out %s %s)\n(%s)" % (self.the_cursor(env, s), self.expr(rhs, e), self.stmts(rest, env)))
        if k == "CallExpr" and self.callee(s) == "advance_in" and len(s["inner"]) == 3:
            return "bind_ (advance_in %s %s)\n(%s)" % (self.expr(s["inner"][1], env), self.expr(s["inner"][2], env), self.stmts(rest, env))
        if k == "WhileStmt":
            cond, body = s["inner"][0], s["inner"][1]
            c = self.strip(cond)
            ok = c.get("kind") == "BinaryOperator" and c.get("opcode") == "!=" and self.is_in_char(c["inner"][0]) and \
                self.strip(c["inner"][1]).get("kind") == "CharacterLiteral" and self.strip(c["inner"][1]).get("value") == 0
            a = []
            if not ok or not self.effects_only(body, env, a) or a:
                self.bad(s, "while loop is not `while (*c.in != '\\0') { effects and refusals }`")
            return "bind_ (while_in %s\n(%s))\n(%s)" % (self.the_cursor(env, s), self.stmts([body, {"kind": "__retunit"}], env), self.stmts(rest, env))
        if k == "IfStmt":
            parts = list(s["inner"])
            cond, then = parts[0], parts[1]
            els = parts[2] if len(parts) > 2 else None
            c0 = self.strip(cond)
            # if (f(args) OP literal) { refusal }
            if c0.get("kind") == "BinaryOperator" and c0.get("opcode") in ("!=", ">=", "<") and self.strip(c0["inner"][0]).get("kind") == "CallExpr" \
                    and self.callee(self.strip(c0["inner"][0])) in MONADIC and self.terminal_fail(then) is not None and els is None:
                call = self.strip(c0["inner"][0])
                lit = self.strip(c0["inner"][1])
                if lit.get("kind") != "IntegerLiteral":
                    self.bad(s, "status compared with a non-literal")
                self.fresh += 1
                r = "r_%d" % self.fresh
                tbl = {"!=": "(negb (Z.eqb %s (%s)))", ">=": "(Z.geb %s (%s))", "<": "(Z.ltb %s (%s))"}
                return self.mcall(call, env, lambda t: "bind %s (fun %s =>\nite %s\n(fail %s)\n(%s))" % (
                    t, r, tbl[c0["opcode"]] % (r, lit["value"]), self.terminal_fail(then), self.stmts(rest, env)))
            if self.terminal_fail(then) is None:
                if els is None and self.ends_in_return(then):
                    return self.with_errno([cond], env, lambda e: "ite %s\n(%s)\n(%s)" % (self.cond(cond, e), self.stmts([then], env), self.stmts(rest, env)))
                a = []
                if self.effects_only(then, env, a) and (els is None or self.effects_only(els, env, a)) and (els is not None or a):
                    if len(a) > 1:
                        self.bad(s, "more than one local assigned in the branches of an if")
                    if a:
                        nm = a[0]
                        g = env[nm]["g"] if not env[nm]["g"].startswith("(") else self.gname(nm)
                        env2 = dict(env)
                        env2[nm] = dict(env[nm], g=g, const=None)
                        tb = self.stmts([then, {"kind": "__retvar", "name": nm}], env)
                        eb = self.stmts(([els] if els is not None else []) + [{"kind": "__retvar", "name": nm}], env)
                        return self.with_errno([cond], env, lambda e: "bind (ite %s\n(%s)\n(%s)) (fun %s =>\n%s)" % (
                            self.cond(cond, e), tb, eb, g, self.stmts(rest, env2)))
                    tb = self.stmts([then, {"kind": "__retunit"}], env)
                    eb = self.stmts([els, {"kind": "__retunit"}], env)
                    return self.with_errno([cond], env, lambda e: "bind_ (ite %s\n(%s)\n(%s))\n(%s)" % (self.cond(cond, e), tb, eb, self.stmts(rest, env)))
        return E.stmts(self, ss, env)

    def function3(self, d):
        params = [c for c in d["inner"] if c["kind"] == "ParmVarDecl"]
        body = [c for c in d["inner"] if c["kind"] == "CompoundStmt"][0]
        rett = d["type"]["qualType"].split("(")[0].strip()
        env = {}
        plist = []
        for p in params:
            q = re.sub(r"\s+", " ", re.sub(r"\bconst\b", "", self.qt(p)).strip())
            g = self.gname(p["name"])
            if q in WPTYPES:
                env[p["name"]] = {"kind": "var", "g": g, "cty": q}
                plist.append("(%s : %s)" % (g, WPTYPES[q]))
            elif self.ity(p) is not None:
                env[p["name"]] = {"kind": "var", "g": g, "cty": q}
                plist.append("(%s : Z)" % g)
            else:
                raise self.cg.Unsupported("UNSUPPORTED %s function %s: parameter of type %s" % (self.relpath, self.fn, q))
        sig = d["type"]["qualType"].replace("*", "ptr")
        if rett == "void":
            term = self.stmts([body, {"kind": "__retunit"}], env)
            return "(* %s: %s %s *)\nDefinition %s %s : W unit :=\n%s.\n" % (self.relpath, self.fn, sig, self.fn, " ".join(plist), V.indent(term))
        term = self.stmts([body], env)
        return "(* %s: %s %s *)\nDefinition %s %s : W Z :=\n%s.\n" % (self.relpath, self.fn, sig, self.fn, " ".join(plist), V.indent(term))




# ====================================================================================================
# parse_printf_format / parse_arg_name (loops that fill a caller's char buffer) -> the same file EvSpecWalk_gen.v.
# Additional forms:
#   char *b (a parameter that is only written)          a buffer cell id (nat)
#   b[i++] = e;                                         bind_ (buf_put b i e) (let i := i + 1 in ..)
#   b[i] = e;                                           bind_ (buf_put b i e) ..
#   for (; *c->in != 'K'; c->in++) { S }                bind (for_in_until c K acc (fun acc => S; ret acc)) (fun acc => ..)
#                                                       acc = the one int local the body advances (S: refusals and buffer puts)
#   isalnum(ch) as glibc expands it                     (isalnum_c ch)
PPTYPES = {"char *": "nat", "struct cursor *": "ptr_cursor"}


class P(W):
    def is_ctype_alnum(self, n):
        n = self.strip(n)
        if n.get("kind") == "BinaryOperator" and n.get("opcode") == "&":
            l, r = n["inner"]
            has = any(x.get("kind") == "DeclRefExpr" and x.get("referencedDecl", {}).get("name") == "__ctype_b_loc" for x in self.walk(l))
            en = [x for x in self.walk(r) if x.get("kind") == "DeclRefExpr"]
            if has and len(en) == 1 and en[0].get("referencedDecl", {}).get("name") == "_ISalnum":
                sub = [x for x in self.walk(l) if x.get("kind") == "ArraySubscriptExpr"]
                if len(sub) == 1:
                    return sub[0]["inner"][1]
        return None

    def mentions_in(self, n):
        return W.mentions_in(self, n)

    def expr(self, n, env):
        a = self.is_ctype_alnum(n)
        if a is not None:
            return "(isalnum_c %s)" % self.expr(a, env)
        return W.expr(self, n, env)

    def cond(self, n, env):
        a = self.is_ctype_alnum(n)
        if a is not None:
            return "(negb (Z.eqb (isalnum_c %s) 0))" % self.expr(a, env)
        return W.cond(self, n, env)

    def buf_store(self, s, env):
        """b[i++] = e / b[i] = e with b a buffer parameter -> (b term, index var name, post-increment?, rhs) or None"""
        if s.get("kind") != "BinaryOperator" or s.get("opcode") != "=":
            return None
        l = self.strip(s["inner"][0])
        if l.get("kind") != "ArraySubscriptExpr":
            return None
        b = self.strip(l["inner"][0])
        if b.get("kind") != "DeclRefExpr" or env.get(b["referencedDecl"]["name"], {}).get("kind") != "bufparam":
            return None
        ix = self.strip(l["inner"][1])
        post = False
        if ix.get("kind") == "UnaryOperator" and ix.get("opcode") == "++" and ix.get("isPostfix"):
            post = True
            ix = self.strip(ix["inner"][0])
        if ix.get("kind") != "DeclRefExpr" or env.get(ix["referencedDecl"]["name"], {}).get("kind") != "var":
            self.bad(s, "buffer index is not an int local (optionally post-incremented)")
        return env[b["referencedDecl"]["name"]]["g"], ix["referencedDecl"]["name"], post, s["inner"][1]

    def stmts(self, ss, env):
        if not ss:
            return W.stmts(self, ss, env)
        s, rest = ss[0], ss[1:]
        bs = self.buf_store(s, env)
        if bs is not None:
            b, iv, post, rhs = bs
            gi = env[iv]["g"]
            if post:
                g2 = self.gname(iv)
                env2 = dict(env)
                env2[iv] = dict(env[iv], g=g2, const=None)
                return self.with_errno([rhs], env, lambda e: "bind_ (buf_put %s %s %s)\n(let %s := (cast_int32 (Z.add %s (1))) in\n%s)" % (
                    b, gi, self.expr(rhs, e), g2, gi, self.stmts(rest, env2)))
            return self.with_errno([rhs], env, lambda e: "bind_ (buf_put %s %s %s)\n(%s)" % (b, gi, self.expr(rhs, e), self.stmts(rest, env)))
        if s.get("kind") == "ForStmt":
            init, _, cond, inc, body = s["inner"]
            c = self.strip(cond) if isinstance(cond, dict) else {}
            ok = (not isinstance(init, dict) or not init.get("kind")) and c.get("kind") == "BinaryOperator" and c.get("opcode") == "!=" and \
                self.is_in_char(c["inner"][0]) and self.strip(c["inner"][1]).get("kind") == "CharacterLiteral"
            ok = ok and isinstance(inc, dict) and inc.get("kind") == "UnaryOperator" and inc.get("opcode") == "++" and self.cur_field(inc["inner"][0], "in")
            if not ok:
                self.bad(s, "loop is not `for (; *c->in != '<char>'; c->in++) { ... }`")
            accs = []
            for x in self.flat([body]):
                for y in self.walk(x):
                    if y.get("kind") in ("BreakStmt", "ContinueStmt", "GotoStmt", "ForStmt", "WhileStmt"):
                        self.bad(y, "inside a loop body")
                st = self.buf_store(x, env)
                if st is not None:
                    if st[2] and st[1] not in accs:
                        accs.append(st[1])
                elif not (x.get("kind") == "IfStmt" and len(x["inner"]) == 2 and self.terminal_fail(x["inner"][1]) is not None) and not self.is_log_safe(x):
                    self.bad(x, "loop body statement that is neither a refusal nor a buffer store")
            if len(accs) != 1:
                self.bad(s, "the loop must advance exactly one int local")
            acc = accs[0]
            ga = self.gname(acc)
            envb = dict(env)
            envb[acc] = dict(env[acc], g=ga, const=None)
            bt = self.stmts([body, {"kind": "__retvar", "name": acc}], envb)
            return "bind (for_in_until %s (%s) %s (fun %s =>\n%s)) (fun %s =>\n%s)" % (
                self.the_cursor(env, s), self.strip(c["inner"][1])["value"], env[acc]["g"], ga, bt, ga, self.stmts(rest, envb))
        return W.stmts(self, ss, env)

    def function4(self, d):
        params = [c for c in d["inner"] if c["kind"] == "ParmVarDecl"]
        body = [c for c in d["inner"] if c["kind"] == "CompoundStmt"][0]
        env = {}
        plist = []
        for p in params:
            q = re.sub(r"\s+", " ", re.sub(r"\bconst\b", "", self.qt(p)).strip())
            g = self.gname(p["name"])
            if q == "char *":
                env[p["name"]] = {"kind": "bufparam", "g": g}
                plist.append("(%s : nat)" % g)
            elif q == "struct cursor *":
                env[p["name"]] = {"kind": "var", "g": g, "cty": q}
                plist.append("(%s : ptr_cursor)" % g)
            elif self.ity(p) is not None:
                env[p["name"]] = {"kind": "var", "g": g, "cty": q}
                plist.append("(%s : Z)" % g)
            else:
                raise self.cg.Unsupported("UNSUPPORTED %s function %s: parameter of type %s" % (self.relpath, self.fn, q))
        sig = d["type"]["qualType"].replace("*", "ptr")
        term = self.stmts([body], env)
        return "(* %s: %s %s *)\nDefinition %s %s : W Z :=\n%s.\n" % (self.relpath, self.fn, sig, self.fn, " ".join(plist), V.indent(term))



# ====================================================================================================
# ev_spec_find_arg: a side-effect free function with a counted loop that returns from inside -> a Gallina function.
#   for (int i = 0; i < e; i++) { S }  return d;        (for_find (0) e (fun i => S') d)   S' : option result, None = go on
#   T *x = &p->arr[i];                                  let x := (addr_<struct>_<arr>_at p i) in
#   if (c) return e;                                    if c then Some e else ..
#   strcmp(a, b)                                        (strcmp_c a b)
class F(W):
    def body(self, ss, env):
        if not ss:
            return "None"
        s, rest = ss[0], ss[1:]
        k = s.get("kind")
        if k == "CompoundStmt":
            return self.body(list(s.get("inner", [])) + rest, env)
        if k == "DeclStmt" and len(s["inner"]) == 1 and s["inner"][0].get("kind") == "VarDecl":
            v = s["inner"][0]
            inits = [c for c in v.get("inner", []) if c.get("kind") != "FullComment"]
            if not inits or not (self.is_ptr(v) or self.ity(v)):
                self.bad(v, "declaration in a searching loop")
            g = self.gname(v["name"])
            env2 = dict(env)
            env2[v["name"]] = {"kind": "var", "g": g, "cty": re.sub(r"\s+", " ", self.qt(v))}
            return "let %s := %s in\n%s" % (g, self.expr(inits[0], env), self.body(rest, env2))
        if k == "IfStmt" and len(s["inner"]) == 2:
            th = self.flat([s["inner"][1]])
            if len(th) == 1 and th[0].get("kind") == "ReturnStmt" and th[0].get("inner"):
                return "if %s then Some %s else\n%s" % (self.cond(s["inner"][0], env), self.expr(th[0]["inner"][0], env), self.body(rest, env))
        self.bad(s, "statement in a searching loop")

    def expr(self, n, env):
        k = n.get("kind")
        if k == "UnaryOperator" and n.get("opcode") == "&":
            a = self.strip(n["inner"][0])
            if a.get("kind") == "ArraySubscriptExpr":
                b = self.strip(a["inner"][0])
                if b.get("kind") == "MemberExpr" and b.get("isArrow") and re.search(r"\[\d+\]$", self.qt(b)):
                    return "(addr_%s_%s_at %s %s)" % (self.struct_of(b["inner"][0]), b["name"], self.expr(b["inner"][0], env), self.expr(a["inner"][1], env))
        if k == "CallExpr" and self.callee(n) == "strcmp" and len(n["inner"]) == 3:
            return "(strcmp_c %s %s)" % (self.expr(n["inner"][1], env), self.expr(n["inner"][2], env))
        return W.expr(self, n, env)

    def function5(self, d):
        params = [c for c in d["inner"] if c["kind"] == "ParmVarDecl"]
        body = [c for c in d["inner"] if c["kind"] == "CompoundStmt"][0]
        rett = re.sub(r"\s+", " ", d["type"]["qualType"].split("(")[0].strip())
        if rett != "struct ev_arg *":
            raise self.cg.Unsupported("UNSUPPORTED %s function %s: returns %s" % (self.relpath, self.fn, rett))
        env = {}
        plist = []
        tys = {"struct ev_spec *": "ptr_specw", "char *": "cfmt"}
        for p in params:
            q = re.sub(r"\s+", " ", re.sub(r"\bconst\b", "", self.qt(p)).strip())
            if q not in tys:
                raise self.cg.Unsupported("UNSUPPORTED %s function %s: parameter of type %s" % (self.relpath, self.fn, q))
            g = self.gname(p["name"])
            env[p["name"]] = {"kind": "var", "g": g, "cty": q}
            plist.append("(%s : %s)" % (g, tys[q]))
        ss = self.flat([body])
        if len(ss) != 2 or ss[0].get("kind") != "ForStmt" or ss[1].get("kind") != "ReturnStmt":
            self.bad(body, "expected `for (...) { ... } return d;`")
        init, _, cond, inc, lbody = ss[0]["inner"]
        v = init["inner"][0] if isinstance(init, dict) and init.get("kind") == "DeclStmt" and len(init["inner"]) == 1 else {}
        c = self.strip(cond) if isinstance(cond, dict) else {}
        vin = [x for x in v.get("inner", []) if x.get("kind") != "FullComment"]
        ok = self.qt(v) == "int" and vin and self.strip(vin[0]).get("kind") == "IntegerLiteral" and self.strip(vin[0]).get("value") == "0" and \
            c.get("kind") == "BinaryOperator" and c.get("opcode") == "<" and self.strip(c["inner"][0]).get("referencedDecl", {}).get("name") == v.get("name") and \
            isinstance(inc, dict) and inc.get("kind") == "UnaryOperator" and inc.get("opcode") == "++" and \
            self.strip(inc["inner"][0]).get("referencedDecl", {}).get("name") == v.get("name")
        if not ok:
            self.bad(ss[0], "loop is not `for (int i = 0; i < e; i++)`")
        for x in self.walk(lbody):
            if x.get("kind") in ("BreakStmt", "ContinueStmt", "GotoStmt", "ForStmt", "WhileStmt"):
                self.bad(x, "inside a searching loop")
            if x.get("kind") in ("BinaryOperator", "CompoundAssignOperator") and x.get("opcode", "").endswith("=") and x.get("opcode") not in ("==", "!=", "<=", ">="):
                self.bad(x, "assignment inside a searching loop")
            if x.get("kind") == "UnaryOperator" and x.get("opcode") in ("++", "--"):
                self.bad(x, "++/-- inside a searching loop")
        gi = self.gname(v["name"])
        envb = dict(env)
        envb[v["name"]] = {"kind": "var", "g": gi, "cty": "int"}
        bt = self.body([lbody], envb)
        dflt = self.expr_null_or(ss[1]["inner"][0], env)
        sig = d["type"]["qualType"].replace("*", "ptr")
        term = "for_find (0) %s (fun %s =>\n%s) %s" % (self.expr(c["inner"][1], env), gi, bt, dflt)
        return "(* %s: %s %s *)\nDefinition %s %s : ptr_argw :=\n%s.\n" % (self.relpath, self.fn, sig, self.fn, " ".join(plist), V.indent(term))

    def expr_null_or(self, n, env):
        if self.is_nullc(n):
            return "(None : ptr_argw)"
        return self.expr(n, env)


# ====================================================================================================
# model.c model_event_print -> coq/Gen/EvSpecModel_gen.v over coq/Tools/EvSpecModelPre.v.  Additional forms:
#   ev->m, ev->mcv (through the anonymous union/struct of struct emu_ev)    (get_emu_ev_<field> ev)
#   p->arr[i]  (an array member)                                           (get_<struct>_<arr>_at p i)
#   model_evspec_find(t, mcv)  (uthash look-up)                            (model_evspec_find_c t mcv), a primitive
MPTYPES = {"struct model *": "ptr_model", "struct emu_ev *": "ptr_mev", "char *": "ptr_out"}


class Mdl(W):
    def anon_root(self, n):
        """ev->(anonymous)...(anonymous).field  ->  (root expression, field) or None"""
        if n.get("kind") != "MemberExpr" or not n.get("name"):
            return None
        cur = n["inner"][0]
        seen = False
        while cur.get("kind") == "MemberExpr" and cur.get("name") == "":
            seen = True
            if cur.get("isArrow"):
                return (cur["inner"][0], n["name"]) if re.sub(r"\bconst\b", "", self.qt(cur["inner"][0])).strip() == "struct emu_ev *" else None
            cur = cur["inner"][0]
        return None

    def expr(self, n, env):
        k = n.get("kind")
        if k == "MemberExpr":
            ar = self.anon_root(n)
            if ar is not None:
                return "(get_emu_ev_%s %s)" % (ar[1], self.expr(ar[0], env))
        if k == "ArraySubscriptExpr":
            b = self.strip(n["inner"][0])
            if b.get("kind") == "MemberExpr" and b.get("isArrow") and b.get("name") and re.search(r"\[\d+\]$", self.qt(b)):
                return "(get_%s_%s_at %s %s)" % (self.struct_of(b["inner"][0]), b["name"], self.expr(b["inner"][0], env), self.expr(n["inner"][1], env))
        if k == "CallExpr" and self.callee(n) == "model_evspec_find" and len(n["inner"]) == 3:
            return "(model_evspec_find_c %s %s)" % (self.expr(n["inner"][1], env), self.expr(n["inner"][2], env))
        return W.expr(self, n, env)


def gen(work):
    V.G = G
    cg = G.cg
    inc, ver = G.ovni_h_dir(work)
    rel = "src/emu/ev_spec.c"
    path = os.path.join(G.REPO, rel)
    if not os.path.exists(path):
        raise cg.Unsupported("UNSUPPORTED %s does not exist" % rel)
    tu = '#include "%s"\n' % path
    incs = G.incs(inc) + [os.path.dirname(path)]
    defs = []
    consts = {}
    for fn in ("advance_out", "print_arg"):
        d = cg.clang_ast(tu, incs, fn, work)
        t = E(cg, rel, fn, None)
        defs.append(t.function2(d))
        consts.update(t.consts)
    ctext = ""
    if consts:
        vals = cg.probe_consts(tu, incs, {"c_" + n: n for n in sorted(consts)}, work)
        ctext = "".join("Definition %s : Z := (%s).\n" % (k, vals[k]) for k in sorted(vals))
    text = (G.HEADER % "src/emu/ev_spec.c advance_out, print_arg (unit evspec)") + \
        "From Coq Require Import ZArith List Bool.\n" \
        "From OV Require Import Base.CInt Tools.EvSpecPre.\n" \
        "Import ListNotations.\nLocal Open Scope Z_scope.\n\n" \
        "(* enum constants, evaluated by the compiler *)\n" + ctext + "\n" + "\n".join(defs)
    wdefs = []
    wconsts = {}
    for fn in ("advance_in", "parse_printf_format", "parse_arg_name", "ev_spec_find_arg", "format_region", "ev_spec_print"):
        d = cg.clang_ast(tu, incs, fn, work)
        if fn == "ev_spec_find_arg":
            t = F(cg, rel, fn, None)
            wdefs.append(t.function5(d))
        elif fn.startswith("parse_"):
            t = P(cg, rel, fn, None)
            wdefs.append(t.function4(d))
        else:
            t = W(cg, rel, fn, None)
            wdefs.append(t.function3(d))
        wconsts.update(t.consts)
    wctext = ""
    if wconsts:
        vals = cg.probe_consts(tu, incs, {"c_" + n: n for n in sorted(wconsts)}, work)
        wctext = "".join("Definition %s : Z := (%s).\n" % (k, vals[k]) for k in sorted(vals))
    wtext = (G.HEADER % "src/emu/ev_spec.c advance_in, format_region, ev_spec_print (unit evspec)") + \
        "From Coq Require Import ZArith List Bool.\n" \
        "From OV Require Import Base.CInt Tools.EvSpecWalkPre.\n" \
        "Import ListNotations.\nLocal Open Scope Z_scope.\n\n" \
        "(* enum constants, evaluated by the compiler *)\n" + wctext + "\n" + "\n".join(wdefs)
    rel2 = "src/emu/model.c"
    path2 = os.path.join(G.REPO, rel2)
    if not os.path.exists(path2):
        raise cg.Unsupported("UNSUPPORTED %s does not exist" % rel2)
    tu2 = '#include "%s"\n' % path2
    incs2 = G.incs(inc) + [os.path.dirname(path2)]
    global WPTYPES
    saved = WPTYPES
    WPTYPES = MPTYPES
    try:
        d = cg.clang_ast(tu2, incs2, "model_event_print", work)
        mdef = Mdl(cg, rel2, "model_event_print", None).function3(d)
    finally:
        WPTYPES = saved
    mtext = (G.HEADER % "src/emu/model.c model_event_print (unit evspec)") + \
        "From Coq Require Import ZArith List Bool.\n" \
        "From OV Require Import Base.CInt Tools.EvSpecModelPre.\n" \
        "Import ListNotations.\nLocal Open Scope Z_scope.\n\n" + mdef
    return {"EvSpec_gen.v": text, "EvSpecWalk_gen.v": wtext, "EvSpecModel_gen.v": mtext}
