"""Translator unit `vparse`: src/include/version.h version_parse and src/emu/model.c model_version_probe.

Emits coq/Gen/VParse_gen.v over the hand-written prelude coq/Emu/VParsePre.v.  This unit has its own small renderer
(clang JSON AST -> Gallina, statement by statement, in C order; the shared stage-C core _stagec.py is not used and not
edited): the two functions need char buffers, `char *` locals that are re-assigned, errno, output parameters of libc
calls and two loops, none of which the core has.  Everything outside the subset below raises Unsupported naming
file:line (=> BROKEN-TIE); no statement is skipped silently.

Target: the state + error monad `M` of VParsePre.v (state: errno, strtok_r's save pointer, the output tuple).
  return -1                         fail E_FAIL          die(...)                 fail E_DIE
  return e                          ret e
  T x = e; / x = e;                 let x := e in ...    (locals are immutable bindings; an assignment shadows)
  char buf[N];                      a buffer of N bytes, usable only as the target of strcpy / snprintf
  strcpy(buf, s);                   bind (strcpy_c N s) (fun buf => ...)       (traps when s does not fit)
  char *a[] = { "..", .. };         a constant table; a[i] needs a literal i (after unrolling)
  p = strtok_r(s, d, &save)         bind (strtok_r_c s d) (fun p => ...)       (save: a `char *` local initialised to NULL
                                                                               and used nowhere else; it lives in the state)
  errno = e; / errno                bind_ (set_errno e) ... / bind get_errno (fun errno_ => ...)
  long v = strtol(s, &end, b);      bind (strtol_c s b) (fun r_ => let v := fst r_ in let end := snd r_ in ...)
  tuple[i] = e;  (int * parameter)  bind_ (set_tuple i e) ...
  if (c) { log..; return -1; } [else S]     ite c (fail E_FAIL) (S; rest)      (also with die(...) as the last statement)
  if (c) { x = e; } [else ...]      let x := if c then e else x in ...         (branches that only assign locals / log)
  for (int i = 0; i < K; i++) B     B unrolled K times, K an integer literal <= 8, i not assigned in B
  for (struct thread *t = e; t; t = t->gnext) B
                                    bind (for_gnext e acc (fun t acc => B; ret acc)) (fun acc => ...)   acc = the locals B assigns
  if (version_parse(s, arr) != 0) { log; return -1; }   with arr an uninitialised int[3] local:
                                    bind (out_tuple (version_parse s tt)) (fun arr => ...)
  err(..) / dbg(..)                 dropped after checking that the arguments have no side effect
Expressions: integer / character / string literals, locals and parameters, p->f (getter get_<struct>_<f>), &p->f
(addr_<struct>_<f>), p == NULL, p == q (ptr_eqb), p[i] (char_at), integer comparisons, && || !, (int) of a long
(cast_int32), strlen, snprintf(buf, N, fmt, args...) (its return value only), should_enable(have, spec, t).
`G` (translate/gen.py) is injected by the plug-in loader.
"""
import os
import re

PTYPES = {"char *": "cptr", "struct model_spec *": "ptr_spec", "struct emu *": "ptr_emu"}
LOGS = {"verr", "vdbg", "vwarn", "vinfo"}
DIE = {"vdie"}
MAX_UNROLL = 8


class T:
    def __init__(self, cg, relpath, fn, src):
        self.cg, self.relpath, self.fn, self.src = cg, relpath, fn, src
        self.fresh = 0

    # ------------------------------------------------------------ helpers
    def bad(self, n, why):
        line = None
        r = (n or {}).get("range", {}).get("begin", {})
        line = r.get("line") or r.get("expansionLoc", {}).get("line") or r.get("spellingLoc", {}).get("line")
        raise self.cg.Unsupported("UNSUPPORTED %s%s function %s: %s %s" % (self.relpath, (":%s" % line) if line else "", self.fn, (n or {}).get("kind"), why))

    @staticmethod
    def qt(n):
        return n.get("type", {}).get("qualType", "")

    @staticmethod
    def strip(n):
        while n.get("kind") in ("ImplicitCastExpr", "ParenExpr", "ConstantExpr"):
            n = n["inner"][0]
        return n

    def is_ptr(self, n):
        return self.qt(n).strip().endswith("*")

    def is_nullc(self, n):
        n0 = n
        while n0.get("kind") in ("ImplicitCastExpr", "ParenExpr", "CStyleCastExpr"):
            if n0.get("castKind") == "NullToPointer":
                return True
            n0 = n0["inner"][0]
        return False

    def callee(self, n):
        c = self.strip(n["inner"][0])
        return c.get("referencedDecl", {}).get("name")

    def is_errno(self, n):
        n = self.strip(n)
        if n.get("kind") == "UnaryOperator" and n.get("opcode") == "*":
            c = self.strip(n["inner"][0])
            return c.get("kind") == "CallExpr" and self.callee(c) == "__errno_location"
        return False

    def mentions_errno(self, n):
        if self.is_errno(n):
            return True
        return any(isinstance(c, dict) and self.mentions_errno(c) for c in n.get("inner", []) or [])

    def pure(self, n):
        """no assignment, ++/--, or call other than the side-effect free ones below n"""
        k = n.get("kind")
        if k in ("BinaryOperator", "CompoundAssignOperator") and n.get("opcode", "").endswith("=") and n.get("opcode") not in ("==", "!=", "<=", ">="):
            self.bad(n, "side effect inside an ignored logging call / condition")
        if k == "UnaryOperator" and n.get("opcode") in ("++", "--"):
            self.bad(n, "side effect inside an ignored logging call / condition")
        if k == "CallExpr" and self.callee(n) not in (LOGS | {"strlen", "__errno_location", "__builtin_expect"}):
            self.bad(n, "call of %s inside an ignored logging call" % self.callee(n))
        for c in n.get("inner", []) or []:
            if isinstance(c, dict):
                self.pure(c)

    def lit(self, n):
        v = n.get("value", "")
        if len(v) < 2 or v[0] != '"' or v[-1] != '"' or "\\" in v or any(ord(c) > 126 or ord(c) < 32 for c in v):
            self.bad(n, "string literal with an escape sequence or a prefix")
        return "(str_lit [%s])" % "; ".join(str(ord(c)) for c in v[1:-1])

    def var(self, n, env):
        name = n["referencedDecl"]["name"]
        if name not in env:
            self.bad(n, "variable %s is not a local or a parameter" % name)
        e = env[name]
        if e["kind"] != "var" or e["g"] is None:
            self.bad(n, "variable %s (%s) used as a value / before it is assigned" % (name, e["kind"]))
        return e["g"]

    # ------------------------------------------------------------ expressions (pure Gallina terms)
    def expr(self, n, env):
        k = n.get("kind")
        if self.is_nullc(n):
            q = re.sub(r"\s+", " ", re.sub(r"\bconst\b", "", self.qt(n)).strip())
            if q not in PTYPES:
                self.bad(n, "NULL of type " + q)
            return "(None : %s)" % PTYPES[q]
        if k in ("ParenExpr", "ConstantExpr"):
            return self.expr(n["inner"][0], env)
        if k == "IntegerLiteral" or k == "CharacterLiteral":
            return "(%s)" % n["value"]
        if k == "StringLiteral":
            return self.lit(n)
        if self.is_errno(n):
            if "__errno" not in env:
                self.bad(n, "errno read where the translator did not bind it")
            return env["__errno"]
        if k in ("ImplicitCastExpr", "CStyleCastExpr"):
            ck = n.get("castKind")
            inner = n["inner"][0]
            if ck in ("LValueToRValue", "NoOp", "ArrayToPointerDecay", "FunctionToPointerDecay"):
                return self.expr(inner, env)
            if ck == "IntegralCast":
                src, dst = self.ity(inner), self.ity(n)
                if src is None or dst is None:
                    self.bad(n, "cast %s -> %s" % (self.qt(inner), self.qt(n)))
                a = self.expr(inner, env)
                if self.cg._widens(src, dst) or self.strip(inner).get("kind") in ("IntegerLiteral", "CharacterLiteral"):
                    return a
                return "(cast_%s %s)" % (dst, a)
            self.bad(n, "castKind %s" % ck)
        if k == "DeclRefExpr":
            return self.var(n, env)
        if k == "ArraySubscriptExpr":
            base, idx = self.strip(n["inner"][0]), n["inner"][1]
            if base.get("kind") == "DeclRefExpr" and env.get(base["referencedDecl"]["name"], {}).get("kind") == "carray":
                i = self.const_int(idx, env)
                tab = env[base["referencedDecl"]["name"]]["items"]
                if i is None or not (0 <= i < len(tab)):
                    self.bad(n, "index of a constant table is not a literal within bounds")
                return tab[i]
            if self.is_ptr(n["inner"][0]) and re.sub(r"\bconst\b", "", self.qt(n)).strip() == "char":
                return "(char_at %s %s)" % (self.expr(n["inner"][0], env), self.expr(idx, env))
            self.bad(n, "subscript")
        if k == "MemberExpr" and n.get("isArrow"):
            b = n["inner"][0]
            st = self.struct_of(b)
            return "(get_%s_%s %s)" % (st, n["name"], self.expr(b, env))
        if k == "UnaryOperator":
            op = n["opcode"]
            a = n["inner"][0]
            if op == "-":
                return "(- %s)" % self.expr(a, env)
            if op == "!":
                return "(b2z (negb %s))" % self.cond(a, env)
            if op == "&":
                m = self.strip(a)
                if m.get("kind") == "MemberExpr" and m.get("isArrow"):
                    return "(addr_%s_%s %s)" % (self.struct_of(m["inner"][0]), m["name"], self.expr(m["inner"][0], env))
            self.bad(n, "unary operator " + op)
        if k == "BinaryOperator":
            op = n["opcode"]
            if op in ("==", "!=", "<", ">", "<=", ">=", "&&", "||"):
                return "(b2z %s)" % self.cond(n, env)
            self.bad(n, "binary operator " + op)
        if k == "CallExpr":
            name = self.callee(n)
            args = n["inner"][1:]
            if name == "__builtin_expect":
                return self.expr(args[0], env)
            if name == "strlen" and len(args) == 1:
                return "(strlen_c %s)" % self.expr(args[0], env)
            if name == "snprintf" and len(args) >= 3:
                b = self.strip(args[0])
                size = self.const_int(args[1], env)
                be = env.get(b.get("referencedDecl", {}).get("name"), {})
                if b.get("kind") != "DeclRefExpr" or be.get("kind") != "buf" or size is None or size > be["size"]:
                    self.bad(n, "snprintf target is not a local char buffer at least as large as the size argument")
                return "(snprintf_c (%d) %s [%s])" % (size, self.expr(args[2], env), "; ".join(self.expr(a, env) for a in args[3:]))
            if name == "should_enable" and len(args) == 3:
                h = self.strip(args[0])
                if h.get("kind") != "DeclRefExpr" or env.get(h["referencedDecl"]["name"], {}).get("kind") != "var":
                    self.bad(n, "first argument of should_enable is not a filled int[3] local")
                return "(should_enable_c %s %s %s)" % (self.var(h, env), self.expr(args[1], env), self.expr(args[2], env))
            self.bad(n, "call of %s inside an expression" % name)
        self.bad(n, "expression")

    def struct_of(self, n):
        q = re.sub(r"\bconst\b", "", self.qt(n)).strip()
        m = re.match(r"^struct (\w+) \*$", q)
        if not m:
            self.bad(n, "member access through " + q)
        return m.group(1)

    def ity(self, n):
        t = n.get("type", {})
        for c in (t.get("qualType"), t.get("desugaredQualType")):
            if c is None:
                continue
            c2 = re.sub(r"\bconst\b", "", c).strip()
            if c2 in self.cg.INT_TYPES:
                return self.cg.INT_TYPES[c2]
        return None

    def const_int(self, n, env):
        n = self.strip(n)
        if n.get("kind") == "IntegerLiteral":
            return int(n["value"])
        if n.get("kind") == "DeclRefExpr":
            e = env.get(n["referencedDecl"]["name"], {})
            if e.get("kind") == "var" and e.get("const") is not None:
                return e["const"]
        return None

    def cond(self, n, env):
        k = n.get("kind")
        if k == "ParenExpr":
            return self.cond(n["inner"][0], env)
        if k == "ImplicitCastExpr" and n.get("castKind") in ("IntegralToBoolean", "PointerToBoolean", "LValueToRValue", "NoOp"):
            if n.get("castKind") in ("LValueToRValue", "NoOp") and not (self.is_ptr(n) or self.ity(n)):
                self.bad(n, "condition of type " + self.qt(n))
            if n.get("castKind") in ("IntegralToBoolean", "PointerToBoolean"):
                return self.cond(n["inner"][0], env)
        if k == "CallExpr" and self.callee(n) == "__builtin_expect":
            return self.cond(n["inner"][1], env)
        if k == "UnaryOperator" and n.get("opcode") == "!":
            return "(negb %s)" % self.cond(n["inner"][0], env)
        if k == "BinaryOperator":
            op = n["opcode"]
            a, b = n["inner"]
            if op in ("&&", "||"):
                return "(%s %s %s)" % ("andb" if op == "&&" else "orb", self.cond(a, env), self.cond(b, env))
            if op in ("==", "!=") and (self.is_ptr(a) or self.is_ptr(b)):
                if self.is_nullc(a) or self.is_nullc(b):
                    r = "(is_null %s)" % self.expr(b if self.is_nullc(a) else a, env)
                else:
                    r = "(ptr_eqb %s %s)" % (self.expr(a, env), self.expr(b, env))
                return r if op == "==" else "(negb %s)" % r
            tbl = {"==": "Z.eqb", "<": "Z.ltb", ">": "Z.gtb", "<=": "Z.leb", ">=": "Z.geb"}
            if op == "!=" or op in tbl:
                if self.ity(a) is None or self.ity(b) is None:
                    self.bad(n, "comparison of non-integers")
                x, y = self.expr(a, env), self.expr(b, env)
                return "(negb (Z.eqb %s %s))" % (x, y) if op == "!=" else "(%s %s %s)" % (tbl[op], x, y)
        if self.is_ptr(n):
            return "(negb (is_null %s))" % self.expr(n, env)
        if self.ity(n) is None:
            self.bad(n, "condition of type " + self.qt(n))
        return "(negb (Z.eqb %s 0))" % self.expr(n, env)

    def with_errno(self, nodes, env, k):
        """k(env') -> term; binds errno first when one of the nodes reads it"""
        if any(self.mentions_errno(x) for x in nodes):
            self.fresh += 1
            g = "errno_%d" % self.fresh
            env2 = dict(env)
            env2["__errno"] = g
            return "bind get_errno (fun %s =>\n%s)" % (g, k(env2))
        return k(env)

    # ------------------------------------------------------------ statements
    def is_log(self, s):
        if s.get("kind") == "CallExpr" and self.callee(s) in LOGS:
            for a in s["inner"][1:]:
                self.pure_log_arg(a)
            return True
        if s.get("kind") == "DoStmt":
            # the dbg() macro: do { if (...) vdbg(...) } while (0) - accepted when everything below is side-effect free
            self.pure(s)
            return True
        return False

    def pure_log_arg(self, a):
        # arguments of a log call: any side-effect free expression (they are not translated)
        self.pure(a)

    def terminal_fail(self, s):
        """{ log..; return -1; } or { log..; die(..); } (or the bare statement) -> error name, else None"""
        ss = s.get("inner", []) if s.get("kind") == "CompoundStmt" else [s]
        ss = [x for x in ss if x.get("kind") != "NullStmt"]
        if not ss:
            return None
        for x in ss[:-1]:
            if not (x.get("kind") in ("CallExpr", "DoStmt") and self.is_log(x)):
                return None
        last = ss[-1]
        if last.get("kind") == "ReturnStmt" and last.get("inner") and self.ret_minus1(last["inner"][0]):
            return "E_FAIL"
        if last.get("kind") == "CallExpr" and self.callee(last) in DIE:
            for a in last["inner"][1:]:
                self.pure(a)
            return "E_DIE"
        return None

    def ret_minus1(self, r):
        r = self.strip(r)
        return r.get("kind") == "UnaryOperator" and r.get("opcode") == "-" and self.strip(r["inner"][0]).get("kind") == "IntegerLiteral" \
            and self.strip(r["inner"][0]).get("value") == "1"

    def assigned(self, s, env, out):
        """locals assigned by a statement that only assigns / logs (None if it does anything else)"""
        k = s.get("kind")
        if k == "CompoundStmt":
            return all(self.assigned(x, env, out) for x in s.get("inner", []))
        if k == "NullStmt" or self.is_log_safe(s):
            return True
        if k == "BinaryOperator" and s.get("opcode") == "=":
            l = self.strip(s["inner"][0])
            if l.get("kind") == "DeclRefExpr" and env.get(l["referencedDecl"]["name"], {}).get("kind") == "var":
                out.append((l["referencedDecl"]["name"], s["inner"][1]))
                return True
        if k == "IfStmt":
            return False
        return False

    def is_log_safe(self, s):
        try:
            return self.is_log(s)
        except self.cg.Unsupported:
            return False

    def gname(self, name):
        return name + "_" if name in ("ret", "bind", "bind_", "fail", "ite", "fst", "snd", "in", "at", "as", "end", "type", "fun", "let", "match", "with", "if", "then", "else", "return", "st") else name

    def stmts(self, ss, env):
        if not ss:
            raise self.cg.Unsupported("UNSUPPORTED %s function %s: control reaches the end of the function" % (self.relpath, self.fn))
        s, rest = ss[0], ss[1:]
        k = s.get("kind")
        if k == "__seti":
            env2 = dict(env)
            env2[s["name"]] = {"kind": "var", "g": "(%d)" % s["value"], "const": s["value"]}
            return self.stmts(rest, env2)
        if k == "__retacc":
            return "ret %s" % s["term"](env)
        if k == "CompoundStmt":
            return self.stmts(list(s.get("inner", [])) + rest, env)
        if k == "NullStmt":
            return self.stmts(rest, env)
        if k in ("CallExpr", "DoStmt") and self.is_log_safe(s):
            return self.stmts(rest, env)
        if k == "ReturnStmt":
            r = (s.get("inner") or [None])[0]
            if r is None:
                self.bad(s, "return without value")
            if self.ret_minus1(r):
                return "fail E_FAIL"
            return self.with_errno([r], env, lambda e: "ret %s" % self.expr(r, e))
        if k == "DeclStmt":
            if len(s["inner"]) != 1 or s["inner"][0].get("kind") != "VarDecl":
                self.bad(s, "declaration")
            v = s["inner"][0]
            name, q = v["name"], self.qt(v)
            inits = [c for c in v.get("inner", []) if c.get("kind") != "FullComment"]
            env2 = dict(env)
            m = re.match(r"^char\[(\d+)\]$", q)
            if m and not inits:
                env2[name] = {"kind": "buf", "size": int(m.group(1))}
                return self.stmts(rest, env2)
            if re.match(r"^char \*\[\d+\]$", q) and inits and inits[0].get("kind") == "InitListExpr":
                items = []
                for it in inits[0]["inner"]:
                    lit = self.strip(it)
                    if lit.get("kind") != "StringLiteral":
                        self.bad(it, "table entry is not a string literal")
                    items.append(self.lit(lit))
                env2[name] = {"kind": "carray", "items": items}
                return self.stmts(rest, env2)
            if q == "int[3]" and not inits:
                env2[name] = {"kind": "outarr"}
                return self.stmts(rest, env2)
            g = self.gname(name)
            if not inits:
                self.bad(v, "uninitialised local of type " + q)
            init = inits[0]
            call = self.strip(init)
            if not (self.is_ptr(v) or self.ity(v)):
                self.bad(v, "local of type " + q)
            env2[name] = {"kind": "var", "g": g, "cty": q, "nullinit": self.is_nullc(init)}
            if call.get("kind") == "CallExpr" and self.callee(call) == "strtok_r":
                return self.strtok(call, g, env, env2, rest)
            if call.get("kind") == "CallExpr" and self.callee(call) == "strtol":
                return self.strtol(call, g, env, env2, rest)
            return self.with_errno([init], env, lambda e: "let %s := %s in\n%s" % (g, self.expr(init, e), self.stmts(rest, env2)))
        if k == "BinaryOperator" and s.get("opcode") == "=":
            lhs, rhs = s["inner"]
            l = self.strip(lhs)
            if self.is_errno(lhs):
                return "bind_ (set_errno %s)\n(%s)" % (self.expr(rhs, env), self.stmts(rest, env))
            if l.get("kind") == "DeclRefExpr" and env.get(l["referencedDecl"]["name"], {}).get("kind") == "var":
                name = l["referencedDecl"]["name"]
                call = self.strip(rhs)
                env2 = dict(env)
                env2[name] = dict(env[name], nullinit=False, const=None)
                g = env[name]["g"] if not env[name]["g"].startswith("(") else self.gname(name)
                env2[name]["g"] = g
                if call.get("kind") == "CallExpr" and self.callee(call) == "strtok_r":
                    return self.strtok(call, g, env, env2, rest)
                return self.with_errno([rhs], env, lambda e: "let %s := %s in\n%s" % (g, self.expr(rhs, e), self.stmts(rest, env2)))
            if l.get("kind") == "ArraySubscriptExpr":
                base = self.strip(l["inner"][0])
                if base.get("kind") == "DeclRefExpr" and env.get(base["referencedDecl"]["name"], {}).get("kind") == "outparam":
                    return "bind_ (set_tuple %s %s)\n(%s)" % (self.expr(l["inner"][1], env), self.expr(rhs, env), self.stmts(rest, env))
            self.bad(s, "assignment target")
        if k == "CallExpr":
            name = self.callee(s)
            args = s["inner"][1:]
            if name == "strcpy" and len(args) == 2:
                b = self.strip(args[0])
                be = env.get(b.get("referencedDecl", {}).get("name"), {})
                if b.get("kind") != "DeclRefExpr" or be.get("kind") != "buf":
                    self.bad(s, "strcpy target is not a local char buffer")
                g = self.gname(b["referencedDecl"]["name"])
                env2 = dict(env)
                env2[b["referencedDecl"]["name"]] = {"kind": "var", "g": g, "cty": "char *"}
                return "bind (strcpy_c (%d) %s) (fun %s =>\n%s)" % (be["size"], self.expr(args[1], env), g, self.stmts(rest, env2))
            if name in DIE:
                for a in args:
                    self.pure(a)
                return "fail E_DIE"
            self.bad(s, "call statement of %s" % name)
        if k == "IfStmt":
            parts = list(s["inner"])
            cond, then = parts[0], parts[1]
            els = parts[2] if len(parts) > 2 else None
            # if (version_parse(s, arr) != 0) { log; return -1; }
            c0 = self.strip(cond)
            if c0.get("kind") == "BinaryOperator" and c0.get("opcode") == "!=" and self.strip(c0["inner"][0]).get("kind") == "CallExpr" \
                    and self.callee(self.strip(c0["inner"][0])) == "version_parse":
                call = self.strip(c0["inner"][0])
                z = self.strip(c0["inner"][1])
                arr = self.strip(call["inner"][2])
                if not (z.get("kind") == "IntegerLiteral" and z["value"] == "0") or els is not None or self.terminal_fail(then) != "E_FAIL" \
                        or arr.get("kind") != "DeclRefExpr" or env.get(arr["referencedDecl"]["name"], {}).get("kind") != "outarr":
                    self.bad(s, "version_parse must be used as `if (version_parse(s, arr) != 0) { log; return -1; }` with arr an uninitialised int[3] local")
                g = self.gname(arr["referencedDecl"]["name"])
                env2 = dict(env)
                env2[arr["referencedDecl"]["name"]] = {"kind": "var", "g": g, "cty": "int[3]"}
                return "bind (out_tuple (version_parse %s tt)) (fun %s =>\n%s)" % (self.expr(call["inner"][1], env), g, self.stmts(rest, env2))
            tf = self.terminal_fail(then)
            if tf is not None:
                return self.with_errno([cond], env, lambda e: "ite %s\n(fail %s)\n(%s)" % (
                    self.cond(cond, e), tf, self.stmts(([els] if els is not None else []) + rest, env)))
            a1, a2 = [], []
            if self.assigned(then, env, a1) and (els is None or self.assigned(els, env, a2)):
                names = []
                for nm, _ in a1 + a2:
                    if nm not in names:
                        names.append(nm)
                if len(a1) != len({x for x, _ in a1}) or len(a2) != len({x for x, _ in a2}):
                    self.bad(s, "a local assigned twice in one branch")

                def k2(e):
                    c = self.cond(cond, e)
                    t = self.stmts(rest, env2)
                    for nm in reversed(names):
                        g = env2[nm]["g"]
                        old = env[nm]["g"]
                        tv = dict(a1).get(nm)
                        ev = dict(a2).get(nm)
                        t = "let %s := (if %s then %s else %s) in\n%s" % (g, c, self.expr(tv, e) if tv is not None else old,
                                                                           self.expr(ev, e) if ev is not None else old, t)
                    return t
                env2 = dict(env)
                for nm in names:
                    if env[nm]["g"] is None:
                        self.bad(s, "conditional assignment to an uninitialised local")
                    g = env[nm]["g"] if not env[nm]["g"].startswith("(") else self.gname(nm)
                    env2[nm] = dict(env[nm], g=g, const=None, nullinit=False)
                return self.with_errno([cond], env, k2)
            self.bad(s, "if statement that is neither a refusal nor a conditional assignment of locals")
        if k == "ForStmt":
            return self.loop(s, rest, env)
        self.bad(s, "statement")

    def save_arg(self, a, env):
        a = self.strip(a)
        if a.get("kind") != "UnaryOperator" or a.get("opcode") != "&":
            return False
        v = self.strip(a["inner"][0])
        e = env.get(v.get("referencedDecl", {}).get("name"), {})
        return v.get("kind") == "DeclRefExpr" and e.get("kind") == "var" and e.get("cty") == "char *"

    def strtok(self, call, g, env, env2, rest):
        args = call["inner"][1:]
        if len(args) != 3 or not self.save_arg(args[2], env):
            self.bad(call, "strtok_r(s, delim, &save) with save a `char *` local")
        sv = self.strip(self.strip(args[2])["inner"][0])["referencedDecl"]["name"]
        if not env[sv].get("nullinit"):
            self.bad(call, "the save pointer of strtok_r must be a local initialised to NULL and never assigned")
        return "bind (strtok_r_c %s %s) (fun %s =>\n%s)" % (self.expr(args[0], env), self.expr(args[1], env), g, self.stmts(rest, env2))

    def strtol(self, call, g, env, env2, rest):
        args = call["inner"][1:]
        if len(args) != 3 or not self.save_arg(args[1], env):
            self.bad(call, "strtol(s, &end, base) with end a `char *` local")
        endn = self.strip(self.strip(args[1])["inner"][0])["referencedDecl"]["name"]
        ge = env[endn]["g"]
        env3 = dict(env2)
        env3[endn] = dict(env[endn], nullinit=False)
        self.fresh += 1
        r = "r_%d" % self.fresh
        return "bind (strtol_c %s %s) (fun %s =>\nlet %s := fst %s in\nlet %s := snd %s in\n%s)" % (
            self.expr(args[0], env), self.expr(args[2], env), r, g, r, ge, r, self.stmts(rest, env3))

    def walk(self, n):
        yield n
        for c in n.get("inner", []) or []:
            if isinstance(c, dict):
                for x in self.walk(c):
                    yield x

    def loop(self, s, rest, env):
        init, _, cond, inc, body = s["inner"]
        if not isinstance(init, dict) or init.get("kind") != "DeclStmt" or len(init["inner"]) != 1:
            self.bad(s, "loop header")
        v = init["inner"][0]
        name = v["name"]
        for x in self.walk(body):
            if x.get("kind") in ("BreakStmt", "ContinueStmt", "GotoStmt", "ForStmt", "WhileStmt"):
                self.bad(x, "inside a loop body")
            if x.get("kind") == "BinaryOperator" and x.get("opcode", "").endswith("=") and x.get("opcode") not in ("==", "!=", "<=", ">="):
                l = self.strip(x["inner"][0])
                if l.get("kind") == "DeclRefExpr" and l["referencedDecl"]["name"] == name:
                    self.bad(x, "the loop variable is assigned in the body")
            if x.get("kind") == "UnaryOperator" and x.get("opcode") in ("++", "--"):
                self.bad(x, "++/-- in a loop body")
        vin = [c for c in v.get("inner", []) if c.get("kind") != "FullComment"]
        c = self.strip(cond) if isinstance(cond, dict) else {}
        i0 = self.strip(vin[0]) if vin else {}
        # counted: for (int i = 0; i < K; i++)
        if self.qt(v) == "int" and i0.get("kind") == "IntegerLiteral" and i0.get("value") == "0":
            ok = c.get("kind") == "BinaryOperator" and c.get("opcode") == "<" and self.strip(c["inner"][0]).get("referencedDecl", {}).get("name") == name \
                and self.strip(c["inner"][1]).get("kind") == "IntegerLiteral"
            ok = ok and isinstance(inc, dict) and inc.get("kind") == "UnaryOperator" and inc.get("opcode") == "++" and \
                self.strip(inc["inner"][0]).get("referencedDecl", {}).get("name") == name
            if not ok:
                self.bad(s, "counted loop is not `for (int i = 0; i < <literal>; i++)`")
            kk = int(self.strip(c["inner"][1])["value"])
            if kk > MAX_UNROLL:
                self.bad(s, "loop bound %d too large to unroll" % kk)
            seq = []
            for j in range(kk):
                seq.append({"kind": "__seti", "name": name, "value": j})
                seq.append(body)
            # the loop variable goes out of scope after the loop: forget it
            return self.stmts(seq + [{"kind": "__forget", "name": name}] + rest, env) if False else self.stmts(seq + rest, env)
        # list walk: for (struct thread *t = e; t; t = t->gnext)
        if self.is_ptr(v) and vin:
            st = self.struct_of(v)
            okc = c.get("kind") == "DeclRefExpr" and c["referencedDecl"]["name"] == name
            i1 = inc if isinstance(inc, dict) else {}
            r = self.strip(i1["inner"][1]) if i1.get("kind") == "BinaryOperator" and i1.get("opcode") == "=" else {}
            oki = i1.get("kind") == "BinaryOperator" and self.strip(i1["inner"][0]).get("referencedDecl", {}).get("name") == name and \
                r.get("kind") == "MemberExpr" and r.get("isArrow") and r.get("name") == "gnext" and \
                self.strip(r["inner"][0]).get("referencedDecl", {}).get("name") == name
            if not (okc and oki):
                self.bad(s, "list loop is not `for (T *t = e; t; t = t->gnext)`")
            accs = []
            for x in self.walk(body):
                if x.get("kind") == "BinaryOperator" and x.get("opcode") == "=":
                    l = self.strip(x["inner"][0])
                    if l.get("kind") == "DeclRefExpr" and l["referencedDecl"]["name"] in env and l["referencedDecl"]["name"] not in accs:
                        accs.append(l["referencedDecl"]["name"])
            if len(accs) != 1 or env[accs[0]].get("kind") != "var":
                self.bad(s, "a list loop must assign exactly one local declared before it (the accumulator)")
            acc = accs[0]
            g = self.gname(name)
            ga = self.gname(acc)
            envb = dict(env)
            envb[name] = {"kind": "var", "g": g, "cty": self.qt(v)}
            envb[acc] = dict(env[acc], g=ga, const=None)
            bodyt = self.stmts([body, {"kind": "__retacc", "term": (lambda e: e[acc]["g"])}], envb)
            env2 = dict(env)
            env2[acc] = dict(env[acc], g=ga, const=None)
            return "bind (for_gnext_%s %s %s (fun %s %s =>\n%s)) (fun %s =>\n%s)" % (
                st, self.expr(vin[0], env), env[acc]["g"], g, ga, bodyt, ga, self.stmts(rest, env2))
        self.bad(s, "loop")

    # ------------------------------------------------------------ one function
    def function(self, d, ptypes):
        params = [c for c in d["inner"] if c["kind"] == "ParmVarDecl"]
        body = [c for c in d["inner"] if c["kind"] == "CompoundStmt"][0]
        rett = d["type"]["qualType"].split("(")[0].strip()
        if rett != "int":
            raise self.cg.Unsupported("UNSUPPORTED %s function %s: returns %s" % (self.relpath, self.fn, rett))
        env = {}
        plist = []
        for p in params:
            q = re.sub(r"\bconst\b", "", self.qt(p)).strip()
            q = re.sub(r"\s+", " ", q)
            g = self.gname(p["name"])
            if q == "int *":
                env[p["name"]] = {"kind": "outparam"}
                plist.append("(%s : unit)" % g)
            elif q in ptypes:
                env[p["name"]] = {"kind": "var", "g": g, "cty": q}
                plist.append("(%s : %s)" % (g, ptypes[q]))
            else:
                raise self.cg.Unsupported("UNSUPPORTED %s function %s: parameter of type %s" % (self.relpath, self.fn, q))
        term = self.stmts([body], env)
        sig = d["type"]["qualType"].replace("*", "ptr")
        return "(* %s: %s %s *)\nDefinition %s %s : M Z :=\n%s.\n" % (self.relpath, self.fn, sig, self.fn, " ".join(plist), indent(term))


def indent(term):
    out = []
    depth = 1
    for line in term.split("\n"):
        out.append("  " * max(depth - (1 if line.startswith(")") else 0), 0) + line)
        depth += line.count("(") - line.count(")")
        if depth < 1:
            depth = 1
    return "\n".join(out)


def gen(work):
    cg = G.cg
    inc, ver = G.ovni_h_dir(work)
    path = os.path.join(G.REPO, "src/emu/model.c")
    if not os.path.exists(path) or not os.path.exists(os.path.join(G.REPO, "src/include/version.h")):
        raise cg.Unsupported("UNSUPPORTED src/emu/model.c or src/include/version.h does not exist")
    tu = '#include "%s"\n' % path
    incs = G.incs(inc) + [os.path.dirname(path)]
    ptypes = PTYPES
    defs = []
    for rel, fn in (("src/include/version.h", "version_parse"), ("src/emu/model.c", "model_version_probe")):
        d = cg.clang_ast(tu, incs, fn, work)
        defs.append(T(cg, rel, fn, None).function(d, ptypes))
    text = (G.HEADER % "src/include/version.h (version_parse), src/emu/model.c (model_version_probe) (unit vparse)") + \
        "From Coq Require Import ZArith List Bool.\n" \
        "From OV Require Import Base.CInt Emu.VParsePre.\n" \
        "Import ListNotations.\nLocal Open Scope Z_scope.\n\n" + "\n".join(defs)
    return {"VParse_gen.v": text}
