"""Translator unit `emuloop`: the top-level SEQUENCING of the emulator.

Emits coq/Gen/EmuLoop_gen.v, statement by statement and in the order of the C, with the stage-C translator core
(_stagec.py, imported UNCHANGED), over the hand-written prelude coq/Emu/EmuLoopPre.v:

  src/emu/pv/prv.c    prv_advance, prv_close
  src/emu/pv/pvt.c    pvt_advance, pvt_close
  src/emu/recorder.c  recorder_advance, recorder_finish          (the walk over the PVTs: fold combinator for_hh_pvt)
  src/emu/model.c     model_event, model_connect, model_create, model_finish
                                                                 (the loop over the 256 model slots: fold combinator for_range)
  src/emu/emu.c       set_current, panic, emu_connect, emu_step, emu_finish, emu_init

Primitives (hand-written in EmuLoopPre.v with the meaning the existing models give them): player_step / player_ev /
player_stream (PlayerDefs.pstep), system_get_lpt, the models' hooks reached through the function pointers of
struct model_spec (call_event = EmuCoreDefs.core_step on DecodeDefs/MarkDefs.decode_all, or the BayDefs handler;
call_connect / call_create / call_finish), bay_propagate (the emission rule of EmuCoreDefs.step, or BayDefs.propagate,
followed by the PRV emit callbacks = PvDefs.rec_write), fseek / write_header / fclose, pcf_close, prf_close
(PvDefs), cfg_generate, emu_stat_*, and the callees of emu_init (emu_args_init, trace_load, system_init,
recorder_init, bay_init, system_connect, player_init, model_init, models_register, model_probe, model_create is
translated).  `G` (translate/gen.py) is injected by the plug-in loader.

Additions of this unit to the subset of the core (wrappers around GT.e_val / GT.stmts / GT.function, fail-closed like
the core; the shared core is not edited):
  1. functions with a three-way result (ZFUNCS: emu_step): `return 0` / `return +1` -> `ret 0` / `ret 1`,
     `return -1` -> `fail E_FAIL`; the definition has type M Z;
  2. `int x = f(..);` with f an int-valued primitive WITH side effects (ZPRIM: player_step; probe is not translated):
     `bind (f args) (fun x => rest)`;
  3. `if (f(..) != 0) { log; x = K; }` with f an int-status function, x an initialised int local, K a constant, no else
     (emu_finish, model_finish: remember the failure and go on):
     `bind (status (f ..)) (fun s_ => bind (eval (if s_ =? 0 then x else K)) (fun x => rest))`;
  3b. `if (f(..) != 0) { log; g(..); return -1; }` with g a translated procedure (panic):
     `bind (status (f ..)) (fun s_ => ite (s_ =? 0) (rest) (g ..; fail E_FAIL))`;
  4. `return x;` with x an int local, in an int-status function: `ite (x =? 0) (ret tt) (fail E_FAIL)`
     (refused unless every assignment to x in the function assigns 0 or -1);
  5. `for (int i = 0; i < K; i++) BODY` (K an integer constant, i not assigned in BODY):
     `bind (for_range 0 K ACC (fun i ACC => BODY')) (fun ACC => rest)` and
     `for (struct T *p = E; p; p = p->hh.next) BODY`: `bind (for_hh_T E ACC (fun p ACC => BODY')) (fun ACC => rest)`
     where ACC are the int locals declared before the loop and assigned inside it (a tuple; `tt` when there is none),
     BODY' is BODY translated with `continue` and the end of BODY = `ret ACC`; inside BODY only `return -1` is allowed
     (it leaves the function); `break` and any other `return` are refused;
  6. subscript of an array of pointers to a known struct, `p->a[i]`: `(ixp_<ptr type> (get_.. sx st p) i)`;
  7. `memset(p, 0, sizeof(*p))` with p a pointer parameter: the primitive `(zero_<struct> p)`;
  9. a call whose state-dependent argument needs no NULL check (`f(&p->a, p->b.c)` with p never NULL) is parenthesised
     (the core emits `bind_ bind (eval ..) ..`, which does not parse);
  8. a function used as a value / compared with NULL through a field of function-pointer type: the field type
     `emu_hook_t *` is the pointer type ptr_hook.
"""
import importlib.util
import os
import re

_spec = importlib.util.spec_from_file_location("ovni_verif_stagec_emuloop", os.path.join(os.path.dirname(os.path.abspath(__file__)), "_stagec.py"))
S = importlib.util.module_from_spec(_spec)
_spec.loader.exec_module(S)

UNITS = [
    ("src/emu/pv/prv.c", [("prv_advance", "action"), ("prv_close", "action")]),
    ("src/emu/pv/pvt.c", [("pvt_advance", "action"), ("pvt_close", "action")]),
    ("src/emu/recorder.c", [("recorder_advance", "action"), ("recorder_finish", "action")]),
    ("src/emu/model.c", [("model_event", "action"), ("model_connect", "action"), ("model_create", "action"), ("model_finish", "action")]),
    ("src/emu/emu.c", [("set_current", "action"), ("panic", "proc"), ("emu_connect", "action"), ("emu_step", "action"),
                       ("emu_finish", "action"), ("emu_init", "action")]),
]
if os.environ.get("EMULOOP_FUNCS"):
    keep = set(os.environ["EMULOOP_FUNCS"].split(","))
    UNITS = [(rel, [f for f in fns if f[0] in keep]) for rel, fns in UNITS]
    UNITS = [u for u in UNITS if u[1]]

ZFUNCS = {"emu_step"}
ZPRIM = {"player_step"}

_orig_e_val = S.GT.e_val
_orig_stmts = S.GT.stmts
_orig_function = S.GT.function


def _e_val(self, n, env):
    if n.get("kind") == "ArraySubscriptExpr":
        q = S._norm_ptr(S._qt(n))
        if q in S.PTR and self.ity(n) is None:
            base, idx = n["inner"]
            b, i = self.e_val(base, env), self.e_val(idx, env)
            return S.Val("(ixp_%s %s %s)" % (S.PTR[q][0], b.t, i.t), S.s_and(b.safe, i.safe), b.dep or i.dep)
    return _orig_e_val(self, n, env)


def _ret_const(self, r):
    c = self.ret_const(r)
    if c is not None:
        return c
    x = S._strip(r)
    if x.get("kind") == "UnaryOperator" and x.get("opcode") == "+":
        y = S._strip(x["inner"][0])
        if y.get("kind") == "IntegerLiteral":
            return int(y["value"])
    return None


def _strip_all(n):
    while n.get("kind") in ("ImplicitCastExpr", "ParenExpr"):
        n = n["inner"][0]
    return n


def _walk(n):
    yield n
    for c in n.get("inner", []) or []:
        if isinstance(c, dict):
            for x in _walk(c):
                yield x


def _assigned_locals(self, body, env):
    """int locals of env assigned (=, ++) inside body, in a fixed order"""
    names = []
    for x in _walk(body):
        t = None
        if x.get("kind") in ("BinaryOperator", "CompoundAssignOperator") and x.get("opcode") in ("=", "|=", "+=", "-="):
            t = S._strip(x["inner"][0])
        if x.get("kind") == "UnaryOperator" and x.get("opcode") in ("++", "--"):
            t = S._strip(x["inner"][0])
        if t is not None and t.get("kind") == "DeclRefExpr" and t.get("referencedDecl", {}).get("kind") in ("VarDecl", "ParmVarDecl"):
            nm = t["referencedDecl"]["name"]
            if nm in env and nm not in names:
                names.append(nm)
    return names


def _loop(self, s, rest, env, kind):
    parts = s["inner"]
    # clang: [init, condvar(empty), cond, inc, body]
    init, cond, inc, body = parts[0], parts[2], parts[3], parts[4]
    if kind != "action":
        self.bad(s, "loop in a function that is not an int-status function")
    if init.get("kind") != "DeclStmt" or len(init["inner"]) != 1 or init["inner"][0]["kind"] != "VarDecl":
        self.bad(s, "loop initialisation is not one declaration")
    vd = init["inner"][0]
    vname = vd["name"]
    vinit = [c for c in vd.get("inner", []) if c.get("kind") not in ("FullComment",)]
    if not vinit:
        self.bad(s, "loop variable without initialiser")
    if vname in env:
        self.bad(s, "loop variable shadows a local")
    for x in _walk(body):
        if x.get("kind") in ("BreakStmt", "GotoStmt", "ForStmt", "WhileStmt", "DoStmt") and not (x.get("kind") == "DoStmt" and self.macro_of(x)[0] in S.MACRO_IGNORED):
            self.bad(x, "statement not allowed inside a loop body")
        if x.get("kind") == "ReturnStmt":
            r = (x.get("inner") or [None])[0]
            if r is None or self.ret_const(r) != -1:
                self.bad(x, "a loop body may only leave the function with return -1")
    acc = _assigned_locals(self, body, env)
    if vname in _assigned_locals(self, body, dict(env, **{vname: {}})):
        self.bad(s, "loop variable assigned in the body")
    for a in acc:
        if self.ity({"type": {"qualType": env[a]["cty"]}}) is None or not env[a]["init"]:
            self.bad(s, "loop-carried local %s is not an initialised integer" % a)
    accg = [env[a]["g"] for a in acc]
    acct = "tt" if not accg else ("(%s)" % ", ".join(accg) if len(accg) > 1 else accg[0])
    accp = "_" if not accg else ("'(%s)" % ", ".join(accg) if len(accg) > 1 else accg[0])
    g = self.gname(vname)
    env2 = dict(env)
    env2[vname] = {"g": g, "cty": S._qt(vd), "init": True}
    self.loop_acc = getattr(self, "loop_acc", []) + [acct]
    bodyt = self.stmts([body, {"kind": "ContinueStmt", "synthetic": True}], env2, kind)
    self.loop_acc.pop()
    ci = S._strip(cond)
    it = S._strip(inc)
    pre_safe = None
    if self.ity(vd) is not None:
        # for (int i = 0; i < K; i++)
        lo = S._strip(vinit[0])
        if lo.get("kind") != "IntegerLiteral":
            self.bad(s, "loop lower bound is not a constant")
        if ci.get("kind") != "BinaryOperator" or ci.get("opcode") != "<":
            self.bad(s, "loop condition is not i < K")
        a, b = (S._strip(x) for x in ci["inner"])
        if a.get("kind") != "DeclRefExpr" or a["referencedDecl"]["name"] != vname or b.get("kind") != "IntegerLiteral":
            self.bad(s, "loop condition is not i < K with K a constant")
        if it.get("kind") != "UnaryOperator" or it.get("opcode") != "++" or S._strip(it["inner"][0]).get("referencedDecl", {}).get("name") != vname:
            self.bad(s, "loop increment is not i++")
        head = "for_range (%s) (%s) %s (fun %s %s =>" % (lo["value"], b["value"], acct, g, accp)
    else:
        # for (struct T *p = E; p; p = p->hh.next)
        st = S._struct_of(S._qt(vd))
        if st is None or S._norm_ptr(S._qt(vd)) not in S.PTR:
            self.bad(s, "loop variable type")
        e0 = self.e_val(vinit[0], env)
        if ci.get("kind") != "DeclRefExpr" or ci["referencedDecl"]["name"] != vname:
            self.bad(s, "loop condition is not the loop pointer")
        ok = it.get("kind") == "BinaryOperator" and it.get("opcode") == "="
        if ok:
            l, r = S._strip(it["inner"][0]), it["inner"][1]
            while r.get("kind") in ("ImplicitCastExpr", "ParenExpr") and r.get("castKind") in (None, "LValueToRValue", "NoOp", "BitCast"):
                r = r["inner"][0]       # hh.next is a void *
            root, chain = self.chain_of(r)
            ok = l.get("kind") == "DeclRefExpr" and l["referencedDecl"]["name"] == vname and \
                root.get("kind") == "DeclRefExpr" and root["referencedDecl"]["name"] == vname and \
                [(c[0], c[2]) for c in chain] == [("hh", True), ("next", False)]
        if not ok:
            self.bad(s, "loop increment is not p = p->hh.next")
        head = "for_hh_%s %s %s (fun %s %s =>" % (st, self.fn_of_state(e0.t), acct, g, accp)
        pre_safe = e0.safe
    env3 = dict(env)
    return self.needed(pre_safe, "bind (%s\n%s))\n(fun %s =>\n%s)" % (head, bodyt, accp, self.stmts(rest, env3, kind)))


def _stmts(self, ss, env, kind):
    self.cur_env_names = set(env)
    if ss:
        s, rest = ss[0], ss[1:]
        k = s["kind"]
        if k == "ContinueStmt":
            if not getattr(self, "loop_acc", None):
                self.bad(s, "continue outside a loop")
            return "ret %s" % self.loop_acc[-1]
        if k == "ForStmt":
            return _loop(self, s, rest, env, kind)
        if k == "ReturnStmt" and self.fn in ZFUNCS:
            r = (s.get("inner") or [None])[0]
            c = _ret_const(self, r) if r is not None else None
            if c == -1:
                return "fail E_FAIL"
            if c in (0, 1):
                return "ret (%d)" % c
            self.bad(s, "return value of a three-way function is not 0, +1 or -1")
        if k == "ReturnStmt" and kind == "action" and self.fn not in ZFUNCS:
            r = (s.get("inner") or [None])[0]
            x = S._strip(r) if r is not None else {}
            if x.get("kind") == "DeclRefExpr" and x["referencedDecl"]["kind"] == "VarDecl" and x["referencedDecl"]["name"] in env:
                nm = x["referencedDecl"]["name"]
                if nm not in getattr(self, "status_locals", set()):
                    self.bad(s, "return of a local that is not only ever assigned 0 or -1")
                v = self.var(x, env)
                return "ite (fun sx st => Z.eqb %s 0)\n(ret tt)\n(fail E_FAIL)" % v["g"]
        if k == "DeclStmt" and len(s["inner"]) == 1 and s["inner"][0]["kind"] == "VarDecl":
            vd = s["inner"][0]
            inits = [c for c in vd.get("inner", []) if c.get("kind") not in ("FullComment",)]
            if inits:
                rc = S._strip(inits[0])
                if rc.get("kind") == "CallExpr" and S._callee(rc) in ZPRIM:
                    if self.ity(vd) is None:
                        self.bad(s, "result of %s stored in a non-integer" % S._callee(rc))
                    g = self.gname(vd["name"])
                    args = [self.e_val(a, env) for a in rc["inner"][1:]]
                    call = self.bind_args(args, lambda ts: "(%s %s)" % (S._callee(rc), " ".join(ts)))
                    env2 = dict(env)
                    env2[vd["name"]] = {"g": g, "cty": S._qt(vd), "init": True}
                    return "bind %s (fun %s =>\n%s)" % (call, g, self.stmts(rest, env2, kind))
        if k == "CallExpr" and S._callee(s) == "memset":
            a = s["inner"][1:]
            p, z, sz = _strip_all(a[0]), _strip_all(a[1]), _strip_all(a[2])
            ok = p.get("kind") == "DeclRefExpr" and p["referencedDecl"]["kind"] == "ParmVarDecl" and \
                z.get("kind") == "IntegerLiteral" and z.get("value") == "0" and sz.get("kind") == "UnaryExprOrTypeTraitExpr" and sz.get("name") == "sizeof"
            if ok:
                inner = sz.get("inner")
                if inner:
                    d = _strip_all(inner[0])
                    ok = d.get("kind") == "UnaryOperator" and d.get("opcode") == "*" and \
                        _strip_all(d["inner"][0]).get("referencedDecl", {}).get("name") == p["referencedDecl"]["name"]
                else:
                    ok = S._norm_struct(sz.get("argType", {}).get("qualType", "")) == S._norm_struct(re.sub(r"\*\s*$", "", S._qt(p)))
            if not ok:
                self.bad(s, "memset that is not memset(p, 0, sizeof(*p)) on a parameter")
            st = S._struct_of(S._qt(p))
            v = self.var(p, env)
            return "bind_ (zero_%s %s)\n(%s)" % (st, v["g"], self.stmts(rest, env, kind))
        if k == "IfStmt":
            parts = list(s["inner"])
            if len(parts) == 2:
                call = self.status_cond(parts[0])
                if call is not None and not self.is_fail_block(parts[1], kind) and self.terminates(parts[1]):
                    # if (f(..) != 0) { log; g(..); return -1; }  (g a procedure: panic): the block runs on failure
                    return "bind (status (%s)) (fun s_ =>\nite (fun sx st => Z.eqb s_ 0)\n(%s)\n(%s))" % (
                        self.call_action(call, env), self.stmts(rest, env, kind), self.stmts([parts[1]], env, kind))
                if call is not None and not self.is_fail_block(parts[1], kind):
                    then = parts[1]
                    body = then.get("inner", []) if then["kind"] == "CompoundStmt" else [then]
                    body = [x for x in body if x["kind"] != "NullStmt"]
                    logs, last = body[:-1], (body[-1] if body else None)
                    for x in logs:
                        if x["kind"] == "CallExpr" and S._callee(x) in S.LOG_CALLS:
                            self.pure_tree(x)
                            continue
                        if x["kind"] == "DoStmt" and self.macro_of(x)[0] in S.MACRO_IGNORED:
                            self.pure_tree(x)
                            continue
                        self.bad(s, "after a failing call only logging and one assignment of a constant to a local are allowed")
                    ok = last is not None and last.get("kind") == "BinaryOperator" and last.get("opcode") == "="
                    if ok:
                        t = S._strip(last["inner"][0])
                        kc = self.ret_const(last["inner"][1])
                        ok = t.get("kind") == "DeclRefExpr" and t["referencedDecl"]["kind"] == "VarDecl" and t["referencedDecl"]["name"] in env and kc is not None
                    if not ok:
                        self.bad(s, "after a failing call only logging and one assignment of a constant to a local are allowed")
                    nm = t["referencedDecl"]["name"]
                    old = self.var(t, env)
                    return "bind (status (%s)) (fun s_ =>\nbind (eval (fun sx st => if Z.eqb s_ 0 then %s else (%d))) (fun %s =>\n%s))" % (
                        self.call_action(call, env), old["g"], kc, old["g"], self.stmts(rest, env, kind))
    return _orig_stmts(self, ss, env, kind)


_orig_bind_args = S.GT.bind_args


def _bind_args(self, args, k):
    # the core leaves `bind (eval ..) (fun a =>\n call)` unparenthesised when no argument needs a NULL check; as the
    # operand of bind_ that does not parse
    t = _orig_bind_args(self, args, k)
    return "(%s)" % t if t.startswith("bind ") else t


def _function(self, fn, kind):
    # locals that only ever receive 0 or -1 (so that `return x` is an int status)
    self.fn = fn
    d = self.cg.clang_ast(self.tu_text, self.incs, fn, self.work)
    cand, bad = set(), set()
    for x in _walk(d):
        if x.get("kind") == "VarDecl" and self.ity(x) is not None:
            inits = [c for c in x.get("inner", []) if c.get("kind") not in ("FullComment",)]
            if inits and self.ret_const(inits[0]) in (0, -1):
                cand.add(x["name"])
            else:
                bad.add(x["name"])
        if x.get("kind") in ("BinaryOperator", "CompoundAssignOperator") and x.get("opcode", "").endswith("=") and x.get("opcode") not in ("==", "!=", "<=", ">="):
            t = S._strip(x["inner"][0])
            if t.get("kind") == "DeclRefExpr":
                if x.get("opcode") != "=" or self.ret_const(x["inner"][1]) not in (0, -1):
                    bad.add(t["referencedDecl"]["name"])
        if x.get("kind") == "UnaryOperator" and x.get("opcode") in ("++", "--", "&"):
            t = S._strip(x["inner"][0])
            if t.get("kind") == "DeclRefExpr":
                bad.add(t["referencedDecl"]["name"])
    self.status_locals = cand - bad
    self.loop_acc = []
    text = _orig_function(self, fn, kind)
    if fn in ZFUNCS:
        text, k = re.subn(r"(Definition %s [^\n]*): M unit :=" % re.escape(fn), r"\1: M Z :=", text)
        if k != 1:
            raise self.cg.Unsupported("UNSUPPORTED %s function %s: three-way function header" % (self.relpath, fn))
    return text


def gen(work):
    S.G = G
    S.GT.e_val = _e_val
    S.GT.stmts = _stmts
    S.GT.function = _function
    S.GT.bind_args = _bind_args
    S.SX_T, S.ST_T = "eenv", "estate"
    S.PTR = {
        "struct emu *": ("ptr_emu", False),
        "struct emu_ev *": ("ptr_ev", True),
        "struct stream *": ("ptr_stream", True),
        "struct lpt *": ("ptr_lpt", True),
        "struct loom *": ("ptr_loom", True),
        "struct proc *": ("ptr_proc", True),
        "struct thread *": ("ptr_thread", True),
        "struct player *": ("ptr_player", True),
        "struct model *": ("ptr_model", True),
        "struct model_spec *": ("ptr_spec", True),
        "struct recorder *": ("ptr_recorder", True),
        "struct pvt *": ("ptr_pvt", True),
        "struct prv *": ("ptr_prv", True),
        "struct pcf *": ("ptr_pcf", True),
        "struct prf *": ("ptr_prf", True),
        "struct bay *": ("ptr_bay", True),
        "struct emu_stat *": ("ptr_stat", True),
        "struct emu_args *": ("ptr_args", True),
        "struct trace *": ("ptr_trace", True),
        "struct system *": ("ptr_system", True),
        "FILE *": ("ptr_file", True),
        "emu_hook_t *": ("ptr_hook", True),
        "char * *": ("ptr_argv", True),
        "char *": ("ptr_str", True),
    }
    S.STRUCTS = {}
    S.NONNULL_LINK = set()
    S.PRIM_ACTION = {"call_event", "call_connect", "call_create", "call_finish", "bay_propagate", "pcf_close", "prf_close",
                     "cfg_generate", "trace_load", "system_init", "recorder_init", "system_connect", "player_init",
                     "models_register", "model_probe"}
    S.PRIM_VALUE = {"player_ev", "player_stream", "system_get_lpt"}
    S.PRIM_ALLOC = set()
    S.PRIM_PROC = {"fseek", "write_header", "fclose", "emu_stat_update", "emu_stat_report", "emu_stat_init",
                   "emu_args_init", "bay_init", "model_init"}
    S.OUT_ACTION = {}
    S.BYREF_READ = set()
    S.INDIRECT_CALLS = {"event": "call_event", "connect": "call_connect", "create": "call_create", "finish": "call_finish"}
    S.MACRO_PRIM = set()
    ctext, defs = S.translate_files(work, UNITS)
    text = (G.HEADER % "src/emu/emu.c, model.c, recorder.c, pv/pvt.c, pv/prv.c (unit emuloop)") + \
        "From Coq Require Import ZArith List Bool.\n" \
        "From OV Require Import Base.CInt Emu.EmuLoopPre.\n" \
        "Import ListNotations.\nLocal Open Scope Z_scope.\n\n" \
        "(* enum constants, evaluated by the compiler *)\n" + ctext + "\n" + "\n".join(defs)
    return {"EmuLoop_gen.v": text}
