"""Translator unit `footprint`: payload reads of the event handlers, with explicit bounds.

Emits coq/Gen/Foot_gen.v: the handlers below rendered with the stage-C core (_stagec.py) in HAVOC mode over
coq/Emu/FootPre.v: only the event is represented (model/category/value bytes, payload bytes, payload_size,
is_jumbo); a read `emu->ev->payload->arr[i]` is `rd_arr .. i` guarded by the in-bounds check `rd_ok_arr .. i`
(failure = E_OOB, distinct from a rejection and from a NULL dereference); every other object is opaque: its
fields and the results of untranslated callees are arbitrary (an oracle per syntactic site / per call).
An untranslated callee may receive the event only if it is a function of the same file whose body (and, transitively,
whatever it passes the event to) never mentions `payload`; its other arguments must not read the payload.

  src/emu/ovni/mark.c   mark_event
  src/emu/ovni/event.c  pre_thread_execute/end/pause/resume/cool/warm, pre_thread, pre_affinity_set,
                        pre_affinity_remote, pre_affinity, pre_cpu, model_ovni_event
  src/emu/nosv/event.c  create_task, update_task_state, update_task, pre_task, pre_type
  src/emu/nanos6/event.c  create_task, update_task_state, update_task, pre_task, pre_type
pre_type uses the payload-pointer forms of the core (PAYLOAD_PTRS): &payload->jumbo.data[i] is a byte offset,
memcpy(&local, p, sizeof local) and memchr(p, c, n) ==/!= NULL are explicit bounds-checked reads, and a payload
pointer handed to an untranslated callee requires a NUL at or after it inside the payload.
Second output coq/Gen/FootAll_gen.v (UNITS_ALL, same mode, per-file prefixes and constants): the dispatch code of the
other models: model_<m>_event, process_ev and, where present, simple() / context_switch() of nosv, nanos6, nodes, mpi,
tampi, openmp and kernel /event.c.  process_ev of nosv / nanos6 calls the pre_task / pre_type generated above; the
static tables ss_table / fn_table are arbitrary rows of FootPre.v (opq_row).  Foot_gen.v is not changed by it.
NOT covered: ev_spec.c print_arg, ovnidump, ovnisort's copies, parson.
`G` (translate/gen.py) is injected by the plug-in loader.
"""
import importlib.util
import os

_spec = importlib.util.spec_from_file_location("ovni_verif_stagec_foot", os.path.join(os.path.dirname(os.path.abspath(__file__)), "_stagec.py"))
S = importlib.util.module_from_spec(_spec)
_spec.loader.exec_module(S)

UNITS = [
    ("src/emu/ovni/mark.c", [("mark_event", "action")]),
    ("src/emu/ovni/event.c", [
        ("pre_thread_execute", "action"), ("pre_thread_end", "action"), ("pre_thread_pause", "action"),
        ("pre_thread_resume", "action"), ("pre_thread_cool", "action"), ("pre_thread_warm", "action"),
        ("pre_thread", "action"), ("pre_affinity_set", "action"), ("pre_affinity_remote", "action"),
        ("pre_affinity", "action"), ("pre_cpu", "action"), ("model_ovni_event", "action")]),
    ("src/emu/nosv/event.c", [
        ("create_task", "action"), ("update_task_state", "action"), ("update_task", "action"), ("pre_task", "action"),
        ("pre_type", "action")]),
    ("src/emu/nanos6/event.c", [
        ("create_task", "action"), ("update_task_state", "action"), ("update_task", "action"), ("pre_task", "action"),
        ("pre_type", "action")]),
]
PREFIX = {"src/emu/nosv/event.c": "nosv_", "src/emu/nanos6/event.c": "nanos6_"}
# second file, coq/Gen/FootAll_gen.v: the dispatch code of the other models and of nosv / nanos6 (the functions unit
# dispatch renders in normal mode), in havoc mode; pre_task / pre_type of nosv / nanos6 are the functions of Foot_gen.v
UNITS_ALL = [
    ("src/emu/nosv/event.c", [("simple", "action"), ("process_ev", "action"), ("model_nosv_event", "action")]),
    ("src/emu/nanos6/event.c", [("simple", "action"), ("process_ev", "action"), ("model_nanos6_event", "action")]),
    ("src/emu/nodes/event.c", [("simple", "action"), ("process_ev", "action"), ("model_nodes_event", "action")]),
    ("src/emu/mpi/event.c", [("process_ev", "action"), ("model_mpi_event", "action")]),
    ("src/emu/tampi/event.c", [("process_ev", "action"), ("model_tampi_event", "action")]),
    ("src/emu/openmp/event.c", [("process_ev", "action"), ("model_openmp_event", "action")]),
    ("src/emu/kernel/event.c", [("context_switch", "action"), ("process_ev", "action"), ("model_kernel_event", "action")]),
]
PREFIX_ALL = {"src/emu/%s/event.c" % m: m + "_" for m in ("nosv", "nanos6", "nodes", "mpi", "tampi", "openmp", "kernel")}


def gen(work):
    S.G = G
    S.HAVOC = True
    S.SX_T, S.ST_T = "oracle", "fstate"
    S.PTR = {"struct emu *": ("emu", False), "struct emu_ev *": ("ptr_emu_ev", False),
             "union ovni_ev_payload *": ("ptr_payload", True)}
    S.NONNULL_LINK = {("emu", "ev")}
    S.PRIM_ACTION = set()
    S.PRIM_VALUE = set()
    S.PRIM_ALLOC = set()
    S.MACRO_PRIM = set()
    S.SAFE_AND = "(cand %s %s)"
    S.SAFE_NN = "(cnn %s)"
    S.SAFE_IF_T = "(cift %s %s)"
    S.SAFE_IF_F = "(ciff %s %s)"
    S.LOG_ARG_CALLS = S.LOG_ARG_CALLS | {"task_get_id"}
    S.PAYLOAD_PTRS = {"uint8_t *", "char *"}
    ctext, defs = S.translate_files(work, UNITS, prefixes=PREFIX)
    text = (G.HEADER % "src/emu/ovni/event.c, ovni/mark.c, nosv/event.c, nanos6/event.c (unit footprint)") + \
        "From Coq Require Import ZArith List Bool.\n" \
        "From OV Require Import Base.CInt Emu.FootPre.\n" \
        "Import ListNotations.\nLocal Open Scope Z_scope.\n\n" \
        "(* enum constants, evaluated by the compiler *)\n" + ctext + "\n" + "\n".join(defs)
    # ---- the other models
    S.PRIM_ACTION = {"pre_task", "pre_type"}
    S.PREFIXED_PRIMS = {"pre_task", "pre_type"}
    S.PREFIX_CONSTS = True
    S.TABLES = {"ss_table", "fn_table"}
    ctext2, defs2 = S.translate_files(work, UNITS_ALL, prefixes=PREFIX_ALL)
    text2 = (G.HEADER % "src/emu/{nosv,nanos6,nodes,mpi,tampi,openmp,kernel}/event.c (unit footprint, dispatch code)") + \
        "From Coq Require Import ZArith List Bool.\n" \
        "From OV Require Import Base.CInt Emu.FootPre Gen.Foot_gen.\n" \
        "Import ListNotations.\nLocal Open Scope Z_scope.\n\n" \
        "(* enum constants, evaluated by the compiler *)\n" + ctext2 + "\n" + "\n".join(defs2)
    return {"Foot_gen.v": text, "FootAll_gen.v": text2}
