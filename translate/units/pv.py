"""T1 - dump by compilation, Paraver writer side: the constant text and tables that decide the bytes of the
.pcf/.row/.prv files.  Probe TUs #include the repo's own pv/pcf.c, model_pvt.c, thread.c, cpu.c and every
<model>/setup.c and print
  - pcf_def_header (string) and pcf_def_palette (array), MAX_PCF_LABEL, MAX_PRF_LABEL, the PRV flag bits;
  - pcf_suffix[] of model_pvt.c (label suffix per tracking mode);
  - thread.c / cpu.c: PRV type, flags, PCF name and value labels of the system channels, in enum order;
  - for each model, for the thread side and the CPU side: type, flags, tracking mode, label prefix and the
    value labels (with their text) of every channel, in channel order.
Output: coq/Gen/Pv_gen.v (plain Gallina lists of Z; strings are lists of byte values).

Fails closed: missing static names, a NULL prefix on a channel that has a PCF type, or a probe that does not
build make the unit raise Unsupported (broken tie).
"""
import os
import subprocess
import sys

MODELS = ["ovni", "nanos6", "nosv", "nodes", "tampi", "mpi", "kernel", "openmp"]

COMMON = r'''
#include <stdio.h>
static void pstr(const char *s) { if (!s) { printf("-"); return; } printf("="); for (; *s; s++) printf("%02x", (unsigned char) *s); }
'''

PROBE_PCF = r'''
#include "pv/pcf.c"
#include "pv/prf.h"
#include "pv/prv.h"
''' + COMMON + r'''
int main(void)
{
	printf("HEADER "); pstr(pcf_def_header); printf("\n");
	for (int i = 0; i < pcf_palette_len; i++) printf("COLOR %d %lu\n", i, (unsigned long) pcf_palette[i]);
	printf("CONST MAX_PCF_LABEL %d\n", (int) MAX_PCF_LABEL);
	printf("CONST MAX_PRF_LABEL %d\n", (int) MAX_PRF_LABEL);
	printf("CONST sizeof_pcf_label %d\n", (int) sizeof(((struct pcf_type *) 0)->label));
	printf("CONST sizeof_pcf_vlabel %d\n", (int) sizeof(((struct pcf_value *) 0)->label));
	printf("CONST sizeof_prf_label %d\n", (int) sizeof(((struct prf_row *) 0)->label));
	printf("CONST PRV_EMITDUP %d\n", (int) PRV_EMITDUP);
	printf("CONST PRV_SKIPDUP %d\n", (int) PRV_SKIPDUP);
	printf("CONST PRV_NEXT %d\n", (int) PRV_NEXT);
	printf("CONST PRV_ZERO %d\n", (int) PRV_ZERO);
	printf("CONST PRV_SKIPDUPNULL %d\n", (int) PRV_SKIPDUPNULL);
	return 0;
}
'''

PROBE_MPVT = r'''
#include "model_pvt.c"
''' + COMMON + r'''
int main(void)
{
	for (int i = 0; i < TRACK_TH_MAX; i++) { printf("SUFFIX %d ", i); pstr(pcf_suffix[i]); printf("\n"); }
	printf("CONST TRACK_TH_ANY %d\n", (int) TRACK_TH_ANY);
	printf("CONST TRACK_TH_RUN %d\n", (int) TRACK_TH_RUN);
	printf("CONST TRACK_TH_ACT %d\n", (int) TRACK_TH_ACT);
	return 0;
}
'''

PROBE_THREAD = r'''
#include "thread.c"
''' + COMMON + r'''
int main(void)
{
	for (int i = 0; i < TH_CHAN_MAX; i++) {
		printf("THSYS %d %d %ld ", i, chan_type[i], prv_flags[i]); pstr(pvt_name[i]); printf("\n");
		if (pcf_labels[i])
			for (const struct pcf_value_label *p = *pcf_labels[i]; p->label != NULL; p++) {
				printf("THLABEL %d %d ", i, p->value); pstr(p->label); printf("\n");
			}
	}
	printf("CONST TH_CHAN_CPU %d\n", (int) TH_CHAN_CPU);
	printf("CONST TH_CHAN_TID %d\n", (int) TH_CHAN_TID);
	printf("CONST TH_CHAN_STATE %d\n", (int) TH_CHAN_STATE);
	return 0;
}
'''

PROBE_CPU = r'''
#include "cpu.c"
''' + COMMON + r'''
int main(void)
{
	for (int i = 0; i < CPU_CHAN_MAX; i++) {
		printf("CPUSYS %d %d %ld ", i, chan_type[i], prv_flags[i]); pstr(pvt_name[i]); printf("\n");
	}
	return 0;
}
'''

PROBE_MODEL = r'''
#include "@DIR@/setup.c"
''' + COMMON + r'''
static void dump_spec(int side, const struct model_chan_spec *sp)
{
	for (int i = 0; i < sp->nch; i++) {
		printf("CHAN %d %d %d %d %ld %d ", (int) model_@DIR@.model, side, i, sp->pvt->type[i],
			sp->pvt->flags ? sp->pvt->flags[i] : 0L, sp->track[i]);
		pstr(sp->pvt->prefix ? sp->pvt->prefix[i] : NULL); printf("\n");
		if (sp->pvt->label && sp->pvt->label[i])
			for (const struct pcf_value_label *p = sp->pvt->label[i]; p->label != NULL; p++) {
				printf("LABEL %d %d %d %d ", (int) model_@DIR@.model, side, i, p->value); pstr(p->label); printf("\n");
			}
	}
}
int main(void)
{
	dump_spec(0, &th_chan);
	dump_spec(1, &cpu_chan);
	return 0;
}
'''


def unhex(tok):
    """'-' = NULL pointer -> None ; '=6162' -> 'ab'"""
    if tok == "-":
        return None
    return bytes.fromhex(tok[1:]).decode("latin1")


def zl(s):
    return "[" + "; ".join(str(ord(c)) for c in s) + "]"


def gen(work):
    cg = G.cg
    sys.path.insert(0, os.path.join(G.VERIF, "lib"))
    from vf import common
    build = common.repo_build("hook")

    def probe(name, src):
        p = os.path.join(work, "pvdump_%s.c" % name)
        exe = os.path.join(work, "pvdump_%s" % name)
        open(p, "w").write(src)
        cmd = ["cc", "-std=gnu11", "-w", "-O0", "-o", exe, p] + build.cflags_emu + build.libs_emu + ["-lm"]
        r = subprocess.run(cmd, stdout=subprocess.PIPE, stderr=subprocess.PIPE, text=True, timeout=300)
        if r.returncode != 0:
            raise cg.Unsupported("UNSUPPORTED pv probe %s does not build: %s" % (name, r.stderr[-600:]))
        r = subprocess.run([exe], stdout=subprocess.PIPE, text=True, timeout=60)
        if r.returncode != 0:
            raise cg.Unsupported("UNSUPPORTED pv probe %s exits %d" % (name, r.returncode))
        return [ln.split() for ln in r.stdout.split("\n") if ln.strip()]

    consts = {}
    header = None
    palette = []
    for f in probe("pcf", PROBE_PCF):
        if f[0] == "HEADER":
            header = unhex(f[1])
        elif f[0] == "COLOR":
            if int(f[1]) != len(palette):
                raise cg.Unsupported("UNSUPPORTED palette dump out of order")
            palette.append(int(f[2]))
        elif f[0] == "CONST":
            consts[f[1]] = int(f[2])
    if header is None or not palette:
        raise cg.Unsupported("UNSUPPORTED pv/pcf.c has no pcf_def_header / pcf_def_palette")
    if consts["sizeof_pcf_label"] != consts["MAX_PCF_LABEL"] or consts["sizeof_pcf_vlabel"] != consts["MAX_PCF_LABEL"] \
            or consts["sizeof_prf_label"] != consts["MAX_PRF_LABEL"]:
        raise cg.Unsupported("UNSUPPORTED label buffers are not MAX_PCF_LABEL / MAX_PRF_LABEL bytes")

    suffix = {}
    for f in probe("model_pvt", PROBE_MPVT):
        if f[0] == "SUFFIX":
            s = unhex(f[2])
            if s is None:
                raise cg.Unsupported("UNSUPPORTED pcf_suffix[%s] is NULL" % f[1])
            suffix[int(f[1])] = s
        elif f[0] == "CONST":
            consts[f[1]] = int(f[2])
    if sorted(suffix) != list(range(len(suffix))):
        raise cg.Unsupported("UNSUPPORTED pcf_suffix is not dense")

    thsys, thlab = [], {}
    for f in probe("thread", PROBE_THREAD):
        if f[0] == "THSYS":
            thsys.append((int(f[1]), int(f[2]), int(f[3]), unhex(f[4])))
        elif f[0] == "THLABEL":
            thlab.setdefault(int(f[1]), []).append((int(f[2]), unhex(f[3])))
        elif f[0] == "CONST":
            consts[f[1]] = int(f[2])
    cpusys = []
    for f in probe("cpu", PROBE_CPU):
        if f[0] == "CPUSYS":
            cpusys.append((int(f[1]), int(f[2]), int(f[3]), unhex(f[4])))
    for (i, ty, fl, name) in thsys + cpusys:
        if ty != -1 and name is None:
            raise cg.Unsupported("UNSUPPORTED system channel %d has PRV type %d and no PCF name" % (i, ty))

    chans, labels = [], {}
    for d in MODELS:
        if not os.path.exists(os.path.join(G.REPO, "src", "emu", d, "setup.c")):
            raise cg.Unsupported("UNSUPPORTED src/emu/%s/setup.c is missing" % d)
        for f in probe(d, PROBE_MODEL.replace("@DIR@", d)):
            if f[0] == "CHAN":
                m, side, i, ty, fl, tr = (int(x) for x in f[1:7])
                pre = unhex(f[7])
                if ty != -1 and pre is None:
                    raise cg.Unsupported("UNSUPPORTED %s channel %d has a PRV type and a NULL label prefix" % (d, i))
                if tr not in suffix:
                    raise cg.Unsupported("UNSUPPORTED %s channel %d: tracking mode %d has no pcf_suffix" % (d, i, tr))
                chans.append((m, side, i, ty, fl, tr, pre or ""))
            elif f[0] == "LABEL":
                m, side, i, v = (int(x) for x in f[1:5])
                labels.setdefault((m, side, i), []).append((v, unhex(f[5])))

    def labs(l):
        return "[" + "; ".join("(%d, %s)" % (v, zl(s)) for (v, s) in l) + "]"

    o = [G.HEADER % "src/emu/pv/pcf.c, pv/prf.h, pv/prv.h, model_pvt.c, thread.c, cpu.c, */setup.c (dumped by compiling the sources)",
         "From Coq Require Import ZArith List.\nImport ListNotations.\nLocal Open Scope Z_scope.\n",
         "(* pcf_def_header, byte for byte *)",
         "Definition pcf_def_header : list Z :=\n  %s.\n" % zl(header),
         "(* pcf_def_palette: 0xRRGGBB per state colour *)",
         "Definition pcf_palette : list Z :=\n  [%s].\n" % "; ".join(str(c) for c in palette)]
    for k in ("MAX_PCF_LABEL", "MAX_PRF_LABEL", "PRV_EMITDUP", "PRV_SKIPDUP", "PRV_NEXT", "PRV_ZERO", "PRV_SKIPDUPNULL",
              "TRACK_TH_ANY", "TRACK_TH_RUN", "TRACK_TH_ACT", "TH_CHAN_CPU", "TH_CHAN_TID", "TH_CHAN_STATE"):
        o.append("Definition c_%s : Z := %d." % (k, consts[k]))
    o.append("\n(* model_pvt.c pcf_suffix[track mode] *)")
    o.append("Definition pcf_suffix : list (list Z) :=\n  [%s].\n" % ";\n   ".join(zl(suffix[i]) for i in range(len(suffix))))
    o.append("(* thread.c, per TH_CHAN in enum order: (PRV type, PRV flags, PCF name, value labels) *)")
    o.append("Definition th_sys : list (Z * Z * list Z * list (Z * list Z)) :=\n  [%s].\n" % ";\n   ".join(
        "(%d, %d, %s, %s)" % (ty, fl, zl(name or ""), labs(thlab.get(i, []))) for (i, ty, fl, name) in thsys))
    o.append("(* cpu.c, per CPU_CHAN in enum order: (PRV type or -1 = not written, PRV flags, PCF name) *)")
    o.append("Definition cpu_sys : list (Z * Z * list Z) :=\n  [%s].\n" % ";\n   ".join(
        "(%d, %d, %s)" % (ty, fl, zl(name or "")) for (i, ty, fl, name) in cpusys))
    o.append("(* model channels: (model id, CPU side, channel index, PRV type, PRV flags, tracking mode, PCF label prefix, value labels) *)")
    o.append("Definition pv_chans : list (Z * bool * Z * Z * Z * Z * list Z * list (Z * list Z)) :=\n  [%s].\n" % ";\n   ".join(
        "(%d, %s, %d, %d, %d, %d, %s,\n    %s)" % (m, "true" if side else "false", i, ty, fl, tr, zl(pre), labs(labels.get((m, side, i), [])))
        for (m, side, i, ty, fl, tr, pre) in chans))
    return {"Pv_gen.v": "\n".join(o)}
