"""Translator unit `loader`: the event-size functions of src/rt/ovni.c over the loader's byte-buffer view.

Emits coq/Gen/Loader_gen.v:
  * get_jumbo_payload_size / ovni_payload_size / ovni_ev_size translated from the C AST
    (same functions as unit `codec`, but over Emu/LoaderPre.v's accessors: an event is a
    position in a byte buffer, so the functions read the flags byte and the jumbo size field
    of whatever bytes are there);
  * the constants the stream model needs, evaluated by the compiler (sizes of the two headers,
    the jumbo flag, stream version, metadata version, the magic bytes);
  * a layout lemma: the byte offsets used by the hand-written accessors of Emu/LoaderPre.v are
    the offsets the compiler gives the fields (the file stops compiling if the struct changes).
`G` (translate/gen.py) is injected by the plug-in loader.
"""
import os

FIELDS = {
    "off_flags": "__builtin_offsetof(struct ovni_ev, header.flags)",
    "off_model": "__builtin_offsetof(struct ovni_ev, header.model)",
    "off_category": "__builtin_offsetof(struct ovni_ev, header.category)",
    "off_value": "__builtin_offsetof(struct ovni_ev, header.value)",
    "off_clock": "__builtin_offsetof(struct ovni_ev, header.clock)",
    "off_payload": "__builtin_offsetof(struct ovni_ev, payload)",
    "off_jumbo_size": "__builtin_offsetof(struct ovni_ev, payload.jumbo.size)",
    "off_jumbo_data": "__builtin_offsetof(struct ovni_ev, payload.jumbo.data)",
    "off_magic": "__builtin_offsetof(struct ovni_stream_header, magic)",
    "off_version": "__builtin_offsetof(struct ovni_stream_header, version)",
    "sizeof_clock": "sizeof(((struct ovni_ev *)0)->header.clock)",
    "sizeof_flags": "sizeof(((struct ovni_ev *)0)->header.flags)",
    "sizeof_jumbo_size": "sizeof(((struct ovni_ev *)0)->payload.jumbo.size)",
    "sizeof_version": "sizeof(((struct ovni_stream_header *)0)->version)",
    "sizeof_magic": "sizeof(((struct ovni_stream_header *)0)->magic)",
    "little_endian": "(__BYTE_ORDER__ == __ORDER_LITTLE_ENDIAN__)",
}


def tu_text():
    return '#include "%s"\n' % os.path.join(G.REPO, "src", "rt", "ovni.c")


def gen(work):
    cg = G.cg
    inc, ver = G.ovni_h_dir(work)
    tu = tu_text()
    tr = cg.Translator(G.incs(inc), tu, work)
    tr.function("get_jumbo_payload_size")
    tr.function("ovni_payload_size")
    tr.function("ovni_ev_size")
    tr.consts["OVNI_EV_JUMBO"] = None
    tr.sizeofs["struct ovni_ev_header"] = None
    tr.sizeofs["struct ovni_stream_header"] = None
    tr.sizeofs["union ovni_ev_payload"] = None
    consts = tr.resolve()
    macros = G.probe_macros(work, tu, G.incs(inc), ["OVNI_STREAM_VERSION", "OVNI_METADATA_VERSION"])
    # the magic string, byte by byte (the compiler evaluates OVNI_STREAM_MAGIC[i])
    mvals = cg.probe_consts(tu, G.incs(inc), {"magic_len": "sizeof(OVNI_STREAM_MAGIC) - 1",
                                                "magic0": "OVNI_STREAM_MAGIC[0]", "magic1": "OVNI_STREAM_MAGIC[1]",
                                                "magic2": "OVNI_STREAM_MAGIC[2]", "magic3": "OVNI_STREAM_MAGIC[3]"}, work)
    if mvals["magic_len"] != 4:
        raise cg.Unsupported("UNSUPPORTED OVNI_STREAM_MAGIC is not 4 characters long")
    magic = "Definition c_OVNI_STREAM_MAGIC : list Z := [%d; %d; %d; %d].\n" % (
        mvals["magic0"] & 255, mvals["magic1"] & 255, mvals["magic2"] & 255, mvals["magic3"] & 255)
    lay = cg.probe_consts(tu, G.incs(inc), dict(FIELDS), work)
    laydefs = "".join("Definition c_%s : Z := (%d).\n" % (k, lay[k]) for k in sorted(lay))
    # what Emu/LoaderPre.v hard-wires; proved equal to the compiler's layout
    layout = (
        "\n(* the accessors of Emu/LoaderPre.v use these byte offsets and widths (little endian) *)\n"
        "Lemma layout_matches_prelude :\n"
        "  [c_off_flags; c_off_model; c_off_category; c_off_value; c_off_clock; c_sizeof_clock;\n"
        "   c_off_jumbo_size; c_sizeof_jumbo_size; c_off_jumbo_data; c_off_payload; c_sizeof_flags;\n"
        "   c_off_magic; c_sizeof_magic; c_off_version; c_sizeof_version; c_little_endian] =\n"
        "  [pre_off_flags; pre_off_model; pre_off_category; pre_off_value; pre_off_clock; pre_sizeof_clock;\n"
        "   pre_off_jumbo_size; pre_sizeof_jumbo_size; pre_off_jumbo_data; pre_off_payload; 1;\n"
        "   pre_off_magic; pre_sizeof_magic; pre_off_version; pre_sizeof_version; 1].\n"
        "Proof. reflexivity. Qed.\n")
    text = (G.HEADER % "src/rt/ovni.c, include/ovni.h.in (unit loader)") + \
        "From OV Require Import Base.CInt Emu.LoaderPre.\nLocal Open Scope Z_scope.\n\n" + \
        consts + macros + magic + laydefs + layout + "\n" + "\n".join(tr.out)
    return {"Loader_gen.v": text}
