"""Translator unit `rtbuf`: the event buffer of the tracing runtime, src/rt/ovni.c.

Emits coq/Gen/RtBuf_gen.v: flush_evbuf, ovni_clock_now, ovni_ev_set_clock, ovni_ev_get_clock, ovni_ev_set_mcv,
ovni_payload_add, add_flush_events, ovni_ev_add, ovni_ev_add_jumbo, ovni_flush, ovni_ev_jumbo_emit, ovni_ev_emit,
ovni_mark_push, ovni_mark_pop, ovni_mark_set -- statement by statement and in C order, with the stage-C translator core
(_stagec.py, imported UNCHANGED), over the hand-written prelude coq/Rt/RtBufPre.v.  The file is translated as the
compiler sees it WITHOUT -DOVNI_VERIF: OVNI_MAX_EV_BUF is the constant of ovni.h; every expression that is the
expansion of that macro is rendered `(e_cap sx)` (the constant's NAME), its value is emitted separately as
`c_OVNI_MAX_EV_BUF`, so that the theorems are about every capacity.  `G` (translate/gen.py) is injected by the loader.

Primitives (hand-written in RtBufPre.v, they stand for untranslated C):
  write_evbuf(buf, size)      the do/while loop around write(2): "write all `size` bytes or die" (short writes and
                              errors are the subject of C10); a loop is outside the subset of the core
  memcpy(dst, src, n)         on the three kinds of byte locations the functions use (evbuf+off, ev->payload.u8+off,
                              read-only data) and `struct ovni_ev *` as a source (= CodecDefs.struct_bytes: packed,
                              little endian); out-of-bounds accesses are the error E_TRAP
  clock_monotonic_now()       clock_gettime + tv_sec * 1e9 + tv_nsec: the next value of the clock input stream
  vdie(...)  (macro die)      the error outcome E_DIE; nothing after it is translated (noreturn)
  new_ovni_ev                 `struct ovni_ev x = {0};` : a fresh zeroed event in the event store
  ovni_payload_size, ovni_ev_size   the translations in Gen/Codec_gen.v (unit codec), applied to the stored event
  atomic_load(&rproc.st)      an input of the environment (e_proc_st)

Additions of this unit to the subset of the core (wrappers around GT.e_val / GT.stmts / GT.terminates / GT.function and
a rewriting pass over the clang AST; all fail closed with UNSUPPORTED file:line like the core):
  1. the globals `rthread`, `rproc` and local `struct ovni_ev` variables are addressable objects: `x.f` is rewritten to
     `(&x)->f` and `&x` to the handle x; any other use of such a variable is refused;
  2. `struct ovni_ev x = {0};` (all-zero initialiser only) = `bind new_ovni_ev (fun x => ...)`;
  3. `atomic_load(&rproc.st)` = a plain read of the field (value from the environment);
  4. string literals = the list of their bytes with the terminating 0; `sizeof` = a constant `k_sizeof_<type>` evaluated
     by the compiler; the macro OVNI_MAX_EV_BUF = `(e_cap sx)`;
  5. `(uint8_t *) &x` with x an integer local/parameter = `(bytes_of_<type> x)`, a READ-ONLY location holding the object
     representation of x (little endian); implicit conversions to `void *` = `void_of_<ptr type>`;
  6. `die(...)` = `fail E_DIE` (arguments checked side-effect free);
  7. a call of ovni_clock_now() as an argument of a call statement whose other arguments are state independent is bound
     first: `bind ovni_clock_now (fun now1_ => ...)`; `return f();` in ovni_clock_now itself;
  8. compound assignments `p->f |= e`, `p->f += e`, `x += e` with C's conversions;
  9. constant propagation for `int x = <literal>; ... x = <literal>; ... if (x)`: on a path where the last assignment to
     the local x was an integer literal, `if (x)` takes the corresponding branch only (the paths are already separate in
     the core's rendering of `if`).  Without it `uint64_t t0, t1;` assigned under `if (full)` and read under
     `if (flushed)` is refused by the core ("may be read before it is assigned");
 10. recursion: the only cycle allowed in the call graph is ovni_ev_add -> add_flush_events -> ovni_ev_add.
     add_flush_events gets the callee as a parameter, ovni_ev_add becomes a Fixpoint on explicit fuel (E_NOFUEL when it
     runs out), every function that reaches the cycle gets the fuel as its first parameter.
"""
import copy
import importlib.util
import os
import re

_spec = importlib.util.spec_from_file_location("ovni_verif_stagec_rtbuf", os.path.join(os.path.dirname(os.path.abspath(__file__)), "_stagec.py"))
S = importlib.util.module_from_spec(_spec)
_spec.loader.exec_module(S)

REL = "src/rt/ovni.c"
# emission order = dependency order (checked against the call graph)
FUNCS = [("flush_evbuf", "proc"), ("ovni_clock_now", "alloc"), ("ovni_ev_set_clock", "proc"), ("ovni_ev_get_clock", "value"),
         ("ovni_ev_set_mcv", "proc"), ("ovni_payload_add", "proc"), ("add_flush_events", "proc"), ("ovni_ev_add", "proc"),
         ("ovni_ev_add_jumbo", "proc"), ("ovni_flush", "proc"), ("ovni_ev_jumbo_emit", "proc"), ("ovni_ev_emit", "proc"),
         ("ovni_mark_push", "proc"), ("ovni_mark_pop", "proc"), ("ovni_mark_set", "proc")]
EVALUE = {"ovni_clock_now"}                 # integer-valued functions with an effect (kind "alloc" for the core)
REC_FIX, REC_VIA = "ovni_ev_add", "add_flush_events"
ADDR_STRUCTS = {"struct ovni_ev": "ovni_ev"}                               # local variables of these types are objects
GLOBALS = {"rthread": "struct ovni_rthread", "rproc": "struct ovni_rproc"}  # addressable globals
CAP_MACRO = b"OVNI_MAX_EV_BUF"
DIE = {"vdie"}

_state = {"sizeofs": {}, "calls": {}, "tmp": 0, "src": None}


def _bad(gt, node, why):
    gt.bad(node, why)


# ------------------------------------------------------------------ AST rewriting
def _walk(n, f, parent=None, idx=None):
    if not isinstance(n, dict):
        return
    f(n, parent, idx)
    inner = n.get("inner")
    if inner:
        for i, c in enumerate(list(inner)):
            _walk(c, f, n, i)


def _macro_name(node, src):
    b = node.get("range", {}).get("begin", {})
    ex = b.get("expansionLoc")
    if not ex or ex.get("offset") is None or ex.get("tokLen") is None:
        return None
    return src[ex["offset"]:ex["offset"] + ex["tokLen"]]


def _rewrite(d, cgmod, fn):
    """addressable objects and atomic_load; records the callees of the function"""
    src = _state["src"]
    local_objs = set()

    def find_locals(n, p, i):
        if n.get("kind") == "VarDecl" and S._norm_struct(S._qt(n)) in ADDR_STRUCTS:
            local_objs.add(n["name"])
    _walk(d, find_locals)

    def is_obj_ref(n):
        if n.get("kind") != "DeclRefExpr":
            return None
        rd = n.get("referencedDecl", {})
        if rd.get("kind") != "VarDecl":
            return None
        nm = rd.get("name")
        q = S._norm_struct(S._qt(n))
        if nm in GLOBALS and q == GLOBALS[nm]:
            return q
        if nm in local_objs and q in ADDR_STRUCTS:
            return q
        return None

    def fail(n, why):
        loc = n.get("range", {}).get("begin", {})
        off = loc.get("offset") or loc.get("expansionLoc", {}).get("offset") or loc.get("spellingLoc", {}).get("offset")
        line = (src[:off].count(b"\n") + 1) if off is not None else "?"
        raise cgmod.Unsupported("UNSUPPORTED %s:%s function %s: %s" % (REL, line, fn, why))

    # atomic_load(&rproc.st): AtomicExpr [&obj.field, order] coming from the macro atomic_load
    def atomics(n, p, i):
        if n.get("kind") == "AtomicExpr":
            if _macro_name(n, src) != b"atomic_load" or len(n.get("inner", [])) != 2:
                fail(n, "atomic operation other than atomic_load(&x.f)")
            a = n["inner"][0]
            if a.get("kind") != "UnaryOperator" or a.get("opcode") != "&" or a["inner"][0].get("kind") != "MemberExpr":
                fail(n, "atomic_load of something that is not &x.f")
            m = a["inner"][0]
            if S._qt(n) != "int":
                fail(n, "atomic_load of a non-int")
            m["type"] = {"qualType": "int"}
            new = {"kind": "ImplicitCastExpr", "castKind": "LValueToRValue", "type": {"qualType": "int"},
                   "range": n.get("range", {}), "inner": [m]}
            p["inner"][i] = new
    _walk(d, atomics)

    consumed = set()

    def objs(n, p, i):
        k = n.get("kind")
        if k == "MemberExpr" and not n.get("isArrow"):
            b = n["inner"][0]
            q = is_obj_ref(b)
            if q:
                n["isArrow"] = True
                b["type"] = {"qualType": q + " *"}
                consumed.add(id(b))
        elif k == "UnaryOperator" and n.get("opcode") == "&":
            b = n["inner"][0]
            q = is_obj_ref(b)
            if q:
                b["type"] = {"qualType": q + " *"}
                consumed.add(id(b))
                p["inner"][i] = b
    _walk(d, objs)

    def leftovers(n, p, i):
        if n.get("kind") == "DeclRefExpr" and id(n) not in consumed and is_obj_ref(n):
            fail(n, "object %s used other than as x.f or &x" % n["referencedDecl"]["name"])
    _walk(d, leftovers)

    callees = set()

    def calls(n, p, i):
        if n.get("kind") == "CallExpr":
            c = S._callee(n)
            if c:
                callees.add(c)
    _walk(d, calls)
    _state["calls"][fn] = callees
    return d


class _CgProxy:
    def __init__(self, cgmod):
        self._cg = cgmod

    def __getattr__(self, k):
        return getattr(self._cg, k)

    def clang_ast(self, tu_text, incs, fn, workdir):
        d = self._cg.clang_ast(tu_text, incs, fn, workdir)
        return _rewrite(copy.deepcopy(d), self._cg, fn)


class _GProxy:
    def __init__(self, g):
        self._g = g
        self.cg = _CgProxy(g.cg)

    def __getattr__(self, k):
        return getattr(self._g, k)


# ------------------------------------------------------------------ expressions
_orig_e_val = S.GT.e_val


def _mangle(q):
    q = re.sub(r"\bconst\b", "", q).strip()
    return re.sub(r"\W+", "_", q).strip("_")


def _in_cap_macro(self, n):
    r = n.get("range", {})
    b, e = r.get("begin", {}), r.get("end", {})
    for loc in (b, e):
        ex = loc.get("expansionLoc")
        if not ex or ex.get("isMacroArgExpansion") or ex.get("offset") is None:
            return False
        if self.src[ex["offset"]:ex["offset"] + (ex.get("tokLen") or 0)] != CAP_MACRO:
            return False
    return b["expansionLoc"]["offset"] == e["expansionLoc"]["offset"]


def _e_val(self, n, env):
    k = n.get("kind")
    if k not in ("ImplicitCastExpr",) and _in_cap_macro(self, n):
        if self.ity(n) != "int64":
            self.bad(n, "OVNI_MAX_EV_BUF is not a long long constant any more")
        return S.Val("(e_cap sx)", None, True)
    if k == "StringLiteral":
        v = n.get("value", "")
        if not (v.startswith('"') and v.endswith('"')) or "\\" in v:
            self.bad(n, "string literal with escapes")
        bs = v[1:-1].encode("latin1")
        return S.Val("[%s]" % "; ".join("(%d)" % (b if b < 128 else b - 256) for b in bs + b"\0"))
    if k == "UnaryExprOrTypeTraitExpr":
        if n.get("name") != "sizeof":
            self.bad(n, "type trait " + str(n.get("name")))
        q = n.get("argType", {}).get("qualType") or S._qt(n["inner"][0])
        nm = "k_sizeof_" + _mangle(q)
        _state["sizeofs"][nm] = "sizeof(%s)" % re.sub(r"\bconst\b", "", q).strip()
        return S.Val(nm)
    if k in ("ImplicitCastExpr", "CStyleCastExpr") and n.get("castKind") == "BitCast":
        inner = n["inner"][0]
        dst = S._norm_ptr(S._qt(n))
        a = S._strip(inner)
        if dst == "uint8_t *" and a.get("kind") == "UnaryOperator" and a.get("opcode") == "&":
            v = S._strip(a["inner"][0])
            if v.get("kind") == "DeclRefExpr" and v["referencedDecl"]["kind"] in ("VarDecl", "ParmVarDecl") and self.ity(v) is not None:
                x = self.var(v, env)
                return S.Val("(bytes_of_%s %s)" % (self.ity(v), x["g"]))
            self.bad(n, "(uint8_t *) & of something that is not an integer local")
        if dst == "void *" and S._norm_ptr(S._qt(inner)) in S.PTR and not self.cg._is_null(n):
            x = self.e_val(inner, env)
            return S.Val("(void_of_%s %s)" % (S.PTR[S._norm_ptr(S._qt(inner))][0], x.t), x.safe, x.dep)
    return _orig_e_val(self, n, env)


# ------------------------------------------------------------------ statements
_orig_stmts = S.GT.stmts
_orig_terminates = S.GT.terminates
_orig_function = S.GT.function


def _is_die(s):
    return s.get("kind") == "CallExpr" and S._callee(s) in DIE


def _terminates(self, s):
    if _is_die(s):
        return True
    return _orig_terminates(self, s)


def _all_zero_init(n):
    k = n.get("kind")
    if k == "InitListExpr":
        return all(_all_zero_init(c) for c in n.get("inner", []))
    if k == "ImplicitValueInitExpr":
        return True
    if k == "ImplicitCastExpr":
        return _all_zero_init(n["inner"][0])
    return k == "IntegerLiteral" and n.get("value") == "0"


def _int_literal(n):
    n = S._strip(n)
    while n.get("kind") in ("ImplicitCastExpr",) and n.get("castKind") == "IntegralCast":
        n = S._strip(n["inner"][0])
    if n.get("kind") == "IntegerLiteral":
        return int(n["value"])
    return None


def _local_target(n):
    t = S._strip(n)
    if t.get("kind") == "DeclRefExpr" and t.get("referencedDecl", {}).get("kind") in ("VarDecl", "ParmVarDecl"):
        return t["referencedDecl"]["name"]
    return None


def _update_consts(self, s, env):
    """constant propagation: the table env['%const'] after the statement s (only what the wrapper can be sure of)"""
    consts = dict(env.get("%const", {}))
    k = s.get("kind")
    if k == "DeclStmt":
        for v in s.get("inner", []):
            if v.get("kind") != "VarDecl":
                continue
            consts.pop(v.get("name"), None)
            inits = [c for c in v.get("inner", []) if c.get("kind") not in ("FullComment",)]
            if inits and self.ity(v) is not None and _int_literal(inits[0]) is not None:
                consts[v["name"]] = _int_literal(inits[0])
    elif k in ("BinaryOperator", "CompoundAssignOperator") and s.get("opcode", "").endswith("="):
        nm = _local_target(s["inner"][0])
        if nm is not None:
            consts.pop(nm, None)
            if s["opcode"] == "=" and _int_literal(s["inner"][1]) is not None and self.ity(s["inner"][0]) is not None:
                consts[nm] = _int_literal(s["inner"][1])
    elif k == "UnaryOperator" and s.get("opcode") in ("++", "--"):
        nm = _local_target(s["inner"][0])
        if nm is not None:
            consts.pop(nm, None)
    elif k == "IfStmt":
        parts = s["inner"]
        if len(parts) == 2:
            then = parts[1]
            ss = then.get("inner", []) if then["kind"] == "CompoundStmt" else [then]
            ss = [x for x in ss if x["kind"] != "NullStmt"]
            if len(ss) == 1 and ss[0].get("kind") in ("BinaryOperator", "CompoundAssignOperator"):
                nm = _local_target(ss[0]["inner"][0])
                if nm is not None:
                    consts.pop(nm, None)     # `if (c) x = e;` is rendered by the core without passing here again
    if consts != env.get("%const", {}):
        env = dict(env)
        env["%const"] = consts
    return env


def _fresh(prefix):
    _state["tmp"] += 1
    return "%s%d_" % (prefix, _state["tmp"])


def _compound_value(self, s, lhs_val, rhs_val):
    op = s["opcode"][:-1]
    tbl = {"+": "Z.add", "-": "Z.sub", "|": "Z.lor", "&": "Z.land"}
    if op not in tbl:
        self.bad(s, "compound assignment " + s["opcode"])
    t_lhs = self.ity(s["inner"][0])
    cq = (s.get("computeResultType") or {}).get("qualType")
    t_comp = self.cg.INT_TYPES.get(re.sub(r"\bconst\b", "", cq or "").strip())
    if t_lhs is None or t_comp is None:
        self.bad(s, "compound assignment on non-integers")
    v = "(%s %s %s)" % (tbl[op], lhs_val, rhs_val)
    if t_comp.startswith("u") and op in ("+", "-"):
        v = "(cast_%s %s)" % (t_comp, v)
    if t_comp != t_lhs and not self.cg._widens(t_comp, t_lhs):
        v = "(cast_%s %s)" % (t_lhs, v)
    return v


def _stmts(self, ss, env, kind):
    self.cur_env_names = set(env)
    if ss and "%globals" not in env:
        env = dict(env)
        env["%globals"] = True
        for g, q in GLOBALS.items():
            if g in env:
                self.bad(ss[0], "a local named like the global " + g)
            env[g] = {"g": g, "cty": q + " *", "init": True}
    if not ss:
        return _orig_stmts(self, ss, env, kind)
    s, rest = ss[0], ss[1:]
    k = s.get("kind")
    # 6. die(...)
    if _is_die(s):
        self.pure_tree({"kind": "x", "inner": s["inner"][1:]})
        return "fail E_DIE"
    # 7b. `return f();` of an effectful integer function
    if kind == "evalue":
        if k == "CompoundStmt":
            return self.stmts(list(s.get("inner", [])) + rest, env, kind)
        if k == "ReturnStmt" and s.get("inner"):
            c = S._strip(s["inner"][0])
            if c.get("kind") == "CallExpr" and len(c["inner"]) == 1 and (S._callee(c) in S.PRIM_ALLOC or S._callee(c) in EVALUE):
                return S._callee(c)
        self.bad(s, "an effectful integer function must be `return f();`")
    # 2. struct ovni_ev x = {0};
    if k == "DeclStmt" and any(S._norm_struct(S._qt(v)) in ADDR_STRUCTS for v in s.get("inner", [])):
        env2 = dict(env)
        names = []
        for v in s["inner"]:
            q = S._norm_struct(S._qt(v))
            if v.get("kind") != "VarDecl" or q not in ADDR_STRUCTS:
                self.bad(s, "mixed declaration")
            inits = [c for c in v.get("inner", []) if c.get("kind") not in ("FullComment",)]
            if len(inits) != 1 or inits[0].get("kind") != "InitListExpr" or not _all_zero_init(inits[0]):
                self.bad(v, "a local %s must be initialised with {0}" % q)
            g = self.gname(v["name"])
            env2[v["name"]] = {"g": g, "cty": q + " *", "init": True}
            names.append((g, ADDR_STRUCTS[q]))
        body = self.stmts(rest, env2, kind)
        for g, st in reversed(names):
            body = "bind new_%s (fun %s =>\n%s)" % (st, g, body)
        return body
    # 9. constant propagation
    if k == "IfStmt":
        c = s["inner"][0]
        while c.get("kind") in ("ParenExpr", "ImplicitCastExpr") and c.get("castKind") in (None, "LValueToRValue", "IntegralToBoolean"):
            c = c["inner"][0]
        nm = _local_target(c) if c.get("kind") == "DeclRefExpr" else None
        if nm is not None and nm in env.get("%const", {}):
            parts = s["inner"]
            if env["%const"][nm] != 0:
                br = [parts[1]]
            else:
                br = [parts[2]] if len(parts) > 2 else []
            if br and self.terminates(br[0]):
                return self.stmts(br, env, kind)
            return self.stmts(br + rest, env, kind)
    env = _update_consts(self, s, env)
    # 7a. ovni_clock_now() as an argument of a call statement
    if k == "CallExpr":
        hits = [i for i, a in enumerate(s["inner"][1:]) if S._strip(a).get("kind") == "CallExpr" and S._callee(S._strip(a)) in EVALUE]
        if hits:
            if len(hits) > 1:
                self.bad(s, "two effectful calls among the arguments (unspecified order)")
            i = hits[0] + 1
            call = S._strip(s["inner"][i])
            if len(call["inner"]) != 1:
                self.bad(s, "effectful call with arguments inside an argument list")
            for j, a in enumerate(s["inner"][1:]):
                if j + 1 != i:
                    self.pure_tree(a)
                    if self.e_val(a, env).dep:
                        self.bad(s, "state-dependent argument beside an effectful call (unspecified order)")
            tmp = _fresh("now")
            env2 = dict(env)
            env2[tmp] = {"g": tmp, "cty": S._qt(call), "init": True}
            s2 = dict(s)
            s2["inner"] = list(s["inner"])
            s2["inner"][i] = {"kind": "DeclRefExpr", "type": {"qualType": S._qt(call)}, "range": call.get("range", {}),
                              "referencedDecl": {"kind": "VarDecl", "name": tmp}}
            return "bind %s (fun %s =>\n%s)" % (S._callee(call), tmp, self.stmts([s2] + rest, env2, kind))
    # call statement of a procedure: as the core renders it, with the (possibly multi-line) call parenthesised
    if k == "CallExpr" and (S._callee(s) in S.PRIM_PROC or self.kinds.get(S._callee(s)) == "proc"):
        name = S._callee(s)
        args = [self.e_val(a, env) for a in s["inner"][1:]]
        call = self.bind_args(args, lambda ts: "(%s %s)" % (name, " ".join(ts)) if ts else name)
        return "bind_ (%s)\n(%s)" % (call, self.stmts(rest, env, kind))
    # 8. compound assignments
    if k == "CompoundAssignOperator" and s.get("opcode") in ("+=", "-=", "|=", "&="):
        tgt, rhs = s["inner"]
        t = S._strip(tgt)
        r = self.e_val(rhs, env)
        if t.get("kind") == "MemberExpr":
            var, st, fields, safe = self.own_fields(t, env)
            cur = self.member(t, env)
            v = _compound_value(self, s, cur.t, r.t)
            return self.needed(S.s_and(cur.safe, r.safe), "bind_ (set_%s_%s %s %s)\n(%s)" % (
                st, "_".join(fields), var["g"], self.fn_of_state(v), self.stmts(rest, env, kind)))
        nm = _local_target(tgt)
        if nm is not None and s["opcode"] != "|=":
            old = self.var(t, env)
            v = _compound_value(self, s, old["g"], r.t)
            return self.needed(r.safe, "bind (eval %s) (fun %s =>\n%s)" % (self.fn_of_state(v), old["g"], self.stmts(rest, env, kind)))
    return _orig_stmts(self, ss, env, kind)


def _function(self, fn, kind):
    if fn in EVALUE:
        self.fn = fn
        d = self.cg.clang_ast(self.tu_text, self.incs, fn, self.work)
        if [c for c in d["inner"] if c["kind"] == "ParmVarDecl"]:
            raise self.cg.Unsupported("UNSUPPORTED %s function %s: parameters" % (self.relpath, fn))
        body = [c for c in d["inner"] if c["kind"] == "CompoundStmt"][0]
        if self.ity({"type": {"qualType": d["type"]["qualType"].split("(")[0].strip()}}) is None:
            raise self.cg.Unsupported("UNSUPPORTED %s function %s: does not return an integer" % (self.relpath, fn))
        term = self.stmts([body], {}, "evalue")
        head = "(* %s: %s %s *)\n" % (self.relpath, fn, d["type"]["qualType"].replace("*", "ptr"))
        return head + "Definition %s : M Z :=\n%s.\n" % (fn, S.indent(term))
    return _orig_function(self, fn, kind)


# ------------------------------------------------------------------ recursion on fuel
def _check_call_graph(cgmod):
    names = [f for f, _ in FUNCS]
    pos = {f: i for i, f in enumerate(names)}
    for f in names:
        for c in _state["calls"].get(f, ()):
            if c not in pos:
                continue
            if pos[c] < pos[f]:
                continue
            if f == REC_VIA and c == REC_FIX:
                continue
            raise cgmod.Unsupported("UNSUPPORTED %s function %s calls %s: recursion other than %s -> %s -> %s" % (
                REL, f, c, REC_FIX, REC_VIA, REC_FIX))
    if REC_VIA not in _state["calls"].get(REC_FIX, ()) or REC_FIX not in _state["calls"].get(REC_VIA, ()):
        raise cgmod.Unsupported("UNSUPPORTED %s: the cycle %s <-> %s is not there any more" % (REL, REC_FIX, REC_VIA))
    fuelled = {REC_FIX}
    changed = True
    while changed:
        changed = False
        for f in names:
            if f in fuelled or f == REC_VIA:
                continue
            if _state["calls"].get(f, set()) & (fuelled | {REC_VIA}):
                fuelled.add(f)
                changed = True
    return fuelled


def _add_fuel(defs, fuelled, cgmod):
    out = []
    for (fn, kind), d in zip(FUNCS, defs):
        body = d
        if fn == REC_VIA:
            body, k = re.subn(r"Definition %s " % fn, "Definition %s (%s : ptr_ovni_ev -> M unit) " % (fn, REC_FIX), body)
            if k != 1:
                raise cgmod.Unsupported("UNSUPPORTED %s: header of %s" % (REL, fn))
            out.append(body)
            continue
        if fn not in fuelled:
            out.append(body)
            continue
        for g in sorted(fuelled):
            body = re.sub(r"\(%s " % g, "(%s fuel_ " % g, body)
        body = re.sub(r"\(%s " % REC_VIA, "(%s (%s fuel_) " % (REC_VIA, REC_FIX), body)
        if fn == REC_FIX:
            m = re.search(r"Definition %s ((?:\([^)]*\) )*): M unit :=\n" % fn, body)
            if not m:
                raise cgmod.Unsupported("UNSUPPORTED %s: header of %s" % (REL, fn))
            head, term = body[:m.start()], body[m.end():]
            if not term.endswith(".\n"):
                raise cgmod.Unsupported("UNSUPPORTED %s: shape of %s" % (REL, fn))
            body = head + "Fixpoint %s (fuel : nat) %s{struct fuel} : M unit :=\n  match fuel with\n  | O => fail E_NOFUEL\n  | S fuel_ =>\n%s\n  end.\n" % (
                fn, m.group(1), term[:-2])
        else:
            body, k = re.subn(r"Definition %s " % fn, "Definition %s (fuel_ : nat) " % fn, body)
            if k != 1:
                raise cgmod.Unsupported("UNSUPPORTED %s: header of %s" % (REL, fn))
        out.append(body)
    return out


def gen(work):
    _state.update({"sizeofs": {}, "calls": {}, "tmp": 0})
    _state["src"] = open(os.path.join(G.REPO, REL), "rb").read()
    S.G = _GProxy(G)
    S.GT.e_val = _e_val
    S.GT.stmts = _stmts
    S.GT.terminates = _terminates
    S.GT.function = _function
    S.SX_T, S.ST_T = "renv", "rstate"
    S.PTR = {
        "struct ovni_ev *": ("ptr_ovni_ev", False),
        "struct ovni_rthread *": ("ptr_ovni_rthread", False),
        "struct ovni_rproc *": ("ptr_ovni_rproc", False),
        "uint8_t *": ("bptr", False),
        "char *": ("cstr", False),
        "void *": ("ptr_void", False),
    }
    S.STRUCTS = {}
    S.NONNULL_LINK = set()
    S.PRIM_ACTION = set()
    S.PRIM_VALUE = {"ovni_payload_size", "ovni_ev_size"}
    S.PRIM_ALLOC = {"clock_monotonic_now"}
    S.PRIM_PROC = {"write_evbuf", "memcpy"}
    S.OUT_ACTION = {}
    S.BYREF_READ = set()
    S.INDIRECT_CALLS = {}
    S.MACRO_PRIM = set()
    S.MACRO_IGNORED = set()
    S.LOG_CALLS = set()
    S.LOG_ARG_CALLS = {"__builtin_expect"}
    cgmod = G.cg
    ctext, defs = S.translate_files(work, [(REL, FUNCS)])
    fuelled = _check_call_graph(cgmod)
    defs = _add_fuel(defs, fuelled, cgmod)
    # constants: sizeof's met in the translated functions, the value of the capacity macro
    inc, ver = G.ovni_h_dir(work)
    path = os.path.join(G.REPO, REL)
    tu = '#include "%s"\n' % path
    incs = G.incs(inc) + [os.path.dirname(path)]
    exprs = dict(_state["sizeofs"])
    exprs["c_OVNI_MAX_EV_BUF"] = "OVNI_MAX_EV_BUF"
    vals = cgmod.probe_consts(tu, incs, exprs, work)
    ktext = "".join("Definition %s : Z := (%s).\n" % (k, vals[k]) for k in sorted(vals))
    text = (G.HEADER % "src/rt/ovni.c (unit rtbuf)") + \
        "From Coq Require Import ZArith List Bool.\n" \
        "From OV Require Import Base.CInt Rt.RtBufPre.\n" \
        "Import ListNotations.\nLocal Open Scope Z_scope.\n\n" \
        "(* constants evaluated by the compiler (the capacity appears in the functions as (e_cap sx)) *)\n" + ctext + ktext + \
        "\n(* functions that reach the recursion ovni_ev_add <-> add_flush_events carry fuel: %s *)\n\n" % ", ".join(sorted(fuelled)) + \
        "\n".join(defs)
    return {"RtBuf_gen.v": text}
