"""Translator unit `comparators`: the ordering functions of the emulator and of ovnisort.

Every order the properties talk about is decided by a small C comparator:

  loom.c    by_pid by_rank by_phyid      (processes of a loom, CPUs of a loom: C15, C13 row order)
  proc.c    by_tid                       (threads of a process)
  system.c  cmp_loom_rank cmp_loom_id    (looms by minimum rank / by name)
  trace.c   cmp_streams                  (stream enumeration order: C03)
  player.c  stream_cmp                   (the merge heap: C03)
  ovnisort.c cmp_ev                      (C16)
  sort.c    cmp_int64                    (breakdown rows: C20)

Each function is split in two parts:

  * the PRELUDE: the leading statements that only fetch the compared integers out of the objects
    (`int id1 = proc_get_pid(p1);`, `sa = heap_elem(a, struct stream, hh);`, casts of the qsort
    arguments ...).  They use pointers and accessors that are outside c2gallina's subset, so they
    are not translated: their source text (comments stripped, white space normalised) is emitted
    as a list of strings, and coq/Proofs/CmpProofs.v proves it equal to the text the model was
    written against - swapping p1 and p2, reading another field or changing a type breaks that
    proof obligation;
  * the CORE: the comparison itself (`if (id1 < id2) return -1; ...`), translated to Gallina by
    c2gallina over the integer locals the prelude declares.  CmpProofs.v proves each core equal to
    the three-way comparison (or its inverse, for the min-heap) the hand models use.

Anything outside this shape stops the translator (fail closed).
This file is the shared machinery; the units are cmp_meta (C15), cmp_player (C03), cmp_winsort (C16)
and cmp_sortmod (C20), one generated file each, so that a change to one comparator only touches the
property that depends on it.
"""
import os
import re

GROUPS = {
    "meta": [("loom.c", "by_pid"), ("loom.c", "by_rank"), ("loom.c", "by_phyid"), ("proc.c", "by_tid"),
             ("system.c", "cmp_loom_rank"), ("system.c", "cmp_loom_id")],
    "player": [("trace.c", "cmp_streams"), ("player.c", "stream_cmp")],
    "winsort": [("ovnisort.c", "cmp_ev")],
    "sortmod": [("sort.c", "cmp_int64")],
}


def _off(loc):
    """(offset, tokLen) of a clang JSON location; macro uses are taken where they are written"""
    if "expansionLoc" in loc:
        loc = loc["expansionLoc"]
    return loc.get("offset"), loc.get("tokLen", 0)


def _strip(text):
    text = re.sub(r"/\*.*?\*/", " ", text, flags=re.S)
    text = re.sub(r"//[^\n]*", " ", text)
    return re.sub(r"\s+", " ", text).strip().rstrip(";").strip()


def _src(node, data, cg):
    b, _ = _off(node["range"]["begin"])
    e, tl = _off(node["range"]["end"])
    if b is None or e is None or e < b:
        raise cg.Unsupported("UNSUPPORTED no source range for a %s" % node.get("kind"))
    end = e + tl
    # a statement that ends in a function-like macro use: the expansion location is the macro name only,
    # take its argument list too
    j = end
    while j < len(data) and data[j:j + 1] in (b" ", b"\t", b"\n"):
        j += 1
    if "expansionLoc" in node["range"]["end"] and data[j:j + 1] == b"(":
        depth = 0
        while j < len(data):
            c = data[j:j + 1]
            if c == b"(":
                depth += 1
            elif c == b")":
                depth -= 1
                if depth == 0:
                    end = j + 1
                    break
            j += 1
    return _strip(data[b:end].decode("utf-8", "replace"))


def _coqstr(s):
    return '"' + s.replace('"', '""') + '"'


def _translator(cg):
    class T(cg.Translator):
        def e_int(self, n, env):
            # `return +1;`
            if n.get("kind") == "UnaryOperator" and n.get("opcode") == "+":
                return self.e_int(n["inner"][0], env)
            return cg.Translator.e_int(self, n, env)
    return T


def one(G, cg, work, inc, rel, fn):
    path = os.path.join(G.REPO, "src", "emu", rel)
    if not os.path.exists(path):
        raise cg.Unsupported("UNSUPPORTED source file src/emu/%s is gone" % rel)
    data = open(path, "rb").read()
    tu = '#include "%s"\n' % path
    tr = _translator(cg)(G.incs(inc), tu, work)
    d = cg.clang_ast(tu, tr.incs, fn, work)
    params = [c for c in d["inner"] if c["kind"] == "ParmVarDecl"]
    body = [c for c in d["inner"] if c["kind"] == "CompoundStmt"][0]
    stmts = [s for s in body.get("inner", [])]
    k = 0
    while k < len(stmts) and stmts[k]["kind"] not in ("IfStmt", "ReturnStmt"):
        k += 1
    prelude, core = stmts[:k], stmts[k:]
    if not core:
        raise cg.Unsupported("UNSUPPORTED %s has no comparison part" % fn)
    # the integer locals of the prelude (in declaration order) are the parameters of the core
    env = {}
    plist = []
    texts = []
    for p in params:
        if cg.tyname(p) is not None:
            env[p["name"]] = p["name"]
            plist.append(p["name"])
    for s in prelude:
        if s["kind"] == "DeclStmt":
            for v in s["inner"]:
                if v["kind"] != "VarDecl":
                    raise cg.Unsupported("UNSUPPORTED declaration in the prelude of %s" % fn)
                if cg.tyname(v) is not None and "[" not in v["type"]["qualType"]:
                    env[v["name"]] = v["name"]
                    plist.append(v["name"])
        elif s["kind"] == "CallExpr":
            callee = s["inner"][0]
            while callee["kind"] in ("ImplicitCastExpr", "ParenExpr"):
                callee = callee["inner"][0]
            if callee.get("referencedDecl", {}).get("name") in cg.IGNORED_CALLS:
                continue
        elif s["kind"] not in ("BinaryOperator",):
            raise cg.Unsupported("UNSUPPORTED %s in the prelude of %s" % (s["kind"], fn))
        texts.append(_src(s, data, cg))
    # pointer parameters may appear in the core only through member chains (get_<field> p) or as
    # arguments of strcmp: they are passed through as opaque objects
    for p in params:
        if p["name"] not in env:
            env[p["name"]] = p["name"]
            if _mentions(core, p["name"]):
                plist.append(p["name"])
    ctx = {"fn": fn, "void": False, "ret": lambda x: x, "die": None}
    term = tr.stmts(core, env, ctx)
    sig = _strip(d["type"]["qualType"])
    ptxt = ", ".join("%s %s" % (_strip(p["type"]["qualType"]), p["name"]) for p in params)
    out = "(* from C function %s of src/emu/%s *)\n" % (fn, rel)
    out += "Definition %s_sig : string := %s.\n" % (fn, _coqstr("%s | %s" % (sig, ptxt)))
    out += "Definition %s_prelude : list string :=\n  [%s].\n" % (fn, ";\n   ".join(_coqstr(t) for t in texts))
    out += "Definition %s_core %s : Z :=\n  %s.\n" % (fn, " ".join(plist), term)
    return out, tr


def _mentions(nodes, name):
    for n in nodes:
        if isinstance(n, dict):
            if n.get("kind") == "DeclRefExpr" and n.get("referencedDecl", {}).get("name") == name:
                return True
            if _mentions(n.get("inner", []), name):
                return True
    return False


def gen_group(G, work, group):
    cg = G.cg
    inc, ver = G.ovni_h_dir(work)
    parts = []
    for rel, fn in GROUPS[group]:
        text, tr = one(G, cg, work, inc, rel, fn)
        parts.append(text)
        if tr.consts or tr.sizeofs:
            raise cg.Unsupported("UNSUPPORTED comparator %s uses constants %s" % (fn, sorted(tr.consts) + sorted(tr.sizeofs)))
    srcs = ", ".join(sorted({"src/emu/" + rel for rel, _ in GROUPS[group]}))
    text = (G.HEADER % ("%s (unit cmp_%s)" % (srcs, group))) + \
        "From Coq Require Import ZArith List String.\nFrom OV Require Import Base.CInt Emu.CmpPre.\n" \
        "Import ListNotations.\nLocal Open Scope Z_scope.\nLocal Open Scope string_scope.\n\n" + "\n".join(parts)
    return {"Cmp_%s_gen.v" % group: text}
