"""Translator unit `cmp_meta`: see _cmp.py (comparators translated from the C source, prelude text pinned)."""
import importlib.util
import os

_spec = importlib.util.spec_from_file_location("ovni_verif_cmp", os.path.join(os.path.dirname(os.path.abspath(__file__)), "_cmp.py"))
_cmp = importlib.util.module_from_spec(_spec)
_spec.loader.exec_module(_cmp)


def gen(work):
    return _cmp.gen_group(G, work, "meta")
