"""Translator unit `winsort`: the ring, the destination search and the sort plan of src/emu/ovnisort.c.

Emits coq/Gen/Winsort_gen.v: starts_unsorted_region, ends_unsorted_region, ring_reset, ring_add, ring_check,
find_destination and execute_sort_plan, statement by statement, with the stage-C translator core (_stagec.py, imported
UNCHANGED), over the hand-written prelude coq/Tools/WinsortPre.v (state = the stream file as the list of its events,
the ring, the sort plan; an event pointer is the index of the event in the file).
`G` (translate/gen.py) is injected by the plug-in loader.

Primitives (hand-written in WinsortPre.v with the meaning Tools/WinsortDefs.v gives them): find_min_clock (minimum
clock of [bad0, next)), sort_buf (stable sort by clock of the window into a scratch buffer; cmp_ev is tied by unit
cmp_winsort), write_stream (overwrite the file in place), rebuild_ring (re-index from `dirty`), malloc / free,
dbg()/err() logging (dropped), stream_ev (the event stream_step has just delivered: the environment of a step).
Also emitted: stream_winsort_body / stream_winsort_init, the body of the loop `while ((ret = stream_step(stream)) == 0)` of
stream_winsort as a function of the locals it carries (st, empty_regions, updated) and their initial values; the
translator checks on the AST the parameters, that there is exactly one while loop with exactly that header, that
ring_reset(r) and `struct sortplan sp` with sp.r = r precede it, that the carried locals are initialised with literals,
that nothing after the loop calls a translated function and that the function ends with `return 0` (refused otherwise);
`struct sortplan sp` stands for the one plan of the state (`sp.f = e` -> set_sortplan_f sp_local, `&sp` -> sp_local), the
char state is an integer; the loop itself is the hand-written fold WinsortPre.run_winsort over the delivered events.
Likewise stream_check (-c): stream_check_init (the declarations between the first stream_step and the loop),
stream_check_body and stream_check_end (what follows the status test after the loop), with the same header check and
the shape `int ret = stream_step(stream); if (ret < 0) fail; if (ret != 0) return 0;` checked on the AST.
Not translated: process_trace, count_events / index_events / write_events / cmp_ev (inside the primitives).

Additions of this unit to the subset of the core (wrappers around GT.e_val / GT.stmts / GT.function, fail-closed):
  1. `a = b = <literal>;`: the inner assignment, then the outer one with the same literal;
  2. `die(...)` (vdie): `fail E_DIE` after checking that the arguments have no side effect;
  3. `x % y` on integers: `(c_rem x y)`;
  4. `for (T i = e0; i != e1; i = e2) body` with e1, e2 free of side effects: `for_loop loop_fuel cond step body i0 carried`,
     the primitive bounded iteration of WinsortPre.v around the TRANSLATED condition, step and body; the locals assigned
     in the body are carried as a tuple; the end of the body is `ret (LCont carried)`, `return e` inside the body (only
     in integer-returning functions) is `ret (LRet e)`; the NULL checks of the loop header are required once, before the
     loop, whatever the loop variable (stronger than the C);
  5. kind `zfun`: a function returning an integer through the monad (find_destination: it can die), `return e` =
     `ret e`; `T x = f(..)` with f such a function binds its result;
  6. `p->arr[i]` with arr an array of event pointers: `(ix_ptr_ev arr i)`; `p->arr[i]->a.b`: the getter of the element;
  8. `if (f(..) < 0) { log; return -1; }` with f an int-status function of this unit: `bind_ (f ..) rest`;
  7. casts between struct ovni_ev *, uint8_t * and void * are the identity (one Gallina type); `(uintptr_t) p` is
     `(ptr_addr sx st p)`; `T *x = malloc(..)` binds the allocation primitive through the pointer cast.
"""
import importlib.util
import os
import re

_spec = importlib.util.spec_from_file_location("ovni_verif_stagec_winsort", os.path.join(os.path.dirname(os.path.abspath(__file__)), "_stagec.py"))
S = importlib.util.module_from_spec(_spec)
_spec.loader.exec_module(S)

ZFUNS = {"find_destination"}          # functions returning an integer through the monad (they can die)
UNITS = [("src/emu/ovnisort.c", [
    ("starts_unsorted_region", "value"), ("ends_unsorted_region", "value"),
    ("ring_reset", "proc"), ("ring_add", "proc"), ("ring_check", "proc"),
    ("find_destination", "zfun"), ("execute_sort_plan", "action")])]

_orig_e_val = S.GT.e_val
_orig_stmts = S.GT.stmts
_orig_function = S.GT.function
PTRCAST = {"void *", "uint8_t *", "struct ovni_ev *"}


def _unparen(n):
    while n.get("kind") == "ParenExpr":
        n = n["inner"][0]
    return n


STRUCT_LOCALS = {}        # name of a by-value struct local -> (struct name, Gallina constant designating it)


def _struct_local_member(self, t):
    """`sp.f` with sp a by-value struct local that stands for the one object of its type in the state: (struct, field, constant)"""
    if t.get("kind") == "MemberExpr" and not t.get("isArrow"):
        b = S._strip(t["inner"][0])
        if b.get("kind") == "DeclRefExpr" and b["referencedDecl"]["name"] in STRUCT_LOCALS:
            st, const = STRUCT_LOCALS[b["referencedDecl"]["name"]]
            return st, t["name"], const
    return None


def _e_val(self, n, env):
    k = n.get("kind")
    if k == "UnaryOperator" and n.get("opcode") == "&":
        b = S._strip(n["inner"][0])
        if b.get("kind") == "DeclRefExpr" and b["referencedDecl"]["name"] in STRUCT_LOCALS:
            return S.Val(STRUCT_LOCALS[b["referencedDecl"]["name"]][1])
    if k in ("ImplicitCastExpr", "CStyleCastExpr"):
        ck = n.get("castKind")
        inner = n["inner"][0]
        if ck == "BitCast" and S._norm_ptr(S._qt(n)) in PTRCAST and S._norm_ptr(S._qt(inner)) in PTRCAST and not self.cg._is_null(n):
            return self.e_val(inner, env)            # event pointers, byte pointers and void * are one Gallina type
        if ck == "PointerToIntegral" and S._norm_ptr(S._qt(inner)) in PTRCAST and self.ity(n) == "uint64":
            a = self.e_val(inner, env)
            return S.Val("(ptr_addr sx st %s)" % a.t, a.safe, True)
    if k == "BinaryOperator" and n.get("opcode") == "%":
        a, b = n["inner"]
        x, y = self.e_val(a, env), self.e_val(b, env)
        if self.ity(n) is None:
            self.bad(n, "% on non-integers")
        return S.Val("(c_rem %s %s)" % (x.t, y.t), S.s_and(x.safe, y.safe), x.dep or y.dep)
    if k == "MemberExpr":
        root, chain = self.chain_of(n)
        if root.get("kind") == "ArraySubscriptExpr" and chain and chain[0][2] and not any(c[2] for c in chain[1:]):
            # p->arr[i]->a.b : the element is a pointer to a struct
            pv = self.e_val(root, env)
            st = S._struct_of(S._qt(root))
            if st is None or (self.ity(n) is None and not S._is_ptr(n)):
                self.bad(n, "member of an array element of type " + S._qt(root))
            return S.Val("(get_%s_%s sx st %s)" % (st, "_".join(c[0] for c in chain), pv.t),
                         S.s_and(pv.safe, S.SAFE_NN % pv.t), True)
    return _orig_e_val(self, n, env)


def _assigned_locals(n, env, out):
    k = n.get("kind")
    if k in ("BinaryOperator", "CompoundAssignOperator") and n.get("opcode") in ("=", "+=", "-=", "|="):
        t = S._strip(n["inner"][0])
        if t.get("kind") == "DeclRefExpr" and t["referencedDecl"]["name"] in env and t["referencedDecl"]["name"] not in out:
            out.append(t["referencedDecl"]["name"])
    if k == "UnaryOperator" and n.get("opcode") in ("++", "--"):
        t = S._strip(n["inner"][0])
        if t.get("kind") == "DeclRefExpr" and t["referencedDecl"]["name"] in env and t["referencedDecl"]["name"] not in out:
            out.append(t["referencedDecl"]["name"])
    for c in n.get("inner", []) or []:
        if isinstance(c, dict):
            _assigned_locals(c, env, out)


def _tuple(names):
    return "tt" if not names else names[0] if len(names) == 1 else "(%s)" % ", ".join(names)


def _untuple(names, var, body):
    if not names:
        return body
    if len(names) == 1:
        return "let %s := %s in\n%s" % (names[0], var, body)
    return "let '%s := %s in\n%s" % (_tuple(names), var, body)


def _for_loop(self, s, rest, env, kind):
    """for (T i = e0; i != e1; i = e2) body   with e1, e2 free of side effects: the primitive bounded iteration
    `for_loop`, the body translated; locals assigned in the body are carried; `return e` inside the body leaves
    the function (LRet), the end of the body continues (LCont)"""
    init, _unused, cond, inc, body = s["inner"]
    if init.get("kind") != "DeclStmt" or len(init["inner"]) != 1 or init["inner"][0]["kind"] != "VarDecl":
        self.bad(s, "for: the init part is not one declaration")
    v = init["inner"][0]
    iname = v["name"]
    if self.ity(v) is None or not v.get("inner"):
        self.bad(s, "for: loop variable is not an initialised integer")
    e0 = self.e_val([c for c in v["inner"] if c.get("kind") != "FullComment"][0], env)
    ig = self.gname(iname)
    env2 = dict(env)
    env2[iname] = {"g": ig, "cty": S._qt(v), "init": True}
    c = _unparen(cond)
    if c.get("kind") != "BinaryOperator" or c.get("opcode") != "!=" or S._strip(c["inner"][0]).get("referencedDecl", {}).get("name") != iname:
        self.bad(s, "for: the condition is not `i != e`")
    self.pure_tree(cond)
    cb = self.e_bool(cond, env2)
    i2 = _unparen(inc)
    if i2.get("kind") != "BinaryOperator" or i2.get("opcode") != "=" or S._strip(i2["inner"][0]).get("referencedDecl", {}).get("name") != iname:
        self.bad(s, "for: the increment is not `i = e`")
    self.pure_tree(i2["inner"][1])
    nx = self.e_val(i2["inner"][1], env2)
    # safety of the loop header: every non-NULL requirement it contains must hold whatever the loop variable is
    # (stronger than the C, where a conditional operand is only evaluated on its branch); checked once before the loop
    hdr_safe = None
    for sf in (cb.safe, nx.safe):
        if sf is None:
            continue
        atoms = re.findall(r"\(negb \(is_null (\w+)\)\)", sf)
        rest_sf = re.sub(r"\(negb \(is_null \w+\)\)", "", sf)
        if not atoms or re.search(r"is_null|_safe|cin", rest_sf) or any(a == ig for a in atoms):
            self.bad(s, "for: the safety condition of the loop header is not a combination of `local pointer != NULL`")
        for a in dict.fromkeys(atoms):
            hdr_safe = S.s_and(hdr_safe, S.SAFE_NN % a)
    carried = []
    _assigned_locals(body, env, carried)
    if iname in carried:
        self.bad(s, "for: the loop variable is assigned in the body")
    for nm in carried:
        if not env[nm]["init"]:
            self.bad(s, "for: carried local %s is not initialised before the loop" % nm)
    cg = [env[nm]["g"] for nm in carried]
    self.loop_ctx = getattr(self, "loop_ctx", []) + [cg]
    try:
        bt = self.stmts([body], env2, kind)
    finally:
        self.loop_ctx = self.loop_ctx[:-1]
    if self.loop_ctx:
        self.bad(s, "nested for loops")
    early = "ret v_" if self.fn in ZFUNS else "fail E_TRAP"       # only functions returning an integer return from a loop
    after = self.stmts(rest, env, kind)
    term = "bind (eval %s) (fun i0_ =>\nbind (for_loop loop_fuel (fun %s sx st => %s) (fun %s sx st => %s)\n(fun %s c_ =>\n%s) i0_ %s) (fun r_ =>\nmatch r_ with\n| LRet v_ => %s\n| LCont c_ =>\n%s\nend))" % (
        self.fn_of_state(e0.t), ig, cb.t, ig, nx.t, ig, _untuple(cg, "c_", bt), _tuple(cg), early, _untuple(cg, "c_", after))
    return self.needed(S.s_and(e0.safe, hdr_safe), term)


def _is_die(s):
    return s.get("kind") == "CallExpr" and S._callee(s) == "vdie"


def _stmts(self, ss, env, kind):
    self.cur_env_names = set(env)
    ctx = getattr(self, "loop_ctx", [])
    if not ss and ctx:
        return "ret (LCont %s)" % _tuple(ctx[-1])
    if ss:
        s, rest = ss[0], ss[1:]
        k = s["kind"]
        if _is_die(s):
            for a in s["inner"][1:]:
                self.pure_tree(a)
            return "fail E_DIE"
        if k == "ForStmt" and not (hasattr(self, "macro_of") and self._is_list_loop(s)):
            return _for_loop(self, s, rest, env, kind)
        if k == "ReturnStmt" and self.fn in ZFUNS and s.get("inner"):
            v = self.e_val(s["inner"][0], env)
            if ctx:
                return self.needed(v.safe, "bind (eval %s) (fun v_ =>\nret (LRet v_))" % self.fn_of_state(v.t))
            return self.needed(v.safe, "bind (eval %s) (fun v_ =>\nret v_)" % self.fn_of_state(v.t))
        if k == "BinaryOperator" and s.get("opcode") == "=":
            sl = _struct_local_member(self, S._strip(s["inner"][0]))
            if sl is not None:
                v = self.e_val(s["inner"][1], env)
                return self.needed(v.safe, "bind_ (set_%s_%s %s %s)\n(%s)" % (sl[0], sl[1], sl[2], self.fn_of_state(v.t), self.stmts(rest, env, kind)))
        if k == "IfStmt" and len(s["inner"]) == 2:
            c = _unparen(s["inner"][0])
            if c.get("kind") == "BinaryOperator" and c.get("opcode") == "<":
                call, z = S._strip(c["inner"][0]), S._strip(c["inner"][1])
                if call.get("kind") == "CallExpr" and self.kinds.get(S._callee(call)) == "action" and z.get("kind") == "IntegerLiteral" and z.get("value") == "0":
                    # if (f(..) < 0) { log; return -1; }  with f an int-status function (0 / -1)
                    if not self.is_fail_block(s["inner"][1], kind):
                        self.bad(s, "a failing call must be followed by { log; return -1; } only")
                    return "bind_ %s\n(%s)" % (self.call_action(call, env), self.stmts(rest, env, kind))
        if k == "BinaryOperator" and s.get("opcode") == "=":
            tgt, rhs = s["inner"]
            r = S._strip(rhs)
            lit = r["inner"][1] if r.get("kind") == "BinaryOperator" and r.get("opcode") == "=" else None
            while lit is not None and lit.get("kind") in ("ImplicitCastExpr", "ParenExpr"):
                lit = lit["inner"][0]
            if lit is not None and lit.get("kind") == "IntegerLiteral":
                # a = b = <literal>;  the inner assignment first, then the outer one with the same literal
                outer = dict(s)
                outer["inner"] = [tgt, r["inner"][1]]
                return self.stmts([r, outer] + rest, env, kind)
        if k == "DeclStmt" and len(s["inner"]) == 1 and s["inner"][0]["kind"] == "VarDecl":
            v = s["inner"][0]
            inits = [c for c in v.get("inner", []) if c.get("kind") not in ("FullComment",)]
            if inits:
                call = inits[0]
                while call.get("kind") in ("ImplicitCastExpr", "ParenExpr", "CStyleCastExpr") and call.get("castKind") in (None, "NoOp", "IntegralCast"):
                    if call.get("castKind") == "IntegralCast" and not (self.ity(call) == self.ity(call["inner"][0])):
                        break
                    call = call["inner"][0]
                pc = inits[0]
                while pc.get("kind") in ("ImplicitCastExpr", "ParenExpr", "CStyleCastExpr") and (
                        pc.get("castKind") in (None, "NoOp") or (pc.get("castKind") == "BitCast" and S._norm_ptr(S._qt(pc)) in PTRCAST)):
                    pc = pc["inner"][0]
                if pc.get("kind") == "CallExpr" and S._callee(pc) in S.PRIM_ALLOC and S._norm_ptr(S._qt(v)) in PTRCAST:
                    g = self.gname(v["name"])
                    env2 = dict(env)
                    env2[v["name"]] = {"g": g, "cty": S._qt(v), "init": True}
                    return "bind %s (fun %s =>\n%s)" % (self.call_alloc(pc, env), g, self.stmts(rest, env2, kind))
                if call.get("kind") == "CallExpr" and S._callee(call) in ZFUNS:
                    if self.ity(v) != self.ity(call):
                        self.bad(s, "result of %s converted to %s" % (S._callee(call), S._qt(v)))
                    g = self.gname(v["name"])
                    env2 = dict(env)
                    env2[v["name"]] = {"g": g, "cty": S._qt(v), "init": True}
                    return "bind %s (fun %s =>\n%s)" % (self.call_alloc(call, env), g, self.stmts(rest, env2, kind))
    return _orig_stmts(self, ss, env, kind)


def _function(self, fn, kind):
    if kind != "zfun":
        return _orig_function(self, fn, kind)
    # a function returning an integer through the monad (it may die or fail): as the core's `action`, result type M Z
    self.fn = fn
    d = self.cg.clang_ast(self.tu_text, self.incs, fn, self.work)
    params = [c for c in d["inner"] if c["kind"] == "ParmVarDecl"]
    body = [c for c in d["inner"] if c["kind"] == "CompoundStmt"][0]
    rett = d["type"]["qualType"].split("(")[0].strip()
    if self.cg.INT_TYPES.get(rett) is None:
        raise self.cg.Unsupported("UNSUPPORTED %s function %s: integer function returns %s" % (self.relpath, fn, rett))
    env, plist = {}, []
    for p in params:
        g = self.gname(p["name"])
        env[p["name"]] = {"g": g, "cty": S._qt(p), "init": True}
        plist.append("(%s : %s)" % (g, self.gtype(p)))
    head = "(* %s: %s %s *)\n" % (self.relpath, fn, d["type"]["qualType"].replace("*", "ptr"))
    term = self.stmts([body], env, kind)
    return head + "Definition %s %s : M Z :=\n%s.\n" % (fn, " ".join(plist), S.indent(term))


def _is_list_loop(self, s):
    try:
        name, _ = self.macro_of(s)
    except Exception:
        return False
    return name in getattr(S, "LOOP_MACROS", ())


def _lit_of(n):
    while n.get("kind") in ("ImplicitCastExpr", "ParenExpr", "CStyleCastExpr"):
        n = n["inner"][0]
    if n.get("kind") in ("IntegerLiteral", "CharacterLiteral"):
        return int(n["value"])
    return None


def _winsort_body(work, kinds):
    """the per-event body of stream_winsort: the body of `while ((ret = stream_step(stream)) == 0)` as a function of
    the locals it carries (st, empty_regions, updated); `struct sortplan sp` stands for the one plan of the state"""
    cg = G.cg
    inc, ver = G.ovni_h_dir(work)
    rel = "src/emu/ovnisort.c"
    path = os.path.join(G.REPO, rel)
    tu = '#include "%s"\n' % path
    incs = G.incs(inc) + [os.path.dirname(path)]
    t = S.GT(cg, incs, rel, tu, work, dict(kinds))
    t.prefix, t.local_fns, t.fn = "", set(kinds), "stream_winsort"
    d = cg.clang_ast(tu, incs, "stream_winsort", work)

    def refuse(why):
        raise cg.Unsupported("UNSUPPORTED %s function stream_winsort: %s" % (rel, why))
    params = [c for c in d["inner"] if c["kind"] == "ParmVarDecl"]
    if [(p["name"], S._norm_ptr(S._qt(p))) for p in params] != [("stream", "struct stream *"), ("r", "struct ring *")]:
        refuse("parameters are not (struct stream *stream, struct ring *r)")
    body = [c for c in d["inner"] if c["kind"] == "CompoundStmt"][0]
    stmts = [x for x in body.get("inner", []) if x["kind"] != "NullStmt"]
    wi = [i for i, x in enumerate(stmts) if x["kind"] == "WhileStmt"]
    if len(wi) != 1:
        refuse("expected exactly one while loop")
    w = stmts[wi[0]]
    # header: while ((ret = stream_step(stream)) == 0)
    c = _unparen(w["inner"][0])
    ok = c.get("kind") == "BinaryOperator" and c.get("opcode") == "==" and _lit_of(c["inner"][1]) == 0
    if ok:
        a = _unparen(c["inner"][0])
        ok = a.get("kind") == "BinaryOperator" and a.get("opcode") == "=" and \
            S._strip(a["inner"][0]).get("referencedDecl", {}).get("name") == "ret"
        if ok:
            call = S._strip(a["inner"][1])
            ok = call.get("kind") == "CallExpr" and S._callee(call) == "stream_step" and len(call["inner"]) == 2 and \
                S._strip(call["inner"][1]).get("referencedDecl", {}).get("name") == "stream"
    if not ok:
        refuse("the loop header is not `while ((ret = stream_step(stream)) == 0)`")
    # prologue: the locals carried by the loop and their initial values; ring_reset(r); sp.r = r
    inits, calls, sp_fields = {}, [], {}
    for x in stmts[:wi[0]]:
        if x["kind"] == "DeclStmt":
            for v in x["inner"]:
                ii = [q for q in v.get("inner", []) if q.get("kind") != "FullComment"]
                inits[v["name"]] = (S._qt(v), ii[0] if ii else None)
        elif x["kind"] == "CallExpr":
            calls.append((S._callee(x), [S._strip(q).get("referencedDecl", {}).get("name") for q in x["inner"][1:]]))
        elif x["kind"] == "BinaryOperator" and x.get("opcode") == "=":
            tg = S._strip(x["inner"][0])
            if tg.get("kind") == "MemberExpr" and S._strip(tg["inner"][0]).get("referencedDecl", {}).get("name") == "sp":
                sp_fields[tg["name"]] = x["inner"][1]
    if ("ring_reset", ["r"]) not in calls:
        refuse("ring_reset(r) is not called before the loop")
    if inits.get("sp", ("",))[0] != "struct sortplan" or S._strip(sp_fields.get("r", {"kind": ""})).get("referencedDecl", {}).get("name") != "r":
        refuse("no `struct sortplan sp` with sp.r = r before the loop")
    carried = ["st", "empty_regions", "updated"]
    for nm, ty in (("st", "char"), ("empty_regions", "size_t"), ("updated", "size_t")):
        if inits.get(nm, ("", None))[0] != ty or inits[nm][1] is None or _lit_of(inits[nm][1]) is None:
            refuse("local %s is not a %s initialised with a literal before the loop" % (nm, ty))
    # epilogue: nothing after the loop touches the file or the ring (only the status / fdatasync / close)
    for x in stmts[wi[0] + 1:]:
        bad = []

        def walk(q):
            if q.get("kind") == "CallExpr" and S._callee(q) in kinds:
                bad.append(S._callee(q))
            for z in q.get("inner", []) or []:
                if isinstance(z, dict):
                    walk(z)
        walk(x)
        if bad:
            refuse("call of %s after the loop" % bad[0])
    last = stmts[-1]
    if last["kind"] != "ReturnStmt" or _lit_of(last["inner"][0]) != 0:
        refuse("the function does not end with `return 0`")
    env = {"stream": {"g": "stream", "cty": "struct stream *", "init": True},
           "r": {"g": "r", "cty": "struct ring *", "init": True}}
    for nm in carried:
        env[nm] = {"g": t.gname(nm), "cty": inits[nm][0], "init": True}
    STRUCT_LOCALS["sp"] = ("sortplan", "sp_local")
    cgn = [env[nm]["g"] for nm in carried]
    t.loop_ctx = [cgn]
    try:
        term = t.stmts([w["inner"][1]], env, "action")
    finally:
        t.loop_ctx = []
        STRUCT_LOCALS.clear()
    init_t = ", ".join(t.e_val(inits[nm][1], env).t for nm in carried)
    head = "(* %s: the body of `while ((ret = stream_step(stream)) == 0)` in stream_winsort, as a function of the carried locals (%s) *)\n" % (rel, ", ".join(carried))
    return head + "Definition stream_winsort_init : Z * Z * Z := (%s).\n" % init_t + \
        "Definition stream_winsort_body (stream : ptr_stream) (r : ptr_ring) (c_ : Z * Z * Z) : M (lres (Z * Z * Z)) :=\n%s.\n" % S.indent(
            _untuple(cgn, "c_", term))


def _while_header_ok(w):
    """`while ((ret = stream_step(stream)) == 0)`"""
    c = _unparen(w["inner"][0])
    if not (c.get("kind") == "BinaryOperator" and c.get("opcode") == "==" and _lit_of(c["inner"][1]) == 0):
        return False
    a = _unparen(c["inner"][0])
    if not (a.get("kind") == "BinaryOperator" and a.get("opcode") == "=" and S._strip(a["inner"][0]).get("referencedDecl", {}).get("name") == "ret"):
        return False
    call = S._strip(a["inner"][1])
    return call.get("kind") == "CallExpr" and S._callee(call) == "stream_step" and len(call["inner"]) == 2 and \
        S._strip(call["inner"][1]).get("referencedDecl", {}).get("name") == "stream"


def _is_ret_lt0_fail(t, x):
    """`if (ret < 0) { log; return -1; }`"""
    if x.get("kind") != "IfStmt" or len(x["inner"]) != 2:
        return False
    c = _unparen(x["inner"][0])
    return c.get("kind") == "BinaryOperator" and c.get("opcode") == "<" and \
        S._strip(c["inner"][0]).get("referencedDecl", {}).get("name") == "ret" and _lit_of(c["inner"][1]) == 0 and \
        t.is_fail_block(x["inner"][1], "action")


def _check_body(work, kinds):
    """stream_check (-c): the statements between the first stream_step and the loop (stream_check_init), the body of
    `while ((ret = stream_step(stream)) == 0)` (stream_check_body) and the statements after the status test that follows
    the loop (stream_check_end), as functions of the locals the loop carries"""
    cg = G.cg
    inc, ver = G.ovni_h_dir(work)
    rel = "src/emu/ovnisort.c"
    path = os.path.join(G.REPO, rel)
    tu = '#include "%s"\n' % path
    incs = G.incs(inc) + [os.path.dirname(path)]
    t = S.GT(cg, incs, rel, tu, work, dict(kinds))
    t.prefix, t.local_fns, t.fn = "", set(kinds), "stream_check"
    d = cg.clang_ast(tu, incs, "stream_check", work)

    def refuse(why):
        raise cg.Unsupported("UNSUPPORTED %s function stream_check: %s" % (rel, why))
    params = [c for c in d["inner"] if c["kind"] == "ParmVarDecl"]
    if [(p["name"], S._norm_ptr(S._qt(p))) for p in params] != [("stream", "struct stream *")]:
        refuse("parameters are not (struct stream *stream)")
    body = [c for c in d["inner"] if c["kind"] == "CompoundStmt"][0]
    stmts = [x for x in body.get("inner", []) if x["kind"] != "NullStmt"]
    wi = [i for i, x in enumerate(stmts) if x["kind"] == "WhileStmt"]
    if len(wi) != 1 or not _while_header_ok(stmts[wi[0]]):
        refuse("expected exactly one loop `while ((ret = stream_step(stream)) == 0)`")
    wi = wi[0]
    # int ret = stream_step(stream); if (ret < 0) fail; if (ret != 0) return 0;
    s0 = stmts[0]
    ok = s0["kind"] == "DeclStmt" and len(s0["inner"]) == 1 and s0["inner"][0].get("name") == "ret"
    if ok:
        call = S._strip([q for q in s0["inner"][0].get("inner", []) if q.get("kind") != "FullComment"][0])
        ok = call.get("kind") == "CallExpr" and S._callee(call) == "stream_step"
    if not ok or not _is_ret_lt0_fail(t, stmts[1]):
        refuse("does not start with `int ret = stream_step(stream); if (ret < 0) { log; return -1; }`")
    s2 = stmts[2]
    c2 = _unparen(s2["inner"][0]) if s2["kind"] == "IfStmt" and len(s2["inner"]) == 2 else {}
    r2 = s2["inner"][1] if c2 else {}
    r2 = r2["inner"][0] if r2.get("kind") == "CompoundStmt" and len(r2.get("inner", [])) == 1 else r2
    if not (c2.get("kind") == "BinaryOperator" and c2.get("opcode") == "!=" and S._strip(c2["inner"][0]).get("referencedDecl", {}).get("name") == "ret"
            and _lit_of(c2["inner"][1]) == 0 and r2.get("kind") == "ReturnStmt" and _lit_of(r2["inner"][0]) == 0):
        refuse("the third statement is not `if (ret != 0) return 0;`")
    if not _is_ret_lt0_fail(t, stmts[wi + 1]):
        refuse("the loop is not followed by `if (ret < 0) { log; return -1; }`")
    pre = stmts[3:wi]
    if any(x["kind"] != "DeclStmt" for x in pre):
        refuse("only declarations are expected between the first step and the loop")
    env0 = {"stream": {"g": "stream", "cty": "struct stream *", "init": True}}
    names = []
    envd = dict(env0)
    for x in pre:
        for v in x["inner"]:
            names.append(v["name"])
            envd[v["name"]] = {"g": t.gname(v["name"]), "cty": S._qt(v), "init": True, "_node": v}
    carried = []
    _assigned_locals(stmts[wi]["inner"][1], envd, carried)
    if "ret" in carried or any(nm not in names for nm in carried):
        refuse("the loop assigns a local that is not declared between the first step and the loop")
    cgn = [envd[nm]["g"] for nm in carried]
    tys = [t.gtype(envd[nm]["_node"]) for nm in carried]
    T = " * ".join(tys)
    t.loop_ctx = [cgn]
    try:
        init_term = t.stmts(pre, dict(env0), "action")
        body_term = t.stmts([stmts[wi]["inner"][1]], {k: v for k, v in envd.items()}, "action")
    finally:
        t.loop_ctx = []
    end_term = t.stmts(stmts[wi + 2:], {k: v for k, v in envd.items()}, "action")
    head = "(* %s: stream_check around its loop `while ((ret = stream_step(stream)) == 0)`; carried locals (%s) *)\n" % (rel, ", ".join(carried))
    return head + \
        "Definition stream_check_init (stream : ptr_stream) : M (lres (%s)) :=\n%s.\n" % (T, S.indent(init_term)) + \
        "Definition stream_check_body (stream : ptr_stream) (c_ : %s) : M (lres (%s)) :=\n%s.\n" % (T, T, S.indent(_untuple(cgn, "c_", body_term))) + \
        "Definition stream_check_end (c_ : %s) : M unit :=\n%s.\n" % (T, S.indent(_untuple(cgn, "c_", end_term)))


def gen(work):
    S.G = G
    S.GT.e_val = _e_val
    S.GT.stmts = _stmts
    S.GT.function = _function
    S.GT._is_list_loop = _is_list_loop
    S.SX_T, S.ST_T = "wenv", "wstate_c"
    S.PTR = {
        "struct ring *": ("ptr_ring", True),
        "struct stream *": ("ptr_stream", True),
        "struct sortplan *": ("ptr_sortplan", True),
        "struct ovni_ev *": ("ptr_ev", True),
        "struct ovni_ev * *": ("ptr_evarr", True),
        "uint8_t *": ("ptr_ev", True),
        "void *": ("ptr_ev", True),
    }
    S.STRUCTS = {"struct ovni_ev *": "ptr_ev"}
    S.NONNULL_LINK = set()
    S.PRIM_ACTION = set()
    S.PRIM_VALUE = {"find_min_clock", "stream_ev", "ovni_ev_get_clock"}
    S.PRIM_ALLOC = {"malloc"}
    S.PRIM_PROC = {"sort_buf", "write_stream", "rebuild_ring", "free"}
    S.OUT_ACTION = {}
    S.BYREF_READ = set()
    S.INDIRECT_CALLS = {}
    S.MACRO_PRIM = set()
    ctext, defs = S.translate_files(work, UNITS)
    defs.append(_winsort_body(work, dict((f, k) for _, fns in UNITS for f, k in fns)))
    defs.append(_check_body(work, dict((f, k) for _, fns in UNITS for f, k in fns)))
    text = (G.HEADER % "src/emu/ovnisort.c (unit winsort)") + \
        "From Coq Require Import ZArith List Bool.\n" \
        "From OV Require Import Base.CInt Tools.WinsortPre.\n" \
        "Import ListNotations.\nLocal Open Scope Z_scope.\n\n" \
        "(* enum constants, evaluated by the compiler *)\n" + ctext + "\n" + "\n".join(defs)
    return {"Winsort_gen.v": text}
