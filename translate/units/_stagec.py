"""Stage-C translator core (DESIGN.md section 4, T2 stage C), shared by the units guards, chan, prv, ...

Not a unit itself (leading underscore).  A unit loads this module privately (importlib), sets `G` (translate/gen.py)
and overrides the configuration globals below (pointer types, primitives, ...) before calling `translate_files`.
See guards.py for the description of the supported subset; everything outside it raises Unsupported naming
file:line (=> BROKEN-TIE), no statement is ever skipped silently.
"""

import json
import os
import re

# ---------------------------------------------------------------- what is translated

# primitives: hand-written in coq/Emu/GuardsPre.v
PRIM_ACTION = {"thread_set_state", "thread_set_cpu", "thread_unset_cpu", "thread_migrate_cpu",
               "cpu_add_thread", "cpu_remove_thread", "cpu_update",
               "pre_burst", "pre_cpu", "pre_flush", "mark_event"}
PRIM_VALUE = {"loom_get_cpu", "proc_find_thread", "loom_find_thread", "body_find"}
PRIM_ALLOC = {"body_create"}
MACRO_IGNORED = {"dbg"}
MACRO_PRIM = {"DL_PREPEND", "DL_DELETE"}
LOG_CALLS = {"verr"}
LOG_ARG_CALLS = {"verr", "__builtin_expect", "value_str", "body_get_state_name"}

# C pointer types -> (Gallina type, nullable?)
PTR = {
    "struct emu *": ("emu", False),
    "struct emu_ev *": ("ptr_emu_ev", False),
    "union ovni_ev_payload *": ("ptr_payload", True),
    "struct thread *": ("ptr_thread", True),
    "struct cpu *": ("ptr_cpu", True),
    "struct loom *": ("ptr_loom", False),
    "struct proc *": ("ptr_proc", False),
    "struct body *": ("ptr_body", True),
    "struct task *": ("ptr_task", True),
    "struct body_stack *": ("ptr_body_stack", True),
    "struct task_stack *": ("ptr_task_stack", True),
    "struct body_info *": ("ptr_body_info", True),
}
# pointer fields that are never NULL while a handler runs (assumption stated in GuardsPre.v)
NONNULL_LINK = {("emu", "ev"), ("emu", "thread"), ("emu", "loom"), ("emu", "proc")}
# shape of the safety terms (havoc mode uses a three-valued check: ok / NULL dereference / out-of-bounds read)
SAFE_AND = "(andb %s %s)"
SAFE_NN = "(negb (is_null %s))"
SAFE_IF_T = "(if %s then %s else true)"
SAFE_IF_F = "(if %s then true else %s)"
# havoc mode (unit footprint): only the event (struct emu / emu_ev / the payload union) is represented; every other
# object is opaque: reads of its fields and results of untranslated callees are arbitrary values `(opq_Z sx N)` /
# `(opq_ptr sx N)` chosen by an oracle per syntactic site, untranslated int-status callees are `(opq_action N)`.
# Payload reads p->payload->arr[i] become `(rd_<arr> sx st p i)` guarded by the in-bounds check `(rd_ok_<arr> sx st p i)`.
HAVOC = False
HAVOC_KEEP = {"emu", "emu_ev", "ovni_ev_payload"}
HAVOC_EVENT_PTRS = {"struct emu *", "struct emu_ev *", "union ovni_ev_payload *"}
SAFE_INB = "(cin %s)"
# the ONE loop form: `MACRO(p->head, el, next) body` over an intrusive list, body = assignments to locals / ++ / if,
# no break/continue/return/call/store; rendered as a fold_left over (list_<struct>_<head>_<next> sx st p)
LOOP_MACROS = {"DL_FOREACH2"}
# by-value struct types -> Gallina type
STRUCTS = {}
# value primitives whose pointer arguments are only read: `f(&x, p)` is translated as f(value of x, value at p)
BYREF_READ = set()
# calls through a function pointer stored in a field: field name -> (primitive name, kind)
INDIRECT_CALLS = {}
# void primitives (statements)
PRIM_PROC = set()
# int-status primitives with one output parameter: name -> index of the `&local` argument; `if (f(a, &x) != 0) {fail}`
# becomes `bind (f a) (fun x => ...)`
OUT_ACTION = {}
# int-status functions of the unit with one integer out parameter: {function: parameter}.  Rendered as M Z: the
# parameter disappears, `*p = e` binds the cell, `return 0` returns it (the cell must have been written).
OUT_FUNCS = {}
# footprint mode: C pointer types that designate a position inside the event payload (Gallina type pptr = byte offset).
# Such a pointer is only produced by &emu->ev->payload->a.b[i], p += n and casts between these types; it is only
# consumed by memcpy(&local, p, sizeof local), memchr(p, c, n) ==/!= NULL and as an argument of an untranslated callee
# (then the payload must hold a NUL at or after p: the callee may read the C string there, nothing else).
PAYLOAD_PTRS = set()
# static const int T[256][256][N] tables indexed by two uint8_t values: T[c][v] is the primitive (<prefix>T sx st c v),
# a row (list Z) that is only read through row[i]
TABLES = set()
# enum constants get the file prefix (units that translate several files with equally named, differently valued enums)
PREFIX_CONSTS = False
# primitive actions that are functions of the translated file itself (not translated here): they get the file prefix
PREFIXED_PRIMS = set()
# locals of these types are not represented: their initialisers must be free of side effects and dereferences, and
# they may only be mentioned by the condition of an `if` whose body is ignored logging only (that `if` is skipped)
GHOST_TYPES = set()
# {name: C expression}: offsetof() constants asked to the compiler
EXTRA_CONSTS = {}
GALLINA_KEYWORDS = {"ret", "bind", "bind_", "fail", "eval", "ite", "need", "exec", "status", "cand", "cnn", "cin","end", "in", "at", "as", "fun", "let", "match", "with", "if", "then", "else", "return", "type",
                    "Type", "Set", "Prop", "forall", "exists", "fix", "cofix", "struct", "where", "for", "using",
                    "sx", "st"}


def _strip(n):
    while n.get("kind") in ("ImplicitCastExpr", "ParenExpr") and n.get("castKind") in (None, "LValueToRValue", "NoOp", "FunctionToPointerDecay", "ArrayToPointerDecay"):
        n = n["inner"][0]
    return n


def _strip_casts(n):
    """through parentheses and pointer conversions (to void * / const): the expression that yields the pointer"""
    while n.get("kind") in ("ImplicitCastExpr", "ParenExpr", "CStyleCastExpr") and n.get("castKind") in (None, "LValueToRValue", "NoOp", "BitCast"):
        if n.get("castKind") == "LValueToRValue":
            break
        n = n["inner"][0]
    return n


def _qt(n):
    return n.get("type", {}).get("qualType", "")


def _norm_ptr(q):
    q = re.sub(r"\bconst\b", "", q)
    q = re.sub(r"\s+", " ", q).strip()
    q = re.sub(r"\s*\*$", " *", q)
    return q


def _norm_struct(q):
    return re.sub(r"\s+", " ", re.sub(r"\bconst\b", "", q)).strip()


def _struct_of(q):
    """'struct thread *' -> 'thread'; 'const union ovni_ev_payload *' -> 'ovni_ev_payload'"""
    q = _norm_ptr(q)
    if not q.endswith("*"):
        return None
    q = q[:-1].strip()
    q = re.sub(r"^(struct|union)\s+", "", q)
    if not re.match(r"^\w+$", q):
        return None
    return q


def _is_ptr(n):
    return _qt(n).strip().endswith("*") or _norm_ptr(_qt(n)) in PTR


def _callee(n):
    c = n["inner"][0]
    while c.get("kind") in ("ImplicitCastExpr", "ParenExpr"):
        c = c["inner"][0]
    if c.get("kind") == "MemberExpr" and c.get("name") in INDIRECT_CALLS:
        return INDIRECT_CALLS[c["name"]]     # call through a function pointer stored in a field: a primitive
    return c.get("referencedDecl", {}).get("name")


def _indirect_holder(n):
    """for a call p->cb(args): the expression p"""
    c = n["inner"][0]
    while c.get("kind") in ("ImplicitCastExpr", "ParenExpr"):
        c = c["inner"][0]
    if c.get("kind") == "MemberExpr" and c.get("name") in INDIRECT_CALLS:
        return c["inner"][0]
    return None


class Val:
    """a translated expression: Gallina term, its safety condition (None = no dereference of a nullable
    pointer), whether it depends on the state (mentions sx/st)"""

    def __init__(self, t, safe=None, dep=False, pp=False):
        self.t, self.safe, self.dep = t, safe, dep
        self.pp = pp     # the value is a position inside the event payload (footprint mode)


def s_and(a, b):
    if a is None:
        return b
    if b is None:
        return a
    return SAFE_AND % (a, b)


class GT:
    def __init__(self, cg, incs, relpath, tu_text, work, kinds):
        self.cg = cg
        self.incs = incs
        self.relpath = relpath
        self.path = os.path.join(G.REPO, relpath)
        self.src = open(self.path, "rb").read()
        self.tu_text = tu_text
        self.work = work
        self.kinds = kinds          # name -> kind for ALL translated functions of all files
        self.consts = {}
        self.fn = None

    # ------------------------------------------------------------ errors
    def bad(self, node, why):
        loc = node.get("range", {}).get("begin", {}) if isinstance(node, dict) else {}
        line = loc.get("line") or loc.get("expansionLoc", {}).get("line") or loc.get("spellingLoc", {}).get("line")
        if line is None:
            line = self._line_of(loc)
        raise self.cg.Unsupported("UNSUPPORTED %s:%s function %s: %s %s" % (
            self.relpath, line if line is not None else "?", self.fn, node.get("kind") if isinstance(node, dict) else "", why))

    def _line_of(self, loc):
        off = loc.get("offset")
        if off is None:
            off = loc.get("expansionLoc", {}).get("offset")
        if off is None:
            return None
        return self.src[:off].count(b"\n") + 1

    # ------------------------------------------------------------ types
    def gtype(self, node):
        q = _qt(node)
        if _norm_ptr(q) in PAYLOAD_PTRS:
            return "pptr"
        if _norm_ptr(q) in PTR:
            return PTR[_norm_ptr(q)][0]
        if q.strip().endswith("*") and HAVOC:
            return "optr"
        if q.strip().endswith("*"):
            self.bad(node, "pointer type %s has no Gallina counterpart" % q)
        if _norm_struct(q) in STRUCTS:
            return STRUCTS[_norm_struct(q)]
        if self.ity(node) is not None:
            return "Z"
        self.bad(node, "type %s has no Gallina counterpart" % q)

    def ity(self, node):
        """integer type name (CInt cast suffix) of a node, None if not an integer"""
        t = node.get("type", {})
        for c in (t.get("qualType"), t.get("desugaredQualType")):
            if c is None:
                continue
            c2 = re.sub(r"\bconst\b", "", c).strip()
            if c2 in self.cg.INT_TYPES:
                return self.cg.INT_TYPES[c2]
            if c2.startswith("enum "):
                return "uint32"     # gcc/clang: an enum without negative enumerators is unsigned int
        return None

    def nullable(self, node):
        p = _norm_ptr(_qt(node))
        if p not in PTR and HAVOC:
            return True
        if p not in PTR:
            self.bad(node, "pointer type %s unknown" % p)
        return PTR[p][1]

    # ------------------------------------------------------------ expressions
    def is_pptr(self, n):
        return bool(PAYLOAD_PTRS) and _norm_ptr(_qt(n)) in PAYLOAD_PTRS

    def pointee_size(self, n):
        q = _norm_ptr(_qt(n))[:-1].strip()
        t = self.cg.INT_TYPES.get(q)
        if t is None:
            self.bad(n, "payload pointer to " + q)
        return int(re.sub(r"\D", "", t)) // 8

    def e_val_pp(self, n, env):
        """does this pointer expression (a local, possibly cast) hold a position inside the payload"""
        c = _strip_casts(n)
        if c.get("kind") == "ImplicitCastExpr" and c.get("castKind") == "LValueToRValue":
            c = c["inner"][0]
        if c.get("kind") == "DeclRefExpr" and c["referencedDecl"]["name"] in env:
            return bool(env[c["referencedDecl"]["name"]].get("pp"))
        return False

    def emu_var(self, n, env):
        """the variable of type struct emu * of the current function: the event the payload pointers point into"""
        c = [v for k2, v in env.items() if _norm_ptr(v.get("cty", "")) == "struct emu *" and v.get("init")]
        if len(c) != 1:
            self.bad(n, "payload pointer in a function without exactly one struct emu * variable")
        return c[0]["g"]

    def payload_addr(self, n, a, env):
        """&emu->ev->payload->x.y[i]: the byte offset offsetof(union ovni_ev_payload, x.y) + i * sizeof(element);
        no memory access, but the payload pointer itself is read (NULL check)"""
        m = _strip(a)
        if m.get("kind") != "ArraySubscriptExpr":
            self.bad(n, "address inside the payload that is not &...payload->f[i]")
        base, idx = m["inner"]
        root, chain = self.chain_of(_strip(base))
        k = [i for i, c in enumerate(chain) if c[0] == "payload"]
        if root.get("kind") != "DeclRefExpr" or not k or any(c[2] for c in chain[k[0] + 2:]) or not chain[k[0] + 1][2]:
            self.bad(n, "address inside the payload that is not &emu->ev->payload->f.g[i]")
        path = [c[0] for c in chain[k[0] + 1:]]
        pre = self.member(_strip(chain[k[0] + 1][1]), env)      # ... ->payload : its own NULL checks
        i = self.e_val(idx, env)
        if self.ity(m) is None:
            self.bad(n, "payload array of " + _qt(m))
        esz = int(re.sub(r"\D", "", self.ity(m))) // 8
        cname = "off_" + "_".join(path)
        EXTRA_CONSTS["c_" + cname] = "__builtin_offsetof(union ovni_ev_payload, %s)" % ".".join(path)
        self.consts_extra = getattr(self, "consts_extra", set()) | {"c_" + cname}
        safe = s_and(s_and(pre.safe, SAFE_NN % pre.t), i.safe)
        return Val("(Z.add c_%s (Z.mul (%d) %s))" % (cname, esz, i.t), safe, True, pp=True)

    def var(self, n, env):
        rd = n["referencedDecl"]
        name = rd["name"]
        if name not in env:
            self.bad(n, "variable %s is not a local or a parameter" % name)
        if not env[name]["init"]:
            self.bad(n, "variable %s may be read before it is assigned" % name)
        if env[name].get("ghost"):
            self.bad(n, "variable %s of an unrepresented type is used outside an ignored logging condition" % name)
        return env[name]

    def ghost_pure(self, n, env, allow_members):
        """no side effect, no call; member reads only if allow_members and then only through pointers that need no
        NULL check (their translation has no safety condition)"""
        k = n.get("kind")
        if k in ("CallExpr", "CompoundAssignOperator") or (k == "BinaryOperator" and n.get("opcode") == "=") or \
                (k == "UnaryOperator" and n.get("opcode") in ("++", "--", "*", "&")) or k == "ArraySubscriptExpr":
            self.bad(n, "unrepresented local computed from / compared with something that is not a plain expression")
        if k == "MemberExpr":
            if not allow_members or self.member(n, env).safe is not None:
                self.bad(n, "member read next to an unrepresented local needs a NULL check")
            return
        if k == "DeclRefExpr" and n.get("referencedDecl", {}).get("kind") in ("VarDecl", "ParmVarDecl"):
            if n["referencedDecl"]["name"] not in env or not env[n["referencedDecl"]["name"]]["init"]:
                self.bad(n, "variable read before it is assigned")
            return
        for c in n.get("inner", []) or []:
            if isinstance(c, dict):
                self.ghost_pure(c, env, allow_members)

    def mentions_ghost(self, n, env):
        if n.get("kind") == "DeclRefExpr" and env.get(n.get("referencedDecl", {}).get("name"), {}).get("ghost"):
            return True
        return any(self.mentions_ghost(c, env) for c in n.get("inner", []) or [] if isinstance(c, dict))

    def is_log_only(self, s):
        ss = s.get("inner", []) if s["kind"] == "CompoundStmt" else [s]
        ss = [x for x in ss if x["kind"] != "NullStmt"]
        if not ss:
            return False
        for x in ss:
            if x["kind"] == "CallExpr" and _callee(x) in LOG_CALLS:
                self.pure_tree(x)
                continue
            if x["kind"] == "DoStmt":
                name, _ = self.macro_of(x)
                if name in MACRO_IGNORED:
                    self.pure_tree(x)
                    continue
            return False
        return True

    def e_val(self, n, env):
        k = n["kind"]
        if k in ("ParenExpr", "ConstantExpr"):
            return self.e_val(n["inner"][0], env)
        if k == "IntegerLiteral":
            return Val("(%s)" % n["value"])
        if k == "CharacterLiteral":
            return Val("(%s)" % n["value"])
        if k in ("ImplicitCastExpr", "CStyleCastExpr"):
            ck = n.get("castKind")
            inner = n["inner"][0]
            if self.cg._is_null(n):
                return Val("None")
            if ck in ("LValueToRValue", "NoOp", "ArrayToPointerDecay"):
                return self.e_val(inner, env)
            if self.is_pptr(n) != self.is_pptr(inner) and (self.is_pptr(n) or self.is_pptr(inner)) and ck in ("BitCast", "NoOp"):
                self.bad(n, "conversion between a payload pointer and %s" % _qt(inner if self.is_pptr(n) else n))
            if ck in ("BitCast", "NoOp") and self.is_pptr(n) and self.is_pptr(inner):
                if self.pointee_size(n) != self.pointee_size(inner):
                    self.bad(n, "payload pointer cast that changes the element size")
                return self.e_val(inner, env)
            if ck == "BitCast" and HAVOC and _qt(n).strip().endswith("*"):
                return self.e_val(inner, env)      # pointer conversion of an opaque pointer
            if ck == "BitCast" and _norm_ptr(_qt(inner)) == "void *" and "void *" in PTR and _norm_ptr(_qt(n)) in PTR:
                # (T *) of a void * that a primitive returned: a typed view of the handle, defined by the prelude
                a = self.e_val(inner, env)
                return Val("(cast_%s_%s %s)" % (PTR["void *"][0], PTR[_norm_ptr(_qt(n))][0], a.t), a.safe, a.dep)
            if ck == "IntegralCast":
                src, dst = self.ity(inner), self.ity(n)
                if dst is None or src is None:
                    self.bad(n, "cast %s -> %s" % (_qt(inner), _qt(n)))
                a = self.e_val(inner, env)
                if self.cg._widens(src, dst) or (_qt(inner).startswith("enum ") and dst == "uint32") or \
                        (re.sub(r"\bconst\b", "", _qt(n)).strip().startswith("enum ") and src == "uint32"):
                    return a
                return Val("(cast_%s %s)" % (dst, a.t), a.safe, a.dep)
            if ck == "IntegralToBoolean":
                b = self.e_bool(inner, env)
                return Val("(b2z %s)" % b.t, b.safe, b.dep)
            self.bad(n, "castKind %s" % ck)
        if k == "UnaryExprOrTypeTraitExpr" and n.get("name") == "sizeof":
            # sizeof of an integer object or type: the operand is not evaluated
            arg = (n.get("inner") or [None])[0]
            t = self.ity(arg) if arg is not None else self.cg.INT_TYPES.get(re.sub(r"\bconst\b", "", n.get("argType", {}).get("qualType", "")).strip())
            if t is None or (arg is not None and _qt(arg).strip().endswith("]")):
                self.bad(n, "sizeof of something that is not an integer")
            return Val("(%d)" % (int(re.sub(r"\D", "", t)) // 8))
        if k == "DeclRefExpr":
            rd = n["referencedDecl"]
            if rd["kind"] == "EnumConstantDecl":
                self.consts[rd["name"]] = None
                return Val("c_%s%s" % (getattr(self, "prefix", "") if PREFIX_CONSTS else "", rd["name"]))
            if rd["kind"] in ("ParmVarDecl", "VarDecl"):
                ve = self.var(n, env)
                return Val(ve["g"], pp=bool(ve.get("pp")))
            self.bad(n, "reference to a %s" % rd["kind"])
        if k == "MemberExpr":
            return self.member(n, env)
        if k == "ArraySubscriptExpr" and HAVOC:
            base, idx = n["inner"]
            root, chain = self.chain_of(_strip(base))
            if chain and _struct_of(_qt(chain[-1][1])) == "ovni_ev_payload" and chain[-1][2] and root.get("kind") == "DeclRefExpr":
                v = self.var(root, env)
                i = self.e_val(idx, env)
                if self.ity(n) is None:
                    self.bad(n, "payload array of " + _qt(n))
                pre = self.member(_strip(chain[-1][1]), env)     # ... ->payload : its NULL check
                arr = chain[-1][0]
                safe = s_and(s_and(pre.safe, SAFE_NN % pre.t), i.safe)
                safe = s_and(safe, SAFE_INB % ("(rd_ok_%s sx st %s %s)" % (arr, v["g"], i.t)))
                return Val("(rd_%s sx st %s %s)" % (arr, v["g"], i.t), safe, True)
        if k == "ArraySubscriptExpr" and TABLES:
            b1, i1 = n["inner"]
            inner = _strip(b1)
            if inner.get("kind") == "ArraySubscriptExpr":
                b0, i0 = inner["inner"]
                r0 = _strip(b0)
                if r0.get("kind") == "DeclRefExpr" and r0["referencedDecl"]["kind"] == "VarDecl" and r0["referencedDecl"]["name"] in TABLES:
                    # T[c][v] with T a static table of rows: both indices must be bytes (the table is 256 x 256)
                    if not re.match(r"^const int\s*\[256\]\[256\]\[\d+\]$", _qt(r0).strip()):
                        self.bad(n, "table %s is not const int [256][256][N] but %s" % (r0["referencedDecl"]["name"], _qt(r0)))
                    for ixn in (i0, i1):
                        if self.ity(_strip(ixn)) != "uint8":
                            self.bad(n, "table index that is not a uint8_t")
                    x0, x1 = self.e_val(i0, env), self.e_val(i1, env)
                    return Val("(%s%s sx st %s %s)" % (getattr(self, "prefix", ""), r0["referencedDecl"]["name"], x0.t, x1.t),
                               s_and(x0.safe, x1.safe), True)
        if k == "ArraySubscriptExpr":
            base, idx = n["inner"]
            b, i = self.e_val(base, env), self.e_val(idx, env)
            if self.ity(n) is None:
                if _norm_struct(_qt(n)) in STRUCTS:
                    return Val("(ix_%s %s %s)" % (STRUCTS[_norm_struct(_qt(n))], b.t, i.t), s_and(b.safe, i.safe), b.dep or i.dep)
                self.bad(n, "subscript of an array of " + _qt(n))
            return Val("(ix %s %s)" % (b.t, i.t), s_and(b.safe, i.safe), b.dep or i.dep)
        if k == "UnaryOperator":
            op = n["opcode"]
            a = n["inner"][0]
            if op == "-":
                x = self.e_val(a, env)
                return Val("(- %s)" % x.t, x.safe, x.dep)
            if op == "!":
                b = self.e_bool(a, env)
                return Val("(b2z (negb %s))" % b.t, b.safe, b.dep)
            if op == "&":
                return self.address_of(n, a, env)
            if op == "*":
                p = self.e_val(a, env)
                if not _is_ptr(a):
                    self.bad(n, "dereference of a non-pointer")
                safe = s_and(p.safe, SAFE_NN % p.t) if self.nullable(a) else p.safe
                self.gtype(n)
                return Val("(load_%s sx st %s)" % (self.gtype(a), p.t), safe, True)
            if op == "~":
                x = self.e_val(a, env)
                t = self.ity(n)
                if t is None:
                    self.bad(n, "~ on a non-integer")
                return Val("(cast_%s (Z.lnot %s))" % (t, x.t), x.safe, x.dep)
            self.bad(n, "unary operator " + op)
        if k == "BinaryOperator":
            op = n["opcode"]
            if op in ("==", "!=", "<", ">", "<=", ">=", "&&", "||"):
                b = self.e_bool(n, env)
                return Val("(b2z %s)" % b.t, b.safe, b.dep)
            tbl = {"+": "Z.add", "-": "Z.sub", "*": "Z.mul", "&": "Z.land", "|": "Z.lor", "^": "Z.lxor"}
            if op not in tbl:
                self.bad(n, "binary operator " + op)
            a, b = n["inner"]
            x, y = self.e_val(a, env), self.e_val(b, env)
            t = self.ity(n)
            if t is None:
                self.bad(n, "arithmetic on non-integers")
            r = "(%s %s %s)" % (tbl[op], x.t, y.t)
            if t.startswith("u") and op in ("+", "-", "*"):
                r = "(cast_%s %s)" % (t, r)
            return Val(r, s_and(x.safe, y.safe), x.dep or y.dep)
        if k == "CallExpr":
            name = _callee(n)
            if name == "__builtin_expect":
                return self.e_val(n["inner"][1], env)
            if HAVOC and self.kinds.get(name) is None and name not in PRIM_VALUE:
                osafe = self.opaque_args(n, env)
                o = self.opaque_val(n)
                return Val(o.t, s_and(osafe, o.safe), True)
            if name in BYREF_READ:
                args = [self.byref(a, env) for a in n["inner"][1:]]
            else:
                args = [self.e_val(a, env) for a in n["inner"][1:]]
            safe = None
            for a in args:
                safe = s_and(safe, a.safe)
            if name in PRIM_VALUE:
                self.gtype(n)
                return Val("(%s sx st %s)" % (name, " ".join(a.t for a in args)), safe, True)
            if self.kinds.get(name) == "value":
                if _norm_struct(_qt(n)) not in STRUCTS:
                    self.gtype(n)
                call_safe = "(%s_safe sx st %s)" % (name, " ".join(a.t for a in args))
                return Val("(%s sx st %s)" % (name, " ".join(a.t for a in args)), s_and(safe, call_safe), True)
            if HAVOC and self.kinds.get(name) is None:
                osafe = self.opaque_args(n, env)
                o = self.opaque_val(n)
                return Val(o.t, s_and(osafe, o.safe), True)
            self.bad(n, "call of %s inside an expression (not a value function or value primitive)" % name)
        if k == "ConditionalOperator":
            c, a, b = n["inner"]
            cv, x, y = self.e_bool(c, env), self.e_val(a, env), self.e_val(b, env)
            self.gtype(n)
            safe = cv.safe
            if x.safe is not None:
                safe = s_and(safe, SAFE_IF_T % (cv.t, x.safe))
            if y.safe is not None:
                safe = s_and(safe, SAFE_IF_F % (cv.t, y.safe))
            return Val("(if %s then %s else %s)" % (cv.t, x.t, y.t), safe, cv.dep or x.dep or y.dep)
        self.bad(n, "expression")

    # ------------------------------------------------------------ havoc mode
    def site(self):
        GT.nsite = getattr(GT, "nsite", 0) + 1
        return GT.nsite

    def opaque_val(self, n):
        """an arbitrary value of the type of n, fixed per site"""
        if _is_ptr(n) or _qt(n).strip().endswith("*"):
            return Val("(opq_ptr sx %d%%nat)" % self.site(), None, True)
        if self.ity(n) is not None:
            t = self.ity(n)
            return Val("(cast_%s (opq_Z sx %d%%nat))" % (t, self.site()), None, True)
        self.bad(n, "opaque value of type " + _qt(n))

    def mentions_payload(self, n):
        if n.get("kind") == "MemberExpr" and n.get("name") in ("payload",):
            return True
        return any(self.mentions_payload(c) for c in n.get("inner", []) or [] if isinstance(c, dict))

    def payload_free(self, fn, seen=None):
        """fn (defined in this TU) and what it passes the event to never touch emu->ev->payload"""
        if not hasattr(GT, "pf_memo"):
            GT.pf_memo = {}
        memo = GT.pf_memo
        key = (self.relpath, fn)
        if key in memo:
            return memo[key]
        seen = seen or set()
        if fn in seen:
            return True
        seen = seen | {fn}
        d = self.cg.clang_ast(self.tu_text, self.incs, fn, self.work)
        if self.mentions_payload(d):
            raise self.cg.Unsupported("UNSUPPORTED %s function %s: opaque callee %s reads the payload; it must be translated" % (self.relpath, self.fn, fn))
        ok = True

        def walk(x):
            if x.get("kind") == "CallExpr":
                nm = _callee(x)
                if any(_norm_ptr(_qt(a)) in HAVOC_EVENT_PTRS for a in x["inner"][1:]):
                    if nm is None:
                        raise self.cg.Unsupported("UNSUPPORTED %s: %s passes the event to an indirect call" % (self.relpath, fn))
                    self.payload_free(nm, seen)
            for c in x.get("inner", []) or []:
                if isinstance(c, dict):
                    walk(c)
        walk(d)
        memo[key] = ok
        return ok

    def size_only(self, cond):
        """the condition reads emu->ev->payload_size / is_jumbo and otherwise only constants"""
        seen = {"size": False, "other": False}

        def walk(x):
            k = x.get("kind")
            if k == "MemberExpr":
                root, chain = self.chain_of(x)
                names = [c[0] for c in chain]
                if names and names[-1] in ("payload_size", "is_jumbo") and all(nm in ("ev", "payload_size", "is_jumbo") for nm in names):
                    seen["size"] = True
                else:
                    seen["other"] = True
                return
            if k == "CallExpr":
                seen["other"] = True
                return
            if k == "DeclRefExpr" and x.get("referencedDecl", {}).get("kind") in ("VarDecl", "ParmVarDecl"):
                seen["other"] = True
                return
            for c in x.get("inner", []) or []:
                if isinstance(c, dict):
                    walk(c)
        walk(cond)
        return seen["size"] and not seen["other"]

    def opaque_args(self, n, env=None):
        """arguments of an untranslated callee: they must not read the payload, and the event may only be passed to a
        function of this TU that is checked not to read it.  A payload pointer may be passed: the callee may then read
        the C string that starts there, so a NUL must follow inside the payload (returned as a safety condition)."""
        name = _callee(n)
        safe = None
        for a in n["inner"][1:]:
            if env is not None and self.is_pptr(_strip_casts(a)) and self.e_val_pp(_strip_casts(a), env):
                if env is None:
                    self.bad(n, "payload pointer passed to the untranslated callee %s here" % name)
                pv = self.e_val(_strip_casts(a), env)
                safe = s_and(safe, s_and(pv.safe, SAFE_INB % ("(cstr_ok sx st %s %s)" % (self.emu_var(n, env), pv.t))))
                continue
            if self.mentions_payload(a):
                self.bad(n, "argument of the untranslated callee %s reads the payload (bind it to a local first)" % name)
            if _norm_ptr(_qt(a)) in HAVOC_EVENT_PTRS:
                if name is None:
                    self.bad(n, "the event is passed to an indirect call")
                self.payload_free(name)
        return safe

    def chain_of(self, n):
        """member chain p->a.b->c ... : (root node, [(field, base node, is_arrow)]) with anonymous members dropped"""
        chain = []
        cur = n
        while True:
            cur = _strip(cur)
            if cur.get("kind") != "MemberExpr":
                break
            base = _strip(cur["inner"][0])
            if cur.get("name", "") != "":
                chain.append((cur["name"], base, bool(cur.get("isArrow"))))
            elif cur.get("isArrow"):
                # anonymous member reached through a pointer: the arrow belongs to the next named member up
                if not chain:
                    self.bad(n, "anonymous member at the end of a chain")
                chain[-1] = (chain[-1][0], base, True)
            cur = base
        chain.reverse()
        return cur, chain

    def own_fields(self, n, env):
        """lvalue p->a.b (one arrow from a variable, then only '.'): (variable, struct of p, [fields], safe)"""
        root, chain = self.chain_of(n)
        if not chain or root.get("kind") != "DeclRefExpr":
            self.bad(n, "lvalue is not p->f...")
        if not chain[0][2] or any(c[2] for c in chain[1:]):
            self.bad(n, "lvalue is not of the form p->a.b (a single arrow from a variable)")
        v = self.var(root, env)
        st = _struct_of(_qt(root))
        if st is None:
            self.bad(n, "lvalue through " + _qt(root))
        safe = SAFE_NN % v["g"] if self.nullable(root) else None
        return v, st, [c[0] for c in chain], safe

    def address_of(self, n, a, env):
        if HAVOC:
            if self.mentions_payload(a):
                if self.is_pptr(n):
                    return self.payload_addr(n, a, env)
                self.bad(n, "address of something inside the payload")
            return self.opaque_val(n)
        return self.address_of0(n, a, env)

    def address_of0(self, n, a, env):
        """&p->a.b -> (addr_<struct>_<a_b> p);  &p->a.b[i] -> (addr_<struct>_<a_b>_at p i): handles, no memory access"""
        m = _strip(a)
        self.gtype(n)
        if m.get("kind") == "MemberExpr":
            root, chain = self.chain_of(m)
            last = max([i for i, c in enumerate(chain) if c[2]] or [0])
            if last > 0 and root.get("kind") == "DeclRefExpr":
                # &p->q->a.b: the pointer p->q is read (with its NULL checks), then a handle into what it designates
                basen = chain[last][1]
                st = _struct_of(_qt(basen))
                if st is None:
                    self.bad(n, "address through " + _qt(basen))
                b = self.e_val(basen, env)
                hs = _struct_of(_qt(chain[last - 1][1]))
                safe = b.safe
                if self.nullable(basen) and (hs, chain[last - 1][0]) not in NONNULL_LINK:
                    safe = s_and(safe, SAFE_NN % b.t)
                return Val("(addr_%s_%s %s)" % (st, "_".join(c[0] for c in chain[last:]), b.t), safe, True)
            v, st, fields, safe = self.own_fields(m, env)
            return Val("(addr_%s_%s %s)" % (st, "_".join(fields), v["g"]), safe, False)
        if m.get("kind") == "ArraySubscriptExpr":
            base, idx = m["inner"]
            bs = _strip(base)
            if bs.get("kind") == "DeclRefExpr" and _is_ptr(bs):
                # &p[i] with p a pointer variable: element i of the array p points into; no memory access
                b = self.e_val(bs, env)
                i = self.e_val(idx, env)
                return Val("(addr_%s_at %s %s)" % (self.gtype(bs), b.t, i.t), s_and(b.safe, i.safe), b.dep or i.dep)
            v, st, fields, safe = self.own_fields(_strip(base), env)
            i = self.e_val(idx, env)
            return Val("(addr_%s_%s_at %s %s)" % (st, "_".join(fields), v["g"], i.t), s_and(safe, i.safe), i.dep)
        self.bad(n, "address-of something that is not p->f or p->f[i]")

    def byref(self, a, env):
        """argument of a read-only by-reference primitive: the value the pointer designates"""
        c = _strip(a)
        if c.get("kind") == "UnaryOperator" and c.get("opcode") == "&":
            return self.e_val(c["inner"][0], env)
        if c.get("kind") == "DeclRefExpr" and c["referencedDecl"]["name"] in env and env[c["referencedDecl"]["name"]].get("byval"):
            return Val(self.var(c, env)["g"])
        pointee = _norm_struct(re.sub(r"\*\s*$", "", _qt(a)))
        if _is_ptr(a) and pointee in STRUCTS:
            p = self.e_val(a, env)
            safe = s_and(p.safe, SAFE_NN % p.t) if self.nullable(a) else p.safe
            return Val("(load_%s sx st %s)" % (self.gtype(a), p.t), safe, True)
        return self.e_val(a, env)

    def member(self, n, env):
        """p->f, or a chain p->a->b.c: (get_<struct of p>_<a_b_c> sx st p).  Every link through a pointer that
        may be NULL adds `that pointer is not NULL` to the safety condition; members of anonymous
        structs/unions are transparent; `.` links add nothing.  x.f on a by-value struct variable: (fld_<type>_<f> x)."""
        cur, chain = self.chain_of(n)
        if cur.get("kind") != "DeclRefExpr" or cur["referencedDecl"]["kind"] not in ("ParmVarDecl", "VarDecl"):
            self.bad(n, "member chain not rooted at a variable")
        v = self.var(cur, env)
        if not chain[0][2]:
            # by-value struct variable
            stn = _norm_struct(_qt(cur))
            if stn not in STRUCTS or any(c[2] for c in chain):
                self.bad(n, "member access with '.' on " + _qt(cur))
            if self.ity(n) is None:
                self.bad(n, "field of type " + _qt(n))
            return Val("(fld_%s_%s %s)" % (STRUCTS[stn], "_".join(c[0] for c in chain), v["g"]))
        root_struct = _struct_of(_qt(cur))
        if root_struct is None:
            self.bad(n, "member chain root type " + _qt(cur))
        if HAVOC:
            holders = [root_struct] + [_struct_of(_qt(c[1])) if c[2] else _struct_of(_qt(c[1]) + " *") for c in chain[1:]]
            if any(h not in HAVOC_KEEP for h in holders):
                o = self.opaque_val(n)
                return Val(o.t, SAFE_NN % v["g"] if self.nullable(cur) else None, True)
        safe = SAFE_NN % v["g"] if (self.nullable(cur) and not v.get("nonnull")) else None
        # links after the first one that go through pointers stored in fields
        for i in range(1, len(chain)):
            if not chain[i][2]:
                continue
            prev_field, holder = chain[i - 1][0], chain[i - 1][1]
            base = chain[i][1]
            hs = _struct_of(_qt(holder))
            if (hs, prev_field) in NONNULL_LINK:
                continue
            if not self.nullable(base):
                continue
            prefix = "get_%s_%s" % (root_struct, "_".join(c[0] for c in chain[:i]))
            safe = s_and(safe, SAFE_NN % ("(%s sx st %s)" % (prefix, v["g"])))
        if _is_ptr(n):
            self.gtype(n)
        elif self.ity(n) is None and "[" not in _qt(n) and _norm_struct(_qt(n)) not in STRUCTS:
            self.bad(n, "field of type " + _qt(n))
        name = "get_%s_%s" % (root_struct, "_".join(c[0] for c in chain))
        return Val("(%s sx st %s)" % (name, v["g"]), safe, True)

    def e_bool(self, n, env):
        k = n["kind"]
        if k == "ParenExpr":
            return self.e_bool(n["inner"][0], env)
        if k == "ImplicitCastExpr" and n.get("castKind") == "IntegralToBoolean":
            return self.e_bool(n["inner"][0], env)
        if k in ("ImplicitCastExpr", "CStyleCastExpr") and n.get("castKind") == "IntegralCast":
            src, dst = self.ity(n["inner"][0]), self.ity(n)
            if src is not None and dst is not None and self.cg._widens(src, dst):
                return self.e_bool(n["inner"][0], env)     # x != 0 is kept by a value-preserving conversion
        if k == "CallExpr" and _callee(n) == "__builtin_expect":
            return self.e_bool(n["inner"][1], env)
        if k == "UnaryOperator" and n["opcode"] == "!":
            b = self.e_bool(n["inner"][0], env)
            return Val("(negb %s)" % b.t, b.safe, b.dep)
        if k == "BinaryOperator":
            op = n["opcode"]
            a, b = n["inner"]
            if op in ("&&", "||"):
                x, y = self.e_bool(a, env), self.e_bool(b, env)
                f = "andb" if op == "&&" else "orb"
                safe = x.safe
                if y.safe is not None:
                    # b is evaluated only if a is true (&&) / false (||)
                    lazy = SAFE_IF_T % (x.t, y.safe) if op == "&&" else SAFE_IF_F % (x.t, y.safe)
                    safe = s_and(safe, lazy)
                return Val("(%s %s %s)" % (f, x.t, y.t), safe, x.dep or y.dep)
            if op in ("==", "!=") and (_is_ptr(a) or _is_ptr(b)):
                cgm = self.cg
                other = _strip_casts(b if cgm._is_null(a) else a) if (cgm._is_null(a) or cgm._is_null(b)) else None
                if other is not None and other.get("kind") == "CallExpr" and _callee(other) == "memchr" and PAYLOAD_PTRS:
                    # memchr(p, c, n) ==/!= NULL with p a payload pointer: reads the bytes [p, p + n)
                    pa, ca, na = other["inner"][1:4]
                    p0 = _strip_casts(pa)
                    if not self.is_pptr(p0) or not self.e_val_pp(p0, env):
                        self.bad(n, "memchr over something that is not a payload pointer")
                    pv, cv2, nv = self.e_val(p0, env), self.e_val(ca, env), self.e_val(na, env)
                    ev = self.emu_var(n, env)
                    safe = s_and(s_and(s_and(pv.safe, cv2.safe), nv.safe), SAFE_INB % ("(rd_ok_range sx st %s %s %s)" % (ev, pv.t, nv.t)))
                    r = "(negb (mem_has sx st %s %s %s %s))" % (ev, pv.t, cv2.t, nv.t)
                    return Val(r if op == "==" else "(negb %s)" % r, safe, True)
                if cgm._is_null(a) or cgm._is_null(b):
                    p = self.e_val(b if cgm._is_null(a) else a, env)
                    r = "(is_null %s)" % p.t
                    return Val(r if op == "==" else "(negb %s)" % r, p.safe, p.dep)
                x, y = self.e_val(a, env), self.e_val(b, env)
                if HAVOC:
                    # equality of two opaque pointers: arbitrary
                    r = "(negb (Z.eqb (opq_Z sx %d%%nat) 0))" % self.site()
                    return Val(r if op == "==" else "(negb %s)" % r, s_and(x.safe, y.safe), True)
                st = _struct_of(_qt(a))
                if st is None or _norm_ptr(_qt(a)) != _norm_ptr(_qt(b)):
                    self.bad(n, "comparison of pointers of types %s and %s" % (_qt(a), _qt(b)))
                r = "(ptr_eqb_%s %s %s)" % (st, x.t, y.t)
                return Val(r if op == "==" else "(negb %s)" % r, s_and(x.safe, y.safe), x.dep or y.dep)
            tbl = {"==": "Z.eqb", "<": "Z.ltb", ">": "Z.gtb", "<=": "Z.leb", ">=": "Z.geb"}
            if op == "!=" or op in tbl:
                x, y = self.e_val(a, env), self.e_val(b, env)
                if self.ity(a) is None or self.ity(b) is None:
                    self.bad(n, "comparison of non-integers")
                r = "(negb (Z.eqb %s %s))" % (x.t, y.t) if op == "!=" else "(%s %s %s)" % (tbl[op], x.t, y.t)
                return Val(r, s_and(x.safe, y.safe), x.dep or y.dep)
        if _is_ptr(n):
            p = self.e_val(n, env)
            return Val("(negb (is_null %s))" % p.t, p.safe, p.dep)
        x = self.e_val(n, env)
        if self.ity(n) is None:
            self.bad(n, "condition of type " + _qt(n))
        return Val("(negb (Z.eqb %s 0))" % x.t, x.safe, x.dep)

    # ------------------------------------------------------------ helpers for statements
    def fn_of_state(self, t):
        return "(fun sx st => %s)" % t

    def needed(self, safe, term):
        if safe is None:
            return term
        return "(need %s\n(%s))" % (self.fn_of_state(safe), term)

    def pure_tree(self, n):
        """no side effect below n (arguments of ignored log calls)"""
        k = n.get("kind")
        if k in ("BinaryOperator", "CompoundAssignOperator") and n.get("opcode") in ("=", "+=", "-=", "|=", "&=", "*=", "/=", "^=", "<<=", ">>=", "%="):
            self.bad(n, "side effect inside an ignored logging call")
        if k == "UnaryOperator" and n.get("opcode") in ("++", "--"):
            self.bad(n, "side effect inside an ignored logging call")
        if k == "CallExpr" and _callee(n) not in LOG_ARG_CALLS:
            self.bad(n, "call of %s inside an ignored logging call" % _callee(n))
        for c in n.get("inner", []) or []:
            if isinstance(c, dict):
                self.pure_tree(c)

    def macro_of(self, s):
        """(macro name, [argument texts]) of a statement produced by a macro expansion"""
        b = s.get("range", {}).get("begin", {})
        ex = b.get("expansionLoc")
        if ex is None:
            self.bad(s, "statement is not a macro invocation")
        f = ex.get("file")
        if f is not None and os.path.realpath(f) != os.path.realpath(self.path):
            self.bad(s, "macro expanded in another file (%s)" % f)
        off, ln = ex.get("offset"), ex.get("tokLen")
        if off is None or ln is None:
            self.bad(s, "macro location unknown")
        name = self.src[off:off + ln].decode("latin1")
        if not re.match(r"^[A-Za-z_]\w*$", name):
            self.bad(s, "cannot read the macro name")
        i = off + ln
        while i < len(self.src) and self.src[i:i + 1].isspace():
            i += 1
        if self.src[i:i + 1] != b"(":
            self.bad(s, "macro %s without arguments" % name)
        depth, j, args, cur = 0, i, [], b""
        while j < len(self.src):
            ch = self.src[j:j + 1]
            if ch == b"(":
                depth += 1
                if depth > 1:
                    cur += ch
            elif ch == b")":
                depth -= 1
                if depth == 0:
                    args.append(cur)
                    break
                cur += ch
            elif ch == b"," and depth == 1:
                args.append(cur)
                cur = b""
            else:
                cur += ch
            j += 1
        if depth != 0:
            self.bad(s, "unbalanced macro call")
        return name, [a.decode("latin1").strip() for a in args]

    def macro_prim(self, s, name, args, env):
        """DL_PREPEND(p->f, q) -> (DL_PREPEND_<struct of p>_<f> p q); further arguments must be plain identifiers
        (field names of the list links) and become part of the name: DL_APPEND2(p->f, q, prev, next) ->
        (DL_APPEND2_<struct>_<f>_<prev>_<next> p q)"""
        if len(args) < 2:
            self.bad(s, "macro %s with %d arguments" % (name, len(args)))
        m = re.match(r"^(\w+)\s*->\s*(\w+)$", args[0])
        if not m or not all(re.match(r"^\w+$", a) for a in args[1:]):
            self.bad(s, "macro %s arguments are not of the form p->f, q[, field...]" % name)
        out = []
        for v in (m.group(1), args[1]):
            if v not in env or not env[v]["init"]:
                self.bad(s, "macro argument %s is not a local/parameter" % v)
            out.append(env[v])
        for a in args[2:]:
            if a in env:
                self.bad(s, "macro argument %s should be a field name, it is a variable" % a)
        st = _struct_of(out[0]["cty"])
        if st is None:
            self.bad(s, "macro head is not a field of a struct pointer")
        return "(%s %s %s)" % ("_".join([name, st, m.group(2)] + list(args[2:])), out[0]["g"], out[1]["g"])

    def gname(self, cname):
        return cname + "_" if cname in GALLINA_KEYWORDS else cname

    def bind_args(self, args, k):
        """evaluate the state-dependent arguments first (in order), then call k([terms])"""
        terms, pre = [], []
        for i, a in enumerate(args):
            if a.dep or a.safe is not None:
                nm = "a%d_" % (i + 1)
                pre.append((nm, a))
                terms.append(nm)
            else:
                terms.append(a.t)
        body = k(terms)
        for nm, a in reversed(pre):
            inner = "bind (eval %s) (fun %s =>\n%s)" % (self.fn_of_state(a.t), nm, body)
            body = self.needed(a.safe, inner) if a.safe is not None else "(%s)" % inner
        return body

    def call_action(self, n, env):
        name = _callee(n)
        if HAVOC and not (name in PRIM_ACTION or self.kinds.get(name) == "action"):
            if self.ity(n) is None:
                self.bad(n, "untranslated callee %s does not return an integer status" % name)
            osafe = self.opaque_args(n, env)
            return self.needed(osafe, "(opq_action %d%%nat)" % self.site())
        if not (name in PRIM_ACTION or self.kinds.get(name) == "action"):
            self.bad(n, "call of %s: not an int-status function known to the translator" % name)
        if name in getattr(self, "local_fns", ()) or name in PREFIXED_PRIMS:
            name = getattr(self, "prefix", "") + name
        args = [self.e_val(a, env) for a in n["inner"][1:]]
        h = _indirect_holder(n)
        if h is not None:
            hv = self.e_val(h, env)
            if self.nullable(h):
                hv = Val(hv.t, s_and(hv.safe, SAFE_NN % hv.t), hv.dep)
            args = [hv] + args
        return self.bind_args(args, lambda ts: "(%s %s)" % (name, " ".join(ts)) if ts else name)

    def call_alloc(self, n, env):
        name = _callee(n)
        args = [self.e_val(a, env) for a in n["inner"][1:]]
        return self.bind_args(args, lambda ts: "(%s %s)" % (name, " ".join(ts)))

    def is_alloc_call(self, n):
        c = _strip(n)
        if c.get("kind") != "CallExpr":
            return False
        name = _callee(c)
        return name in PRIM_ALLOC or self.kinds.get(name) == "alloc"

    def status_cond(self, cond):
        """`f(..) != 0` with f an int-status function -> the CallExpr"""
        c = cond
        while c.get("kind") == "ParenExpr":
            c = c["inner"][0]
        if c.get("kind") != "BinaryOperator" or c.get("opcode") != "!=":
            return None
        a, b = c["inner"]
        call = _strip(a)
        if call.get("kind") != "CallExpr":
            return None
        name = _callee(call)
        if not (name in PRIM_ACTION or self.kinds.get(name) == "action" or (HAVOC and self.ity(call) is not None)):
            return None
        b = _strip(b)
        if b.get("kind") != "IntegerLiteral" or b.get("value") != "0":
            return None
        return call

    def out_cond(self, cond):
        """`f(a, &x) != 0` with f in OUT_ACTION and x a local -> (CallExpr, name of x)"""
        c = cond
        while c.get("kind") == "ParenExpr":
            c = c["inner"][0]
        if c.get("kind") != "BinaryOperator" or c.get("opcode") != "!=":
            return None
        a, b = c["inner"]
        call = _strip(a)
        if call.get("kind") != "CallExpr" or _callee(call) not in OUT_ACTION:
            return None
        b = _strip(b)
        if b.get("kind") != "IntegerLiteral" or b.get("value") != "0":
            return None
        o = _strip(call["inner"][1:][OUT_ACTION[_callee(call)]])
        if o.get("kind") != "UnaryOperator" or o.get("opcode") != "&":
            self.bad(cond, "output argument is not &local")
        v = _strip(o["inner"][0])
        if v.get("kind") != "DeclRefExpr" or v["referencedDecl"]["kind"] != "VarDecl" or v["referencedDecl"]["name"] not in self.cur_env_names:
            self.bad(cond, "output argument is not &local")
        return call, v["referencedDecl"]["name"]

    def is_fail_block(self, s, kind):
        """only ignored logging, then `return -1` (action) / `return NULL` (alloc)"""
        ss = s.get("inner", []) if s["kind"] == "CompoundStmt" else [s]
        ss = [x for x in ss if x["kind"] != "NullStmt"]
        if not ss or ss[-1]["kind"] != "ReturnStmt":
            return False
        for x in ss[:-1]:
            if x["kind"] == "CallExpr" and _callee(x) in LOG_CALLS:
                self.pure_tree(x)
                continue
            if x["kind"] == "DoStmt":
                name, _ = self.macro_of(x)
                if name in MACRO_IGNORED:
                    self.pure_tree(x)
                    continue
            return False
        r = ss[-1].get("inner", [None])[0]
        if r is None:
            return False
        if kind == "action":
            return self.ret_const(r) == -1
        return self.cg._is_null(r)

    def ret_const(self, r):
        r = _strip(r)
        if r.get("kind") == "IntegerLiteral":
            return int(r["value"])
        if r.get("kind") == "UnaryOperator" and r.get("opcode") == "-":
            x = _strip(r["inner"][0])
            if x.get("kind") == "IntegerLiteral":
                return -int(x["value"])
        return None

    def terminates(self, s):
        k = s["kind"]
        if k == "ReturnStmt":
            return True
        if k == "CompoundStmt":
            return any(self.terminates(x) for x in s.get("inner", []))
        if k == "IfStmt":
            p = s["inner"]
            return len(p) > 2 and self.terminates(p[1]) and self.terminates(p[2])
        return False

    # ------------------------------------------------------------ statements of action/alloc functions
    def stmts(self, ss, env, kind):
        self.cur_env_names = set(env)
        if not ss and kind == "proc":
            return "ret tt"
        if not ss:
            raise self.cg.Unsupported("UNSUPPORTED %s function %s: control reaches the end of the function" % (self.relpath, self.fn))
        s, rest = ss[0], ss[1:]
        k = s["kind"]
        if k == "CompoundStmt":
            return self.stmts(list(s.get("inner", [])) + rest, env, kind)
        if k == "NullStmt":
            return self.stmts(rest, env, kind)
        if k == "ReturnStmt":
            r = (s.get("inner") or [None])[0]
            if r is None and kind == "proc":
                return "ret tt"
            if r is None or kind == "proc":
                self.bad(s, "return with/without value does not fit the function")
            if kind == "action":
                c = self.ret_const(r)
                if c == 0 and getattr(self, "outcell", None) is not None:
                    cell = env[self.outcell]
                    if not cell["init"]:
                        self.bad(s, "return 0 before the out parameter %s is written" % self.outcell)
                    return "ret %s" % cell["g"]
                if c == 0:
                    return "ret tt"
                if c == -1:
                    return "fail E_FAIL"
                call = _strip(r)
                if call.get("kind") == "CallExpr":
                    return self.call_action(call, env)
                self.bad(s, "return value of an int-status function is neither 0, -1 nor a call of one")
            # alloc: a pointer
            if self.cg._is_null(r):
                return "ret None"
            v = self.e_val(r, env)
            if v.dep or v.safe is not None:
                self.bad(s, "return of a state-dependent pointer expression")
            return "ret %s" % v.t
        if k == "DeclStmt":
            env = dict(env)
            out = None
            decls = []
            for v in s["inner"]:
                if v["kind"] != "VarDecl":
                    self.bad(v, "declaration")
                if GHOST_TYPES and _qt(v).strip() in GHOST_TYPES:
                    # a local of an unrepresented type (double): pure initialiser, only used by skipped logging conditions
                    inits = [c for c in v.get("inner", []) if c.get("kind") not in ("FullComment",)]
                    if len(s["inner"]) != 1 or not inits:
                        self.bad(v, "declaration of an unrepresented local without initialiser / in a list")
                    self.ghost_pure(inits[0], env, False)
                    env[v["name"]] = {"g": self.gname(v["name"]), "cty": _qt(v), "init": True, "ghost": True}
                    return self.stmts(rest, env, kind)
                self.gtype(v)
                name = v["name"]
                g = self.gname(name)
                inits = [c for c in v.get("inner", []) if c.get("kind") not in ("FullComment",)]
                decls.append((name, g, _qt(v), inits[0] if inits else None))
            # translate in order; the continuation is built inside out
            return self.decl_chain(decls, rest, env, kind)
        if k == "CompoundAssignOperator" and s.get("opcode") == "+=" and self.is_pptr(_strip(s["inner"][0])):
            tgt, rhs = s["inner"]
            t = _strip(tgt)
            if t.get("kind") != "DeclRefExpr" or t["referencedDecl"]["kind"] != "VarDecl" or t["referencedDecl"]["name"] not in env:
                self.bad(s, "+= on a payload pointer that is not a local")
            old = self.var(t, env)
            if not old.get("pp"):
                self.bad(s, "+= on a pointer that does not point into the payload")
            r = self.e_val(rhs, env)
            if self.ity(rhs) is None:
                self.bad(s, "payload pointer += non-integer")
            nv = "(Z.add %s (Z.mul (%d) %s))" % (old["g"], self.pointee_size(t), r.t)
            return self.needed(r.safe, "bind (eval %s) (fun %s =>\n%s)" % (self.fn_of_state(nv), old["g"], self.stmts(rest, env, kind)))
        if k in ("BinaryOperator", "CompoundAssignOperator") and s.get("opcode") in ("=", "|="):
            tgt, rhs = s["inner"]
            t = _strip(tgt) if tgt.get("kind") == "ParenExpr" else tgt
            if t.get("kind") == "DeclRefExpr" and t["referencedDecl"]["kind"] in ("VarDecl", "ParmVarDecl"):
                name = t["referencedDecl"]["name"]
                if name not in env:
                    self.bad(s, "assignment to %s which is not a local" % name)
                env2 = dict(env)
                if s["opcode"] == "=":
                    if self.is_alloc_call(rhs):
                        call = self.call_alloc(_strip(rhs), env)
                        env2[name] = dict(env[name], init=True)
                        return "bind %s (fun %s =>\n%s)" % (call, env[name]["g"], self.stmts(rest, env2, kind))
                    rc = _strip(rhs)
                    if rc.get("kind") == "CallExpr" and (self.kinds.get(_callee(rc)) == "action" or _callee(rc) in PRIM_ACTION):
                        # x = f(..) with f an int-status function: 0 on success, -1 on failure (crashes propagate)
                        env2[name] = dict(env[name], init=True)
                        return "bind (status (%s)) (fun %s =>\n%s)" % (self.call_action(rc, env), env[name]["g"], self.stmts(rest, env2, kind))
                    v = self.e_val(rhs, env)
                else:
                    if self.ity(tgt) is None:
                        self.bad(s, "|= on a non-integer")
                    old = self.var(t, env)
                    r = self.e_val(rhs, env)
                    v = Val("(Z.lor %s %s)" % (old["g"], r.t), r.safe, r.dep)
                env2[name] = dict(env[name], init=True)
                return self.needed(v.safe, "bind (eval %s) (fun %s =>\n%s)" % (
                    self.fn_of_state(v.t), env[name]["g"], self.stmts(rest, env2, kind)))
            t = _strip(t)
            if HAVOC and t.get("kind") in ("MemberExpr", "ArraySubscriptExpr", "UnaryOperator"):
                # a store into an object that is not represented: only the payload reads of the statement matter
                if self.mentions_payload(t):
                    self.bad(s, "store into the payload")
                safe = self.e_val(rhs, env).safe if self.mentions_payload(rhs) else None
                return self.needed(safe, "bind_ (opq_set %d%%nat)\n(%s)" % (self.site(), self.stmts(rest, env, kind)))
            if t.get("kind") == "MemberExpr" and s["opcode"] == "=":
                root, chain = self.chain_of(t)
                last = max([i for i, c in enumerate(chain) if c[2]] or [0])
                if last > 0 and root.get("kind") == "DeclRefExpr":
                    # p->q->a.b = e: the pointer p->q is read (with its NULL checks), then the setter of what it designates
                    basen = chain[last][1]
                    st = _struct_of(_qt(basen))
                    if st is None:
                        self.bad(s, "assignment through " + _qt(basen))
                    b = self.e_val(basen, env)
                    v = self.e_val(rhs, env)
                    return self.needed(s_and(b.safe, v.safe), "bind (eval %s) (fun p_ =>\nbind_ (set_%s_%s p_ %s)\n(%s))" % (
                        self.fn_of_state(b.t), st, "_".join(c[0] for c in chain[last:]), self.fn_of_state(v.t), self.stmts(rest, env, kind)))
                var, st, fields, safe = self.own_fields(t, env)
                v = self.e_val(rhs, env)
                # (setters and stores trap on NULL by themselves: no `need` for the target)
                return self.needed(v.safe, "bind_ (set_%s_%s %s %s)\n(%s)" % (
                    st, "_".join(fields), var["g"], self.fn_of_state(v.t), self.stmts(rest, env, kind)))
            if t.get("kind") == "ArraySubscriptExpr" and s["opcode"] == "=":
                # p->a.b[i] = e   or   p->a.b[q->n++] = e  (index read, then incremented, then the store)
                base, idx = t["inner"]
                var, st, fields, safe = self.own_fields(_strip(base), env)
                v = self.e_val(rhs, env)
                ix = _strip(idx)
                rest_t = self.stmts(rest, env, kind)
                store = "set_%s_%s_at %s" % (st, "_".join(fields), var["g"])
                if ix.get("kind") == "UnaryOperator" and ix.get("opcode") == "++" and ix.get("isPostfix"):
                    m = _strip(ix["inner"][0])
                    if m.get("kind") != "MemberExpr" or self.ity(m) is None:
                        self.bad(s, "index with a side effect that is not q->n++")
                    v2, st2, f2, safe2 = self.own_fields(m, env)
                    cur = self.member(m, env)
                    ty = self.ity(m)
                    inc = "(Z.add i_ 1)" if not ty.startswith("u") else "(cast_%s (Z.add i_ 1))" % ty
                    return self.needed(s_and(cur.safe, v.safe),
                                       "bind (eval %s) (fun i_ =>\nbind_ (set_%s_%s %s (fun sx st => %s))\n(bind_ (%s (fun sx st => i_) %s)\n(%s)))" % (
                                           self.fn_of_state(cur.t), st2, "_".join(f2), v2["g"], inc, store, self.fn_of_state(v.t), rest_t))
                i = self.e_val(idx, env)
                return self.needed(s_and(i.safe, v.safe), "bind_ (%s %s %s)\n(%s)" % (
                    store, self.fn_of_state(i.t), self.fn_of_state(v.t), rest_t))
            if t.get("kind") == "UnaryOperator" and t.get("opcode") == "*" and s["opcode"] == "=":
                pn = t["inner"][0]
                pv = _strip(pn)
                if pv.get("kind") == "DeclRefExpr" and env.get(pv["referencedDecl"]["name"], {}).get("outcell"):
                    name = pv["referencedDecl"]["name"]
                    v = self.e_val(rhs, env)
                    env2 = dict(env)
                    env2[name] = dict(env[name], init=True)
                    return self.needed(v.safe, "bind (eval %s) (fun %s =>\n%s)" % (
                        self.fn_of_state(v.t), env[name]["g"], self.stmts(rest, env2, kind)))
                p_ = self.e_val(pn, env)
                if not _is_ptr(pn) or p_.dep:
                    self.bad(s, "store through something that is not a pointer variable")
                v = self.e_val(rhs, env)
                return self.needed(s_and(p_.safe, v.safe), "bind_ (store_%s %s %s)\n(%s)" % (
                    self.gtype(pn), p_.t, self.fn_of_state(v.t), self.stmts(rest, env, kind)))
            self.bad(s, "assignment target")
        if k == "UnaryOperator" and s.get("opcode") in ("++", "--"):
            t = _strip(s["inner"][0])
            op = "Z.add" if s["opcode"] == "++" else "Z.sub"
            ty = self.ity(t)
            if ty is None:
                self.bad(s, "++/-- on a non-integer")
            if t.get("kind") == "DeclRefExpr" and t["referencedDecl"]["kind"] == "VarDecl":
                old = self.var(t, env)
                val = "(%s %s 1)" % (op, old["g"])
                if ty.startswith("u"):
                    val = "(cast_%s %s)" % (ty, val)
                return "bind (eval %s) (fun %s =>\n%s)" % (self.fn_of_state(val), old["g"], self.stmts(rest, env, kind))
            if HAVOC and t.get("kind") == "MemberExpr" and not self.mentions_payload(t):
                return "bind_ (opq_set %d%%nat)\n(%s)" % (self.site(), self.stmts(rest, env, kind))
            if t.get("kind") != "MemberExpr":
                self.bad(s, "++/-- on something that is not a local or p->f")
            var, st, fields, safe = self.own_fields(t, env)
            cur = self.member(t, env)
            val = "(%s %s 1)" % (op, cur.t)
            if ty.startswith("u"):
                val = "(cast_%s %s)" % (ty, val)
            return self.needed(cur.safe, "bind_ (set_%s_%s %s %s)\n(%s)" % (
                st, "_".join(fields), var["g"], self.fn_of_state(val), self.stmts(rest, env, kind)))
        if k == "CallExpr":
            name = _callee(s)
            if name in LOG_CALLS:
                self.pure_tree(s)
                return self.stmts(rest, env, kind)
            if name in PRIM_PROC or self.kinds.get(name) == "proc":
                args = [self.e_val(a, env) for a in s["inner"][1:]]
                call = self.bind_args(args, lambda ts: "(%s %s)" % (name, " ".join(ts)) if ts else name)
                return "bind_ %s\n(%s)" % (call, self.stmts(rest, env, kind))
            if name == "memcpy" and PAYLOAD_PTRS:
                # memcpy(&local, p, sizeof local) with p a payload pointer: a little-endian read of the bytes [p, p + n)
                d, src, cnt = s["inner"][1:4]
                d0 = _strip_casts(d)
                tv = _strip(d0["inner"][0]) if d0.get("kind") == "UnaryOperator" and d0.get("opcode") == "&" else None
                if tv is None or tv.get("kind") != "DeclRefExpr" or tv["referencedDecl"]["kind"] != "VarDecl" or self.ity(tv) is None \
                        or tv["referencedDecl"]["name"] not in env:
                    self.bad(s, "memcpy destination is not &local of an integer type")
                p0 = _strip_casts(src)
                if not self.is_pptr(p0) or not self.e_val_pp(p0, env):
                    self.bad(s, "memcpy source is not a payload pointer")
                pv = self.e_val(p0, env)
                nv = self.e_val(cnt, env)
                ty = self.ity(tv)
                nbytes = int(re.sub(r"\D", "", ty)) // 8
                mlen = re.fullmatch(r"\(cast_u?int\d+ \((\d+)\)\)|\((\d+)\)", nv.t)
                if nv.dep or nv.safe is not None or mlen is None or int(mlen.group(1) or mlen.group(2)) != nbytes:
                    self.bad(s, "memcpy length is not the constant size of the destination")
                nm = tv["referencedDecl"]["name"]
                ev = self.emu_var(s, env)
                env2 = dict(env)
                env2[nm] = dict(env[nm], init=True)
                safe = s_and(pv.safe, SAFE_INB % ("(rd_ok_bytes sx st %s %s (%d))" % (ev, pv.t, nbytes)))
                return self.needed(safe, "bind (eval %s) (fun %s =>\n%s)" % (
                    self.fn_of_state("(rd_bytes_%s sx st %s %s)" % (ty, ev, pv.t)), env[nm]["g"], self.stmts(rest, env2, kind)))
            if HAVOC and _qt(s) == "void" and self.kinds.get(name) is None:
                osafe = self.opaque_args(s, env)
                return self.needed(osafe, "bind_ (opq_set %d%%nat)\n(%s)" % (self.site(), self.stmts(rest, env, kind)))
            self.bad(s, "call statement of %s (result ignored / not a logging call)" % name)
        if k == "DoStmt":
            name, args = self.macro_of(s)
            if name in MACRO_IGNORED:
                self.pure_tree(s)
                return self.stmts(rest, env, kind)
            if name in MACRO_PRIM:
                return "bind_ %s\n(%s)" % (self.macro_prim(s, name, args, env), self.stmts(rest, env, kind))
            self.bad(s, "macro %s" % name)
        if k == "IfStmt":
            parts = list(s["inner"])
            cond, then = parts[0], parts[1]
            els = parts[2] if len(parts) > 2 else None
            if GHOST_TYPES and self.mentions_ghost(cond, env):
                if els is not None or not self.is_log_only(then):
                    self.bad(s, "condition over an unrepresented local guards more than ignored logging")
                self.ghost_pure(cond, env, True)
                return self.stmts(rest, env, kind)
            oc = self.out_cond(cond)
            if oc is not None:
                call, outvar = oc
                if els is not None or not self.is_fail_block(then, kind):
                    self.bad(s, "a failing call must be followed by { log; return -1; } only")
                name = _callee(call)
                args = [self.e_val(a, env) for i, a in enumerate(call["inner"][1:]) if i != OUT_ACTION[name]]
                env2 = dict(env)
                env2[outvar] = dict(env[outvar], init=True)
                callt = self.bind_args(args, lambda ts: "(%s %s)" % (name, " ".join(ts)))
                return "bind %s (fun %s =>\n%s)" % (callt, env[outvar]["g"], self.stmts(rest, env2, kind))
            call = self.status_cond(cond)
            if call is not None:
                if els is not None or not self.is_fail_block(then, kind):
                    self.bad(s, "a failing call must be followed by { log; return -1; } only")
                return "bind_ %s\n(%s)" % (self.call_action(call, env), self.stmts(rest, env, kind))
            c = self.e_bool(cond, env)
            ca = self.cond_assign(then, els, env)
            if ca is not None:
                # if (c) x = e;   (x a local, e without side effect): x := c ? e : x, then the rest once
                name, v = ca
                old = self.var_by_name(s, name, env)
                env2 = dict(env)
                env2[name] = dict(env[name], init=True)
                safe = c.safe
                if v.safe is not None:
                    safe = s_and(safe, SAFE_IF_T % (c.t, v.safe))
                return self.needed(safe, "bind (eval %s) (fun %s =>\n%s)" % (
                    self.fn_of_state("(if %s then %s else %s)" % (c.t, v.t, old["g"])), old["g"], self.stmts(rest, env2, kind)))
            tb = self.stmts([then], env, kind) if self.terminates(then) else self.stmts([then] + rest, env, kind)
            if HAVOC and kind == "action" and self.size_only(cond) and self.is_fail_block(then, kind):
                tb = "fail E_SIZE"      # a refusal decided by the payload size / jumbo bit alone
            eb = self.stmts(([els] if els is not None else []) + rest, env, kind)
            return self.needed(c.safe, "ite %s\n(%s)\n(%s)" % (self.fn_of_state(c.t), tb, eb))
        if k == "SwitchStmt":
            return self.switch(s, rest, env, kind)
        if k == "ForStmt":
            return self.loop(s, rest, env, kind)
        self.bad(s, "statement")

    # ------------------------------------------------------------ the loop form
    def loop(self, s, rest, env, kind):
        name, args = self.macro_of(s)
        if name not in LOOP_MACROS or len(args) != 3:
            self.bad(s, "loop that is not one of %s(p->head, el, next)" % sorted(LOOP_MACROS))
        m = re.match(r"^(\w+)\s*->\s*(\w+)$", args[0])
        if not m or not re.match(r"^\w+$", args[1]) or not re.match(r"^\w+$", args[2]):
            self.bad(s, "loop arguments are not of the form p->head, el, next")
        pv, headf, el, nxt = m.group(1), m.group(2), args[1], args[2]
        if pv not in env or not env[pv]["init"] or el not in env:
            self.bad(s, "loop over something that is not a field of a local pointer / element variable not declared")
        st = _struct_of(env[pv]["cty"])
        if st is None:
            self.bad(s, "loop head is not a field of a struct pointer")
        body = s["inner"][-1]
        assigned = []
        self.loop_scan(body, env, assigned, el)
        if not assigned:
            self.bad(s, "loop body assigns no local")
        for a in assigned:
            if not env[a]["init"]:
                self.bad(s, "loop accumulates into %s which is not initialised" % a)
        order = [n for n in env if n in assigned]
        tup = "(%s)" % ", ".join(env[n]["g"] for n in order) if len(order) > 1 else env[order[0]]["g"]
        pat = "'" + tup if len(order) > 1 else tup
        env_b = dict(env)
        env_b[el] = dict(env[el], init=True, nonnull=True)
        bt = self.pstmts([body], env_b, tup, pat)
        lst = "(list_%s_%s_%s sx st %s)" % (st, headf, nxt, env[pv]["g"])
        env2 = dict(env)
        env2[el] = dict(env[el], init=False)      # NULL after the traversal: not to be used
        safe = SAFE_NN % env[pv]["g"] if PTR.get(_norm_ptr(env[pv]["cty"]), (None, True))[1] else None
        return self.needed(safe, "bind (eval (fun sx st => fold_left (fun %s %s =>\n%s)\n%s %s)) (fun %s =>\n%s)" % (
            pat, env[el]["g"], bt, lst, tup, pat, self.stmts(rest, env2, kind)))

    def loop_scan(self, n, env, assigned, el):
        """what a loop body may contain; collects the locals it assigns"""
        k = n.get("kind")
        if k in ("CompoundStmt", "IfStmt"):
            parts = n.get("inner", [])
            start = 1 if k == "IfStmt" else 0
            if k == "IfStmt":
                self.pure_tree(parts[0])
            for c in parts[start:]:
                self.loop_scan(c, env, assigned, el)
            return
        if k == "NullStmt":
            return
        tgt = None
        if k in ("BinaryOperator",) and n.get("opcode") == "=":
            tgt = _strip(n["inner"][0])
            self.pure_tree(n["inner"][1])
        elif k == "UnaryOperator" and n.get("opcode") in ("++", "--"):
            tgt = _strip(n["inner"][0])
        if tgt is None or tgt.get("kind") != "DeclRefExpr" or tgt["referencedDecl"]["kind"] != "VarDecl" or \
                tgt["referencedDecl"]["name"] not in env or tgt["referencedDecl"]["name"] == el:
            self.bad(n, "statement in a loop body (only assignments to locals, ++/-- and if are allowed)")
        nm = tgt["referencedDecl"]["name"]
        if nm not in assigned:
            assigned.append(nm)

    def pstmts(self, ss, env, tup, pat):
        """a side-effect-free block as a Gallina term of the type of the tuple of accumulators"""
        if not ss:
            return tup
        s, rest = ss[0], ss[1:]
        k = s["kind"]
        if k == "CompoundStmt":
            return self.pstmts(list(s.get("inner", [])) + rest, env, tup, pat)
        if k == "NullStmt":
            return self.pstmts(rest, env, tup, pat)
        if k == "BinaryOperator" and s.get("opcode") == "=":
            t = _strip(s["inner"][0])
            v = self.e_val(s["inner"][1], env)
            if v.safe is not None:
                self.bad(s, "dereference of a possibly NULL pointer inside a loop body")
            return "let %s := %s in\n%s" % (env[t["referencedDecl"]["name"]]["g"], v.t, self.pstmts(rest, env, tup, pat))
        if k == "UnaryOperator" and s.get("opcode") in ("++", "--"):
            t = _strip(s["inner"][0])
            g = env[t["referencedDecl"]["name"]]["g"]
            ty = self.ity(t)
            if ty is None:
                self.bad(s, "++/-- on a non-integer")
            val = "(%s %s 1)" % ("Z.add" if s["opcode"] == "++" else "Z.sub", g)
            if ty.startswith("u"):
                val = "(cast_%s %s)" % (ty, val)
            return "let %s := %s in\n%s" % (g, val, self.pstmts(rest, env, tup, pat))
        if k == "IfStmt":
            parts = list(s["inner"])
            c = self.e_bool(parts[0], env)
            if c.safe is not None:
                self.bad(s, "dereference of a possibly NULL pointer inside a loop body")
            a = self.pstmts([parts[1]], env, tup, pat)
            b = self.pstmts([parts[2]] if len(parts) > 2 else [], env, tup, pat)
            return "let %s := (if %s then\n(%s)\nelse\n(%s)) in\n%s" % (pat, c.t, a, b, self.pstmts(rest, env, tup, pat))
        self.bad(s, "statement in a loop body")

    def var_by_name(self, node, name, env):
        if name not in env or not env[name]["init"]:
            self.bad(node, "variable %s may be read before it is assigned" % name)
        return env[name]

    def cond_assign(self, then, els, env):
        """then-branch = exactly one assignment `x = e` / `x |= e` to an initialised local with a pure e, no else"""
        if els is not None:
            return None
        ss = then.get("inner", []) if then["kind"] == "CompoundStmt" else [then]
        ss = [x for x in ss if x["kind"] != "NullStmt"]
        if len(ss) != 1:
            return None
        a = ss[0]
        if a["kind"] not in ("BinaryOperator", "CompoundAssignOperator") or a.get("opcode") not in ("=", "|="):
            return None
        tgt, rhs = a["inner"]
        t = _strip(tgt)
        if t.get("kind") != "DeclRefExpr" or t["referencedDecl"]["kind"] != "VarDecl":
            return None
        name = t["referencedDecl"]["name"]
        if name not in env or not env[name]["init"] or self.is_alloc_call(rhs):
            return None
        r = self.e_val(rhs, env)
        if a["opcode"] == "|=":
            if self.ity(tgt) is None:
                return None
            r = Val("(Z.lor %s %s)" % (env[name]["g"], r.t), r.safe, r.dep)
        return name, r

    def decl_chain(self, decls, rest, env, kind):
        if not decls:
            return self.stmts(rest, env, kind)
        (name, g, cty, init), more = decls[0], decls[1:]
        env2 = dict(env)
        if init is None:
            env2[name] = {"g": g, "cty": cty, "init": False}
            return self.decl_chain(more, rest, env2, kind)
        if self.is_alloc_call(init):
            call = self.call_alloc(_strip(init), env)
            env2[name] = {"g": g, "cty": cty, "init": True}
            return "bind %s (fun %s =>\n%s)" % (call, g, self.decl_chain(more, rest, env2, kind))
        rc = _strip(init)
        if rc.get("kind") == "CallExpr" and (self.kinds.get(_callee(rc)) == "action" or _callee(rc) in PRIM_ACTION):
            env2[name] = {"g": g, "cty": cty, "init": True}
            return "bind (status (%s)) (fun %s =>\n%s)" % (self.call_action(rc, env), g, self.decl_chain(more, rest, env2, kind))
        v = self.e_val(init, env)
        if v.t == "None":
            v = Val("(None : %s)" % self.gtype({"type": {"qualType": cty}, "kind": "VarDecl"}), None, False)
        env2[name] = {"g": g, "cty": cty, "init": True, "pp": v.pp}
        if PAYLOAD_PTRS and _norm_ptr(cty) in PAYLOAD_PTRS and not v.pp and not (HAVOC and v.t.startswith("(opq_ptr")) and v.t != "None" and not v.t.startswith("(None"):
            self.bad(decls[0][3], "pointer of a payload pointer type initialised from something else")
        return self.needed(v.safe, "bind (eval %s) (fun %s =>\n%s)" % (self.fn_of_state(v.t), g, self.decl_chain(more, rest, env2, kind)))

    def setter(self, t, env):
        """p->f (p a variable) as assignment target: ('set_<struct>_<f>', 'p')"""
        if not t.get("isArrow"):
            self.bad(t, "assignment to a member through '.'")
        root = _strip(t["inner"][0])
        if root.get("kind") != "DeclRefExpr":
            self.bad(t, "assignment to p->f with p not a variable")
        v = self.var(root, env)
        st = _struct_of(_qt(root))
        if st is None:
            self.bad(t, "assignment through " + _qt(root))
        return "set_%s_%s" % (st, t["name"]), v["g"]

    def switch(self, s, rest, env, kind):
        parts = list(s["inner"])
        scrut, body = parts[0], parts[1]
        if body["kind"] != "CompoundStmt":
            self.bad(s, "switch body")
        groups = []   # (labels or None for default, [stmts])
        for c in body.get("inner", []):
            if c["kind"] in ("CaseStmt", "DefaultStmt"):
                labels = []
                cur = c
                is_default = False
                while cur["kind"] in ("CaseStmt", "DefaultStmt"):
                    if cur["kind"] == "CaseStmt":
                        labels.append(cur["inner"][0])
                        cur = cur["inner"][1]
                    else:
                        is_default = True
                        cur = cur["inner"][0]
                if is_default and labels:
                    self.bad(c, "case label shared with default")
                groups.append([None if is_default else labels, [cur]])
            else:
                if not groups:
                    self.bad(c, "statement before the first case label")
                groups[-1][1].append(c)
        sv = self.e_val(scrut, env)
        if self.ity(scrut) is None:
            self.bad(s, "switch over a non-integer")
        default = None
        arms = []
        for labels, body_ss in groups:
            ss = [x for x in body_ss if x["kind"] != "NullStmt"]
            if not ss:
                self.bad(s, "empty case group (fall through)")
            last = ss[-1]
            if last["kind"] == "BreakStmt":
                term = self.stmts(ss[:-1] + rest, env, kind)
            elif self.terminates(last):
                for x in ss[:-1]:
                    if x["kind"] == "BreakStmt":
                        self.bad(x, "break in the middle of a case group")
                term = self.stmts(ss, env, kind)
            else:
                self.bad(last, "case group falls through")
            if labels is None:
                if default is not None:
                    self.bad(s, "two default labels")
                default = term
            else:
                lv = []
                for l in labels:
                    v = self.e_val(l, env)
                    if v.dep or v.safe is not None:
                        self.bad(l, "case label is not a constant")
                    lv.append(v.t)
                arms.append((lv, term))
        if default is None:
            default = self.stmts(rest, env, kind)
        out = default
        for lv, term in reversed(arms):
            c = " || ".join("(Z.eqb v_ %s)" % x for x in lv)
            out = "if %s then\n(%s)\nelse\n(%s)" % (c, term, out)
        return self.needed(sv.safe, "bind (eval %s) (fun v_ =>\n%s)" % (self.fn_of_state(sv.t), out))

    # ------------------------------------------------------------ statements of value functions
    def vstmts(self, ss, env):
        """(value term, safety term) of a side-effect free function body"""
        if not ss:
            raise self.cg.Unsupported("UNSUPPORTED %s function %s: control reaches the end of the function" % (self.relpath, self.fn))
        s, rest = ss[0], ss[1:]
        k = s["kind"]
        if k == "CompoundStmt":
            return self.vstmts(list(s.get("inner", [])) + rest, env)
        if k == "NullStmt":
            return self.vstmts(rest, env)
        if k == "ReturnStmt":
            r = (s.get("inner") or [None])[0]
            if r is None:
                self.bad(s, "return without value")
            v = self.e_val(r, env)
            return v.t, (v.safe or "true")
        if k == "DeclStmt":
            env = dict(env)
            lets = []
            safes = []
            for v in s["inner"]:
                if v["kind"] != "VarDecl":
                    self.bad(v, "declaration")
                self.gtype(v)
                inits = [c for c in v.get("inner", []) if c.get("kind") not in ("FullComment",)]
                if not inits:
                    self.bad(v, "uninitialised local in a value function")
                x = self.e_val(inits[0], env)
                g = self.gname(v["name"])
                env[v["name"]] = {"g": g, "cty": _qt(v), "init": True}
                lets.append((g, x.t))
                safes.append(x.safe)
            val, safe = self.vstmts(rest, env)
            for (g, t), sf in reversed(list(zip(lets, safes))):
                val = "let %s := %s in\n%s" % (g, t, val)
                safe = "let %s := %s in\n%s" % (g, t, safe)
                if sf is not None:
                    safe = "andb %s (%s)" % (sf, safe)
            return val, safe
        if k == "IfStmt":
            parts = list(s["inner"])
            cond, then = parts[0], parts[1]
            els = parts[2] if len(parts) > 2 else None
            c = self.e_bool(cond, env)
            tv, ts = self.vstmts([then], env) if self.terminates(then) else self.vstmts([then] + rest, env)
            ev, es = self.vstmts(([els] if els is not None else []) + rest, env)
            val = "if %s then (%s)\nelse (%s)" % (c.t, tv, ev)
            safe = "if %s then (%s)\nelse (%s)" % (c.t, ts, es)
            if c.safe is not None:
                safe = "andb %s (%s)" % (c.safe, safe)
            return val, safe
        self.bad(s, "statement in a value function")

    # ------------------------------------------------------------ one function
    def function(self, fn, kind):
        self.fn = fn
        d = self.cg.clang_ast(self.tu_text, self.incs, fn, self.work)
        params = [c for c in d["inner"] if c["kind"] == "ParmVarDecl"]
        body = [c for c in d["inner"] if c["kind"] == "CompoundStmt"][0]
        rett = d["type"]["qualType"].split("(")[0].strip()
        env = {}
        plist = []
        self.outcell = OUT_FUNCS.get(fn) if kind == "action" else None
        if self.outcell is not None and self.outcell not in [p["name"] for p in params]:
            raise self.cg.Unsupported("UNSUPPORTED %s function %s: no out parameter %s" % (self.relpath, fn, self.outcell))
        for p in params:
            g = self.gname(p["name"])
            if p["name"] == self.outcell:
                pt = dict(p, type={"qualType": re.sub(r"\*\s*$", "", _qt(p)).strip()})
                if not _qt(p).strip().endswith("*") or self.ity(pt) is None:
                    raise self.cg.Unsupported("UNSUPPORTED %s function %s: out parameter %s is not a pointer to an integer" % (self.relpath, fn, self.outcell))
                env[p["name"]] = {"g": g + "_v", "cty": _qt(p), "init": False, "outcell": True}
                continue
            env[p["name"]] = {"g": g, "cty": _qt(p), "init": True}
            pointee = _norm_struct(re.sub(r"\*\s*$", "", _qt(p)))
            if fn in BYREF_READ and _qt(p).strip().endswith("*") and pointee in STRUCTS:
                # read-only by-reference parameter of a by-value struct: passed as the value
                env[p["name"]]["byval"] = True
                plist.append("(%s : %s)" % (g, STRUCTS[pointee]))
            else:
                plist.append("(%s : %s)" % (g, self.gtype(p)))
        sig = d["type"]["qualType"]
        head = "(* %s: %s %s *)\n" % (self.relpath, fn, sig.replace("*", "ptr"))
        if kind == "action":
            if rett != "int":
                raise self.cg.Unsupported("UNSUPPORTED %s function %s: int-status function returns %s" % (self.relpath, fn, rett))
            term = self.stmts([body], env, kind)
            return head + "Definition %s %s : M %s :=\n%s.\n" % (getattr(self, "prefix", "") + fn, " ".join(plist),
                                                                "Z" if self.outcell is not None else "unit", indent(term))
        if kind == "proc":
            if rett != "void":
                raise self.cg.Unsupported("UNSUPPORTED %s function %s: procedure returns %s" % (self.relpath, fn, rett))
            term = self.stmts([body], env, kind)
            return head + "Definition %s %s : M unit :=\n%s.\n" % (fn, " ".join(plist), indent(term))
        if kind == "alloc":
            p = _norm_ptr(rett)
            if p not in PTR:
                raise self.cg.Unsupported("UNSUPPORTED %s function %s: returns %s" % (self.relpath, fn, rett))
            term = self.stmts([body], env, kind)
            return head + "Definition %s %s : M %s :=\n%s.\n" % (fn, " ".join(plist), PTR[p][0], indent(term))
        # value
        if rett.endswith("*"):
            p = _norm_ptr(rett)
            if p not in PTR:
                raise self.cg.Unsupported("UNSUPPORTED %s function %s: returns %s" % (self.relpath, fn, rett))
            gt = PTR[p][0]
        elif _norm_struct(rett) in STRUCTS:
            gt = STRUCTS[_norm_struct(rett)]
        else:
            gt = "Z"
        val, safe = self.vstmts([body], env)
        return head + "Definition %s (sx : %s) (st : %s) %s : %s :=\n%s.\n" % (fn, SX_T, ST_T, " ".join(plist), gt, indent(val)) + \
            "(* every pointer %s dereferences is non-NULL *)\n" % fn + \
            "Definition %s_safe (sx : %s) (st : %s) %s : bool :=\n%s.\n" % (fn, SX_T, ST_T, " ".join(plist), indent(safe))


def indent(term):
    """indent by parenthesis depth (cosmetic)"""
    out = []
    depth = 1
    for line in term.split("\n"):
        d = depth
        # a line starting with ')' closes first
        lead = len(line) - len(line.lstrip(")"))
        out.append("  " * max(d - (1 if line.startswith(")") else 0), 0) + line)
        depth += line.count("(") - line.count(")")
        if depth < 1:
            depth = 1
    return "\n".join(out)



SX_T = "static"     # Gallina types of the two implicit arguments `sx st` of every state-dependent term
ST_T = "state"


def translate_files(work, units, extra_incs=(), prefixes=None):
    """units: [(relative source path, [(function, kind)])] -> (constants text, [definition text])"""
    cg = G.cg
    inc, ver = G.ovni_h_dir(work)
    kinds = {}
    for rel, fns in units:
        for fn, kind in fns:
            kinds[fn] = kind
    defs = []
    consts = {}
    for rel, fns in units:
        path = os.path.join(G.REPO, rel)
        if not os.path.exists(path):
            raise cg.Unsupported("UNSUPPORTED %s does not exist" % rel)
        tu = '#include "%s"\n' % path
        incs = G.incs(inc) + [os.path.dirname(path)] + [os.path.join(G.REPO, x) for x in extra_incs]
        t = GT(cg, incs, rel, tu, work, dict((f, k) for f, k in kinds.items()))
        t.prefix = (prefixes or {}).get(rel, "")
        t.local_fns = {f for f, _ in fns}
        # only the functions of this file and of the files before it can be called by name
        for fn, kind in fns:
            defs.append(t.function(fn, kind))
        extra = {k2: EXTRA_CONSTS[k2] for k2 in sorted(getattr(t, "consts_extra", set()))}
        if t.consts or extra:
            cpre = "c_" + (t.prefix if PREFIX_CONSTS else "")
            vals = cg.probe_consts(tu, incs, dict({cpre + n: n for n in sorted(t.consts)}, **extra), work)
            for k2, v in vals.items():
                if k2 in consts and consts[k2] != v:
                    raise cg.Unsupported("UNSUPPORTED constant %s has two values (%s, %s)" % (k2, consts[k2], v))
                consts[k2] = v
    ctext = "".join("Definition %s : Z := (%s).\n" % (k, consts[k]) for k in sorted(consts))
    return ctext, defs
