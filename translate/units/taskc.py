"""Translator unit `taskc`: the CREATION functions of src/emu/task.c and src/emu/body.c (property C07).

Emits coq/Gen/TaskC_gen.v: task_get_id, task_find, task_type_find, task_create, task_type_create (task.c), body_find,
body_create (body.c), statement by statement with the stage-C core (_stagec.py, imported UNCHANGED), over the hand-written
prelude coq/Emu/TaskCPre.v (ONE struct task_info: its two uthash tables as insertion-ordered lists, each task with the
table of its bodies).  The wrappers are those of unit pvw (uthash macros, calloc as a pending object, snprintf, call
statements parenthesised) plus:
  - HASH_FIND_INT(head, &key, out) with `head` a pointer VARIABLE (task_find(tasks, id)): hash_find_head_<struct>;
  - `if (F(args) ==/!= NULL) { log; return fail; }` with F a pointer-valued function or primitive: the result is bound first;
  - snprintf with any literal format of the fprintf subset (+ %u): `snprintf_f dst N (fun sx st => [items])`, as an
    initialiser, as `n = snprintf(..)` and as `if (snprintf(..) >= E) { fail }`; sizeof of an array member = constant;
  - pointer-valued calls with state-dependent arguments are parenthesised.
Primitives: uthash find/add, calloc_<struct>, snprintf_f (PvWPre.render), task_get_type_gid (the HASH_VALUE loop of uthash
over the label: a function of the label supplied by the environment, e_gid).
"""
import importlib.util
import os
import re

_spec = importlib.util.spec_from_file_location("ovni_verif_stagec_taskc", os.path.join(os.path.dirname(os.path.abspath(__file__)), "_stagec.py"))
S = importlib.util.module_from_spec(_spec)
_spec.loader.exec_module(S)

FILES = [
    ("src/emu/task.c", [("task_get_id", "value"), ("task_find", "alloc"), ("task_type_find", "alloc"),
                        ("task_create", "action"), ("task_type_create", "action")]),
    ("src/emu/body.c", [("body_find", "alloc"), ("body_create", "alloc")]),
]

_state = {"sizeofs": {}}

HASH_FIND = {"HASH_FIND_INT": (0, 1, 2), "HASH_FIND_LONG": (0, 1, 2), "HASH_FIND": (1, 2, 4)}     # head, &key, out
HASH_ADD = {"HASH_ADD_INT": (0, 1, 2), "HASH_ADD_LONG": (0, 1, 2), "HASH_ADD": (1, 2, 4)}        # head, keyfield, added
GLOBAL_CONSTS = {"pcf_def_header": "Pv_gen.pcf_def_header", "pcf_palette": "Pv_gen.pcf_palette",
                 "pcf_palette_len": "(Z.of_nat (length Pv_gen.pcf_palette))"}
ALLOC_IN_COND = set()

_orig_e_val = S.GT.e_val
_orig_stmts = S.GT.stmts


def _e_val(self, n, env):
    k = n.get("kind")
    if k in ("ImplicitCastExpr", "CStyleCastExpr", "ParenExpr") and self.cg._is_null(n):
        q = S._norm_ptr(S._qt(n))
        if q in S.PTR:
            return S.Val("(None : %s)" % S.PTR[q][0])
    if k in ("ImplicitCastExpr", "CStyleCastExpr"):
        ck = n.get("castKind")
        inner = n["inner"][0]
        if ck == "BitCast" and S._norm_ptr(S._qt(n)) == "void *" and S._norm_ptr(S._qt(inner)) in S.PTR:
            a = self.e_val(inner, env)
            return S.Val("(void_of_%s %s)" % (S.PTR[S._norm_ptr(S._qt(inner))][0], a.t), a.safe, a.dep)
        if ck == "FunctionToPointerDecay" and inner.get("kind") == "DeclRefExpr" and inner.get("referencedDecl", {}).get("kind") == "FunctionDecl":
            return S.Val("fn_%s" % inner["referencedDecl"]["name"])
    if k == "UnaryExprOrTypeTraitExpr":
        if n.get("name") != "sizeof":
            self.bad(n, "type trait " + str(n.get("name")))
        q = n.get("argType", {}).get("qualType") or S._qt(n["inner"][0])
        nm = "k_sizeof_" + re.sub(r"\W+", "_", re.sub(r"\bconst\b", "", q).strip()).strip("_")
        _state["sizeofs"][nm] = "sizeof(%s)" % re.sub(r"\bconst\b", "", q).strip()
        return S.Val(nm)
    if k == "DeclRefExpr" and n.get("referencedDecl", {}).get("kind") == "VarDecl":
        nm = n["referencedDecl"]["name"]
        if nm not in env and nm in GLOBAL_CONSTS:
            return S.Val(GLOBAL_CONSTS[nm])
    return _orig_e_val(self, n, env)


def _unescape(self, node):
    v = node.get("value", "")
    if not (v.startswith('"') and v.endswith('"')):
        self.bad(node, "string literal")
    out, i, s = [], 0, v[1:-1]
    while i < len(s):
        c = s[i]
        if c == "\\":
            i += 1
            m = {"n": 10, "\\": 92, '"': 34, "t": 9}
            if i >= len(s) or s[i] not in m:
                self.bad(node, "escape sequence in a string literal")
            out.append(m[s[i]])
        else:
            if ord(c) > 126:
                self.bad(node, "non-ASCII string literal")
            out.append(ord(c))
        i += 1
    return out


def _literal(self, a):
    a = S._strip(a)
    while a.get("kind") in ("ImplicitCastExpr", "ParenExpr"):
        a = a["inner"][0]
    if a.get("kind") != "StringLiteral":
        return None
    return _unescape(self, a)


def _fmt_items(self, s, fmt, args, env):
    """printf format -> Gallina list of PvWPre.fitem; (term, safe)"""
    items, lit, i, ai, safe = [], [], 0, 0, None

    def flush():
        if lit:
            items.append("F_lit [%s]" % "; ".join(str(b) for b in lit))
            del lit[:]
    while i < len(fmt):
        c = fmt[i]
        if c != 37:
            lit.append(c)
            i += 1
            continue
        m = re.match(r"%(-?)(0?)(\d*)(l{0,2})([disu])", bytes(fmt[i:i + 12]).decode("latin1"))
        if not m:
            self.bad(s, "printf conversion outside the subset (s, [-|0][width][l|ll]d): " + repr(bytes(fmt)))
        if ai >= len(args):
            self.bad(s, "printf: too few arguments")
        a = args[ai]
        ai += 1
        v = self.e_val(a, env)
        safe = S.s_and(safe, v.safe)
        flush()
        left, zero, width, ln, conv = m.groups()
        if conv == "s":
            if left or zero or width or ln:
                self.bad(s, "printf %s with flags")
            if S._norm_ptr(S._qt(a)) != "char *":
                self.bad(s, "printf %%s of a %s" % S._qt(a))
            items.append("F_str %s" % v.t)
        else:
            want = {"": ("int32",), "l": ("int64",), "ll": ("int64",)}[ln]
            if conv == "u":
                want = {"": ("uint32",), "l": ("uint64",), "ll": ("uint64",)}[ln]
            if self.ity(a) not in want and not (ln == "" and self.ity(a) in ("uint8", "int8", "int16", "uint16")):
                self.bad(s, "printf %%%sd of a %s" % (ln, S._qt(a)))
            if left and zero:
                self.bad(s, "printf flags -0")
            fl = "FL" if left else ("FZ" if zero else "FR")
            items.append("F_dec %s %s%%nat %s" % (fl, width or "0", v.t))
        i += len(m.group(0))
    flush()
    if ai != len(args):
        self.bad(s, "printf: too many arguments")
    return "[%s]" % "; ".join(items), safe


def _macro_parts(self, s):
    name, args = self.macro_of(s)
    return name, args


def _local(self, s, name, env, need_init=True):
    if name not in env or (need_init and not env[name]["init"]):
        self.bad(s, "macro argument %s is not an initialised local/parameter" % name)
    return env[name]


def _has_store(self, n, loopvar):
    k = n.get("kind")
    if k in ("BinaryOperator", "CompoundAssignOperator") and n.get("opcode", "").endswith("=") and n.get("opcode") not in ("==", "!=", "<=", ">="):
        t = S._strip(n["inner"][0])
        if t.get("kind") != "DeclRefExpr" or t["referencedDecl"]["name"] == loopvar:
            self.bad(n, "store inside a loop body")
    if k == "UnaryOperator" and n.get("opcode") in ("++", "--"):
        self.bad(n, "++/-- inside a loop body")
    if k in ("BreakStmt", "ContinueStmt", "GotoStmt", "ForStmt", "WhileStmt", "DoStmt"):
        if k == "DoStmt":
            return
        self.bad(n, "%s inside a loop body" % k)
    for c in n.get("inner", []) or []:
        if isinstance(c, dict):
            _has_store(self, c, loopvar)


def _loop(self, s, rest, env, kind):
    parts = s["inner"]
    if len(parts) != 5:
        self.bad(s, "for statement")
    init, condvar, cond, inc, body = parts
    if condvar or init.get("kind") != "DeclStmt" or len(init.get("inner", [])) != 1 or init["inner"][0].get("kind") != "VarDecl":
        self.bad(s, "for statement without `T v = e` initialisation")
    v = init["inner"][0]
    vname, g = v["name"], self.gname(v["name"])
    inits = [c for c in v.get("inner", []) if c.get("kind") not in ("FullComment",)]
    if len(inits) != 1 or vname in env:
        self.bad(s, "for statement: loop variable")
    _has_store(self, body, vname)
    env_b = dict(env)
    env_b[vname] = {"g": g, "cty": S._qt(v), "init": True, "nonnull": True}
    q = S._norm_ptr(S._qt(v))
    c = cond
    while c.get("kind") in ("ParenExpr", "ImplicitCastExpr"):
        c = c["inner"][0]
    old = getattr(self, "_loop_ret", None)
    self._loop_ret = kind
    try:
        if q in S.PTR:
            # for (struct T *v = E; v != NULL; v = v->hh.next)
            st = S._struct_of(q)
            ok = (c.get("kind") == "BinaryOperator" and c.get("opcode") == "!=" and _local_name(c["inner"][0]) == vname and self.cg._is_null(c["inner"][1])) \
                or (c.get("kind") == "DeclRefExpr" and c["referencedDecl"]["name"] == vname)
            i_ = inc
            ok2 = i_.get("kind") == "BinaryOperator" and i_.get("opcode") == "=" and _local_name(i_["inner"][0]) == vname
            if ok2:
                r = S._strip(i_["inner"][1])
                while r.get("kind") in ("ImplicitCastExpr", "CStyleCastExpr"):
                    r = S._strip(r["inner"][0])
                root, chain = self.chain_of(r)
                ok2 = root.get("kind") == "DeclRefExpr" and root["referencedDecl"]["name"] == vname and [x[0] for x in chain] == ["hh", "next"]
            if not ok or not ok2:
                self.bad(s, "pointer loop that is not `for (T *v = e; v != NULL; v = v->hh.next)`")
            e = self.e_val(inits[0], env)
            bt = self.stmts([body], env_b, "proc")
            term = "bind_ (for_hh_%s %s (fun %s =>\n%s))\n(%s)" % (st, self.fn_of_state(e.t), g, bt, self.stmts(rest, env, kind))
            return self.needed(e.safe, term)
        if self.ity(v) in ("int32", "int64"):
            # for (long i = 0; i < BOUND; i++)
            if _int_lit(inits[0]) != 0:
                self.bad(s, "counting loop not starting at 0")
            ok = c.get("kind") == "BinaryOperator" and c.get("opcode") == "<" and _local_name(c["inner"][0]) == vname
            ok2 = inc.get("kind") == "UnaryOperator" and inc.get("opcode") == "++" and _local_name(inc["inner"][0]) == vname
            if not ok or not ok2:
                self.bad(s, "counting loop that is not `for (T i = 0; i < bound; i++)`")
            b = self.e_val(c["inner"][1], env)
            bt = self.stmts([body], env_b, "proc")
            term = "bind_ (for_range %s (fun %s =>\n%s))\n(%s)" % (self.fn_of_state(b.t), g, bt, self.stmts(rest, env, kind))
            return self.needed(b.safe, term)
    finally:
        self._loop_ret = old
    self.bad(s, "for statement outside the two loop forms")


def _local_name(n):
    t = S._strip(n)
    if t.get("kind") == "DeclRefExpr" and t.get("referencedDecl", {}).get("kind") in ("VarDecl", "ParmVarDecl"):
        return t["referencedDecl"]["name"]
    return None


def _int_lit(n):
    n = S._strip(n)
    while n.get("kind") == "ImplicitCastExpr" and n.get("castKind") == "IntegralCast":
        n = S._strip(n["inner"][0])
    return int(n["value"]) if n.get("kind") == "IntegerLiteral" else None


def _call_of(n, name):
    c = S._strip(n)
    while c.get("kind") in ("ImplicitCastExpr", "CStyleCastExpr", "ParenExpr"):
        c = c["inner"][0]
    if c.get("kind") == "CallExpr" and S._callee(c) == name:
        return c
    return None


def _sizeof_struct(self, n):
    n = S._strip(n)
    while n.get("kind") in ("ImplicitCastExpr", "ParenExpr"):
        n = n["inner"][0]
    if n.get("kind") != "UnaryExprOrTypeTraitExpr" or n.get("name") != "sizeof":
        return None
    q = n.get("argType", {}).get("qualType") or S._qt(n["inner"][0])
    q = S._norm_struct(q)
    m = re.match(r"^struct (\w+)$", q)
    return m.group(1) if m else None


def _snprintf(self, s, call, env):
    """snprintf(p->label, N, "literal format", args..) -> (term of type M Z, safe)"""
    a = call["inner"][1:]
    fmt = _literal(self, a[2]) if len(a) >= 3 else None
    if fmt is None:
        self.bad(s, "snprintf without a literal format")
    d = S._strip(a[0])
    if d.get("kind") != "MemberExpr":
        self.bad(s, "snprintf destination is not p->label")
    var, st, fields, safe = self.own_fields(d, env)
    n_ = self.e_val(a[1], env)
    if n_.dep or n_.safe:
        self.bad(s, "snprintf size depends on the state")
    items, isafe = _fmt_items(self, s, fmt, a[3:], env)
    return "(snprintf_f (addr_%s_%s %s) %s %s)" % (st, "_".join(fields), var["g"], n_.t, self.fn_of_state(items)), isafe


def _stmts(self, ss, env, kind):
    self.cur_env_names = set(env)
    if not ss:
        return _orig_stmts(self, ss, env, kind)
    s, rest = ss[0], ss[1:]
    k = s.get("kind")
    if k == "ForStmt":
        return _loop(self, s, rest, env, kind)
    if k == "ReturnStmt" and getattr(self, "_loop_ret", None) is not None and kind == "proc":
        r = (s.get("inner") or [None])[0]
        if self._loop_ret == "action" and r is not None and self.ret_const(r) == -1:
            return "fail E_FAIL"
        self.bad(s, "return inside a loop body (only `return -1` of an int-status function)")
    # 1. uthash
    if k == "DoStmt":
        name, args = self.macro_of(s)
        if name in HASH_FIND:
            hi, ki, oi = HASH_FIND[name]
            if len(args) <= max(hi, ki, oi):
                self.bad(s, "macro %s arguments" % name)
            m = re.match(r"^(\w+)\s*->\s*(\w+)$", args[hi])
            mk = re.match(r"^&\s*(\w+)$", args[ki])
            if re.match(r"^\w+$", args[hi]) and mk and re.match(r"^\w+$", args[oi]):
                # the head is a pointer variable (the caller passed info->tasks)
                hd, key = _local(self, s, args[hi], env), _local(self, s, mk.group(1), env)
                out = _local(self, s, args[oi], env, need_init=False)
                st = S._struct_of(hd["cty"])
                if st is None:
                    self.bad(s, "macro %s: head is not a struct pointer" % name)
                env2 = dict(env)
                env2[args[oi]] = dict(out, init=True)
                return "bind (hash_find_head_%s %s %s) (fun %s =>\n%s)" % (st, hd["g"], key["g"], out["g"], self.stmts(rest, env2, kind))
            if not m or not mk or not re.match(r"^\w+$", args[oi]):
                self.bad(s, "macro %s arguments are not p->head, &key, out" % name)
            p, key = _local(self, s, m.group(1), env), _local(self, s, mk.group(1), env)
            out = _local(self, s, args[oi], env, need_init=False)
            st = S._struct_of(p["cty"])
            if st is None or self.cg.INT_TYPES.get(re.sub(r"\bconst\b", "", key["cty"]).strip()) is None:
                self.bad(s, "macro %s: head is not a field of a struct pointer / key is not an integer" % name)
            env2 = dict(env)
            env2[args[oi]] = dict(out, init=True)
            return "bind (hash_find_%s_%s %s %s) (fun %s =>\n%s)" % (st, m.group(2), p["g"], key["g"], out["g"], self.stmts(rest, env2, kind))
        if name in HASH_ADD:
            hi, ki, ai = HASH_ADD[name]
            if len(args) <= max(hi, ki, ai):
                self.bad(s, "macro %s arguments" % name)
            m = re.match(r"^(\w+)\s*->\s*(\w+)$", args[hi])
            if not m or not re.match(r"^\w+$", args[ki]) or not re.match(r"^\w+$", args[ai]):
                self.bad(s, "macro %s arguments are not p->head, keyfield, added" % name)
            p, add = _local(self, s, m.group(1), env), _local(self, s, args[ai], env)
            st = S._struct_of(p["cty"])
            if st is None:
                self.bad(s, "macro %s: head is not a field of a struct pointer" % name)
            return "bind_ (hash_add_%s_%s_by_%s %s %s)\n(%s)" % (st, m.group(2), args[ki], p["g"], add["g"], self.stmts(rest, env, kind))
    # 3. int n = snprintf(...)
    if k == "DeclStmt" and len(s.get("inner", [])) == 1 and s["inner"][0].get("kind") == "VarDecl":
        v = s["inner"][0]
        inits = [c for c in v.get("inner", []) if c.get("kind") not in ("FullComment",)]
        call = _call_of(inits[0], "calloc") if inits else None
        if call is not None:
            stn = _sizeof_struct(self, call["inner"][2])
            if stn is None or _int_lit(call["inner"][1]) != 1 or S._struct_of(S._qt(v)) != stn:
                self.bad(s, "calloc initialiser that is not `struct T *x = calloc(1, sizeof(struct T))`")
            env2 = dict(env)
            g = self.gname(v["name"])
            env2[v["name"]] = {"g": g, "cty": S._qt(v), "init": True}
            return "bind calloc_%s (fun %s =>\n%s)" % (stn, g, self.stmts(rest, env2, kind))
        call = _call_of(inits[0], "snprintf") if inits else None
        if call is not None:
            if self.ity(v) != "int32":
                self.bad(s, "snprintf result type")
            env2 = dict(env)
            g = self.gname(v["name"])
            env2[v["name"]] = {"g": g, "cty": S._qt(v), "init": True}
            t_, sf_ = _snprintf(self, s, call, env)
            return self.needed(sf_, "bind %s (fun %s =>\n%s)" % (t_, g, self.stmts(rest, env2, kind)))
    # 2. allocation forms
    if k == "BinaryOperator" and s.get("opcode") == "=":
        tgt, rhs = s["inner"]
        t = S._strip(tgt)
        call = _call_of(rhs, "snprintf")
        if call is not None and _local_name(tgt) is not None:
            name = _local_name(tgt)
            if name not in env or self.ity(tgt) != "int32":
                self.bad(s, "snprintf result")
            env2 = dict(env)
            env2[name] = dict(env[name], init=True)
            t_, sf_ = _snprintf(self, s, call, env)
            return self.needed(sf_, "bind %s (fun %s =>\n%s)" % (t_, env[name]["g"], self.stmts(rest, env2, kind)))
        call = _call_of(rhs, "calloc")
        if call is not None:
            n_, sz = call["inner"][1], call["inner"][2]
            stn = _sizeof_struct(self, sz)
            if stn is None:
                self.bad(s, "calloc of something that is not sizeof(struct T)")
            if _local_name(tgt) is not None:
                name = _local_name(tgt)
                if _int_lit(n_) != 1 or name not in env or S._struct_of(env[name]["cty"]) != stn:
                    self.bad(s, "calloc into a local that is not `x = calloc(1, sizeof(*x))`")
                env2 = dict(env)
                env2[name] = dict(env[name], init=True)
                return "bind calloc_%s (fun %s =>\n%s)" % (stn, env[name]["g"], self.stmts(rest, env2, kind))
            if t.get("kind") == "MemberExpr":
                var, st, fields, safe = self.own_fields(t, env)
                if S._struct_of(S._qt(t)) != stn:
                    self.bad(s, "calloc of another type than the field's")
                cnt = self.e_val(n_, env)
                return self.needed(cnt.safe, "bind_ (calloc_into_%s_%s %s %s)\n(%s)" % (
                    st, "_".join(fields), var["g"], self.fn_of_state(cnt.t), self.stmts(rest, env, kind)))
            self.bad(s, "calloc target")
        call = _call_of(rhs, "fopen")
        if call is not None and t.get("kind") == "MemberExpr":
            if _literal(self, call["inner"][2]) != [119]:
                self.bad(s, 'fopen mode is not "w"')
            var, st, fields, safe = self.own_fields(t, env)
            path = self.e_val(call["inner"][1], env)
            if path.dep or path.safe:
                self.bad(s, "fopen path")
            return "bind_ (fopen_into_%s_%s %s %s)\n(%s)" % (st, "_".join(fields), var["g"], path.t, self.stmts(rest, env, kind))
    if k == "CallExpr":
        name = S._callee(s)
        if name == "memset":
            a = s["inner"][1:]
            p = S._strip(a[0])
            while p.get("kind") in ("ImplicitCastExpr",):
                p = S._strip(p["inner"][0])
            pn = _local_name(p)
            stn = _sizeof_struct(self, a[2])
            if pn is None or pn not in env or _int_lit(a[1]) != 0 or stn is None or S._struct_of(env[pn]["cty"]) != stn:
                self.bad(s, "memset that is not memset(p, 0, sizeof(*p))")
            return "bind_ (zero_%s %s)\n(%s)" % (stn, env[pn]["g"], self.stmts(rest, env, kind))
        if name == "fprintf":
            a = s["inner"][1:]
            fmt = _literal(self, a[1]) if len(a) >= 2 else None
            if fmt is None:
                self.bad(s, "fprintf without a literal format")
            f = self.e_val(a[0], env)
            items, safe = _fmt_items(self, s, fmt, a[2:], env)
            return self.needed(S.s_and(f.safe, safe), "bind_ (fprintf %s %s)\n(%s)" % (
                self.fn_of_state(f.t), self.fn_of_state(items), self.stmts(rest, env, kind)))
        if name in S.PRIM_PROC or self.kinds.get(name) == "proc":
            args = [self.e_val(a, env) for a in s["inner"][1:]]
            call = self.bind_args(args, lambda ts: "(%s %s)" % (name, " ".join(ts)) if ts else name)
            return "bind_ (%s)\n(%s)" % (call, self.stmts(rest, env, kind))
    # 6. if (F(..) ==/!= NULL) { log; fail }   and   if (snprintf(..) >= E) { log; fail }
    if k == "IfStmt" and len(s["inner"]) == 2:
        c = s["inner"][0]
        while c.get("kind") == "ParenExpr":
            c = c["inner"][0]
        failt = "fail E_FAIL" if kind == "action" else "ret None"
        if c.get("kind") == "BinaryOperator" and c.get("opcode") in ("==", "!=") and self.cg._is_null(c["inner"][1]):
            call = S._strip(c["inner"][0])
            if call.get("kind") == "CallExpr" and (S._callee(call) in S.PRIM_ALLOC or self.kinds.get(S._callee(call)) == "alloc"):
                if not self.is_fail_block(s["inner"][1], kind):
                    self.bad(s, "a NULL test of a call must guard { log; return failure; } only")
                test = "is_null r_" if c["opcode"] == "==" else "negb (is_null r_)"
                return "bind %s (fun r_ =>\nite (fun sx st => %s)\n(%s)\n(%s))" % (
                    self.call_alloc(call, env), test, failt, self.stmts(rest, env, kind))
        if c.get("kind") == "BinaryOperator" and c.get("opcode") == ">=":
            call = _call_of(c["inner"][0], "snprintf")
            if call is not None:
                if not self.is_fail_block(s["inner"][1], kind):
                    self.bad(s, "a snprintf length test must guard { log; return failure; } only")
                lim = self.e_val(c["inner"][1], env)
                if lim.dep or lim.safe:
                    self.bad(s, "snprintf limit depends on the state")
                t_, sf_ = _snprintf(self, s, call, env)
                return self.needed(sf_, "bind %s (fun n_ =>\nite (fun sx st => Z.geb n_ %s)\n(%s)\n(%s))" % (
                    t_, lim.t, failt, self.stmts(rest, env, kind)))
    return _orig_stmts(self, ss, env, kind)


_orig_call_alloc = S.GT.call_alloc


def _call_alloc(self, n, env):
    r = _orig_call_alloc(self, n, env)
    return "(%s)" % r if r.startswith("bind") or r.startswith("(need") else r


def gen(work):
    _state["sizeofs"] = {}
    S.G = G
    S.GT.e_val = _e_val
    S.GT.stmts = _stmts
    S.GT.call_alloc = _call_alloc
    S.SX_T, S.ST_T = "cenv", "cst"
    S.PTR = {
        "struct task_info *": ("ptr_task_info", False),
        "struct task *": ("ptr_task", True),
        "struct task_type *": ("ptr_task_type", True),
        "struct body_info *": ("ptr_body_info", True),
        "struct body *": ("ptr_body", True),
        "char *": ("str", False),
    }
    S.STRUCTS = {}
    S.NONNULL_LINK = set()
    S.PRIM_ACTION = set()
    S.PRIM_VALUE = {"task_get_type_gid"}
    S.PRIM_ALLOC = set()
    S.PRIM_PROC = set()
    S.OUT_ACTION = {}
    S.BYREF_READ = set()
    S.INDIRECT_CALLS = {}
    S.MACRO_PRIM = set()
    S.MACRO_IGNORED = {"dbg"}
    ctext, defs = S.translate_files(work, FILES)
    inc, ver = G.ovni_h_dir(work)
    path = os.path.join(G.REPO, FILES[1][0])
    tu = '#include "%s"\n' % path
    incs = G.incs(inc) + [os.path.dirname(path)]
    ktext = ""
    if _state["sizeofs"]:
        vals = G.cg.probe_consts(tu, incs, dict(_state["sizeofs"]), work)
        ktext = "".join("Definition %s : Z := (%s).\n" % (k, vals[k]) for k in sorted(vals))
    text = (G.HEADER % "src/emu/task.c, src/emu/body.c (unit taskc)") + \
        "From Coq Require Import ZArith List Bool.\n" \
        "From OV Require Import Base.CInt Emu.MarkDefs Emu.TaskCPre.\n" \
        "Import ListNotations.\nLocal Open Scope Z_scope.\n\n" \
        "(* constants evaluated by the compiler *)\n" + ctext + ktext + "\n" + "\n".join(defs)
    return {"TaskC_gen.v": text}
