"""Translator unit `taskev`: the task event handlers of src/emu/nosv/event.c and src/emu/nanos6/event.c.

Emits coq/Gen/TaskNosv_gen.v and coq/Gen/TaskNanos6_gen.v: chan_body_stopped / chan_body_running / chan_body_switch
(chan_task_* for Nanos6), update_task_state, expand_transition_value (its out parameter as the returned value),
update_task_channels, enforce_task_rules, update_task_ss_channel, update_task, create_task, pre_task, statement by
statement, over the hand-written world of coq/Emu/TaskEvPre.v.  task_execute / task_pause / task_resume / task_end
and task_get_running in that world are the functions generated from task.c / body.c by unit guards
(Gen/Guards_gen.v); chan_set / chan_push / chan_pop / chan_read on a model channel are the raw channel operations
that unit chan proves generated chan.c computes.
`G` (translate/gen.py) is injected by the plug-in loader.
"""
import importlib.util
import os

_spec = importlib.util.spec_from_file_location("ovni_verif_stagec_taskev", os.path.join(os.path.dirname(os.path.abspath(__file__)), "_stagec.py"))
S = importlib.util.module_from_spec(_spec)
_spec.loader.exec_module(S)

COMMON = [
    ("src/emu/body.c", [("body_get_id", "value"), ("body_get_task", "value"), ("body_get_state", "value")]),
    ("src/emu/task.c", [("task_is_parallel", "value"), ("task_get_running", "value")]),
]
NOSV = COMMON + [("src/emu/nosv/event.c", [
    ("chan_body_stopped", "action"), ("chan_body_running", "action"), ("chan_body_switch", "action"),
    ("update_task_state", "action"), ("expand_transition_value", "action"), ("update_task_channels", "action"),
    ("enforce_task_rules", "action"), ("update_task_ss_channel", "action"), ("update_task", "action"),
    ("create_task", "action"), ("pre_task", "action")])]
NANOS6 = COMMON + [("src/emu/nanos6/event.c", [
    ("chan_task_stopped", "action"), ("chan_task_running", "action"), ("chan_task_switch", "action"),
    ("update_task_state", "action"), ("expand_transition_value", "action"), ("update_task_channels", "action"),
    ("enforce_task_rules", "action"), ("update_task_ss_channel", "action"), ("update_task", "action"),
    ("create_task", "action"), ("pre_task", "action")])]


def configure():
    S.G = G
    S.SX_T, S.ST_T = "tenv", "tw"
    S.PTR = {
        "struct emu *": ("emu", False),
        "struct emu_ev *": ("ptr_emu_ev", False),
        "union ovni_ev_payload *": ("ptr_payload", True),
        "struct thread *": ("ptr_thread", True),
        "struct proc *": ("ptr_proc", True),
        "struct nosv_thread *": ("ptr_mthread", True),
        "struct nanos6_thread *": ("ptr_mthread", True),
        "struct nosv_proc *": ("ptr_mproc", True),
        "struct nanos6_proc *": ("ptr_mproc", True),
        "struct chan *": ("ptr_chan", True),
        "struct task *": ("ptr_task", True),
        "struct task_type *": ("ptr_task_type", True),
        "struct body *": ("ptr_body", True),
        "struct task_info *": ("ptr_task_info", True),
        "struct task_stack *": ("ptr_task_stack", True),
        "struct body_stack *": ("ptr_body_stack", True),
        "struct extend *": ("ptr_extend", True),
        "void *": ("ptr_ext", True),
        "char *": ("ptr_char", True),
    }
    S.STRUCTS = {"struct value": "cvalue"}
    S.NONNULL_LINK = {("emu", "ev"), ("emu", "thread"), ("emu", "proc")}
    S.PRIM_ACTION = {"chan_set", "chan_push", "chan_pop", "task_execute", "task_end", "task_pause", "task_resume", "task_create"}
    S.PRIM_VALUE = {"value_int64", "value_null", "extend_get", "task_find", "body_get_running"}
    S.PRIM_ALLOC = set()
    S.MACRO_PRIM = set()
    S.OUT_ACTION = {"chan_read": 1, "expand_transition_value": 3}
    S.OUT_FUNCS = {"expand_transition_value": "tr_p"}
    # getters whose value is only printed by an ignored err(): no side effect
    S.LOG_ARG_CALLS = set(S.LOG_ARG_CALLS) | {"task_get_id", "body_get_id"}


def one(work, units, rel, name):
    ctext, defs = S.translate_files(work, units)
    return (G.HEADER % (rel + " (unit taskev)")) + \
        "From Coq Require Import ZArith List Bool.\n" \
        "From OV Require Import Base.CInt Emu.TaskEvPre.\n" \
        "Import ListNotations.\nLocal Open Scope Z_scope.\n\n" \
        "(* enum constants, evaluated by the compiler *)\n" + ctext + "\n" + "\n".join(defs)


def gen(work):
    configure()
    return {"TaskNosv_gen.v": one(work, NOSV, "src/emu/nosv/event.c", "nosv"),
            "TaskNanos6_gen.v": one(work, NANOS6, "src/emu/nanos6/event.c", "nanos6")}
