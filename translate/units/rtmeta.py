"""Translator unit `rtmeta`: the metadata functions of src/rt/ovni.c (the stream.json side of the tracing runtime).

Emits coq/Gen/RtMeta_gen.v: the functions of FUNCS below, statement by statement, with the stage-C translator core
(_stagec.py, imported UNCHANGED), over the hand-written prelude coq/Rt/RtMetaPre.v: state = the process globals
`rproc`, the thread-local `rthread` of the calling thread, and the stream.json files written; parson's API
(json_object_dotset_*, json_object_dotget_value, json_value_get_*, json_parse_string, json_serialize_*), strlen, strpbrk,
snprintf, version_parse, malloc of one `struct ovni_rcpu`, DL_APPEND are primitives there with exactly the meaning
Rt/RtMetaDefs.v gives the object model; `die()` is the error outcome E_DIE.  `G` (translate/gen.py) is injected by the
plug-in loader.

The runtime is written differently from the emulator code the core was made for (globals instead of a context pointer,
strings, die() instead of `return -1`).  Additions of this unit to the subset of the core (wrappers around GT.e_val /
GT.stmts / GT.gtype / GT.function, fail-closed like the core: whatever they do not recognise goes to the core, which
raises UNSUPPORTED file:line):
  1. `rthread.f` / `rproc.f` (members of the two global structs, read): `(get_rthread_f sx st)`; `rthread.f = e;`:
     `set_rthread_f (fun sx st => e)`; `atomic_load(&rproc.st)`: `(get_rproc_st sx st)`;
  2. string literals: `(str_lit [bytes])`; `const char *` is the nullable pointer type `cstr`;
  3. `double` is rendered as Z (the model's JSON numbers are integers; stated in RtMetaPre.v), conversions between
     integer types and double are dropped;
  4. `if (C) die(...);`  ->  `ite C (fail E_DIE) (rest)`; with C = `f(..) != 0` / `f(..) != JSONSuccess`, f an int-status
     primitive: `bind_ (or_die c_JSONSuccess? (f ..)) (rest)`; with C = `version_parse(v, arr) != 0`: the output array is
     bound: `bind (or_die (version_parse_out v)) (fun arr => rest)`;
  5. `char buf[N];` (uninitialised local array) followed by `snprintf(buf, N, "fmt", args..)` either as the initialiser
     `int w = snprintf(..)` or inside `if (snprintf(..) >= N) die(..)`: `bind (c_snprintf N fmt [args]) (fun r_ => ...)`
     binding the returned length and the buffer content;
  6. `T *x = malloc(sizeof(*x));`  ->  `bind malloc_<T> (fun x => ..)`; `DL_APPEND(rthread.f, x)` -> `DL_APPEND_rthread_f x`;
  7. functions that return a value after guards (ovni_attr_has, ovni_attr_get_*): kind `mval`, `return e;` = `eval e`;
  8. `memset(&rthread, 0, sizeof(rthread))` (exactly this shape) -> `zero_rthread`; `strcpy(rproc.f, src)` -> `strcpy_rproc_f`;
     `bool ok = atomic_compare_exchange_strong(&rproc.f, &local, v)` -> `bind (cas_rproc_f local v)` binding the flag and the
     value seen; `atomic_store(&rproc.f, v)` -> `set_rproc_f`; `die(..)` as a statement (else-if chains) -> `fail E_DIE`;
     conversions between pointer types the prelude identifies (void * / uint8_t *) are dropped;
 10. `struct ovni_ev x = {0}, y = {0};` (all-zero initialiser lists only) -> `ev_local_zero`; `&x` of such a local handed to
     the event-buffer calls of ovni_flush (ovni_ev_set_clock / set_mcv / ovni_ev_add, flush_evbuf, ovni_clock_now:
     primitives outside the metadata state, unit rtbuf) -> `(ev_local_ref x)`.
  9. set_thread_cpus (a `for` loop over the DL list building a JSON array) is NOT rendered statement by statement: the unit
     accepts it only in the exact counted shape described at _loop_function and renders it as the fold
     `array_of_list_loop meta "ovni.loom_cpus" <list> [("index", field index); ("phyid", field phyid)]`: the key, the member
     names, their order and the field behind each come from the source; what the parson calls inside the loop do (fresh
     object, json_object_set_number = set_value, append in order) is the meaning of that primitive in RtMetaPre.v.
Not translated (the construct that stops the subset):
  - ovni_mark_type / ovni_mark_label: `cond ? "stack" : "single"` on strings and `title[0] == '\\0'` (char subscripts).
"""
import importlib.util
import os
import re

_spec = importlib.util.spec_from_file_location("ovni_verif_stagec_rtmeta", os.path.join(os.path.dirname(os.path.abspath(__file__)), "_stagec.py"))
S = importlib.util.module_from_spec(_spec)
_spec.loader.exec_module(S)

FUNCS = os.environ.get(
    "RTMETA_FUNCS",
    "thread_metadata_store:proc,ovni_thread_require:proc,thread_metadata_populate:proc,thread_metadata_init:proc,"
    "set_thread_rank:proc,set_thread_cpus:proc,ovni_add_cpu:proc,ovni_proc_set_rank:proc,get_thread_metadata:alloc,"
    "ovni_attr_has:mval,ovni_attr_set_double:proc,ovni_attr_get_double:mval,ovni_attr_get_boolean:mval,"
    "ovni_attr_set_boolean:proc,ovni_attr_set_str:proc,ovni_attr_get_str:mval,ovni_attr_set_json:proc,"
    "ovni_attr_get_json:mval,ovni_attr_flush:proc,ovni_thread_free:proc,ovni_thread_init:proc,ovni_proc_init:proc,ovni_proc_fini:proc,ovni_flush:proc").split(",")
UNITS = [("src/rt/ovni.c", [tuple(f.split(":")) for f in FUNCS])]

GLOBALS = {"rthread", "rproc"}
DOUBLE = {"double"}


def _unq(q):
    return re.sub(r"\s+", " ", re.sub(r"\bconst\b", "", q or "")).strip()


def _is_die(s):
    ss = s.get("inner", []) if s.get("kind") == "CompoundStmt" else [s]
    ss = [x for x in ss if x.get("kind") != "NullStmt"]
    return len(ss) == 1 and ss[0].get("kind") == "CallExpr" and S._callee(ss[0]) == "vdie"


def _unparen(n):
    while n.get("kind") == "ParenExpr":
        n = n["inner"][0]
    return n


def _global_member(n):
    """rthread.f / rproc.f -> (global, field) ; else None"""
    n = S._strip(n)
    if n.get("kind") == "MemberExpr" and not n.get("isArrow"):
        b = S._strip(n["inner"][0])
        if b.get("kind") == "DeclRefExpr" and b.get("referencedDecl", {}).get("kind") == "VarDecl" and b["referencedDecl"]["name"] in GLOBALS:
            return b["referencedDecl"]["name"], n["name"]
    return None


def _cstring(node):
    """bytes of a StringLiteral node"""
    v = node["value"]
    if not (v.startswith('"') and v.endswith('"')):
        return None
    body = v[1:-1]
    out = bytearray()
    i = 0
    esc = {"n": 10, "t": 9, "r": 13, "\\": 92, '"': 34, "'": 39, "0": 0}
    while i < len(body):
        c = body[i]
        if c == "\\":
            i += 1
            if i >= len(body) or body[i] not in esc:
                return None
            out.append(esc[body[i]])
        else:
            if ord(c) > 127:
                return None
            out.append(ord(c))
        i += 1
    return bytes(out)


def _str_term(b):
    return "(str_lit [%s])" % "; ".join(str(x) for x in b)


_orig_gtype = S.GT.gtype


def _gtype(self, node):
    q = _unq(S._qt(node))
    if q in DOUBLE:
        return "Z"
    return _orig_gtype(self, node)


_orig_ity = S.GT.ity


def _ity(self, node):
    t = node.get("type", {})
    for c in (t.get("qualType"), t.get("desugaredQualType")):
        if c is not None and _unq(c) == "atomic_int":
            return "int32"
    return _orig_ity(self, node)


_orig_e_val = S.GT.e_val


def _e_val(self, n, env):
    k = n.get("kind")
    if k == "StringLiteral":
        b = _cstring(n)
        if b is None:
            self.bad(n, "string literal outside 7-bit ASCII / with an escape the unit does not read")
        return S.Val(_str_term(b))
    if k in ("ImplicitCastExpr", "CStyleCastExpr") and n.get("castKind") in ("IntegralToFloating", "FloatingToIntegral", "FloatingCast"):
        # JSON numbers are Z in the model: conversions int <-> double are the identity on the modelled domain
        return self.e_val(n["inner"][0], env)
    if k in ("ImplicitCastExpr", "CStyleCastExpr") and n.get("castKind") == "BitCast" and S._norm_ptr(S._qt(n)) == "void *" \
            and S._norm_ptr(S._qt(n["inner"][0])) in S.PTR and not self.cg._is_null(n):
        # pointer handed to a foreign call (free): passed as it is
        return self.e_val(n["inner"][0], env)
    if k in ("ImplicitCastExpr", "CStyleCastExpr") and n.get("castKind") == "BitCast" and not self.cg._is_null(n) \
            and S._norm_ptr(S._qt(n)) in S.PTR and S._norm_ptr(S._qt(n["inner"][0])) in S.PTR \
            and S.PTR[S._norm_ptr(S._qt(n))][0] == S.PTR[S._norm_ptr(S._qt(n["inner"][0]))][0]:
        # conversion between two pointer types the prelude does not distinguish (void * <-> uint8_t *)
        return self.e_val(n["inner"][0], env)
    if k == "UnaryOperator" and n.get("opcode") == "&":
        t = S._strip(n["inner"][0])
        if t.get("kind") == "DeclRefExpr" and t.get("referencedDecl", {}).get("kind") == "VarDecl" and \
                env.get(t["referencedDecl"]["name"], {}).get("zstruct"):
            # address of a zero-initialised local struct handed to foreign calls (the event being built: unit rtbuf)
            return S.Val("(%s_ref %s)" % (env[t["referencedDecl"]["name"]]["zstruct"], self.var(t, env)["g"]))
    if k == "AtomicExpr":
        inner = [c for c in n.get("inner", []) if isinstance(c, dict)]
        a = S._strip(inner[0]) if inner else {}
        if a.get("kind") == "UnaryOperator" and a.get("opcode") == "&":
            gm = _global_member(a["inner"][0])
            if gm is not None and len(inner) == 2 and S._strip(inner[1]).get("kind") == "IntegerLiteral":
                return S.Val("(get_%s_%s sx st)" % gm, None, True)       # atomic_load(&rproc.st)
        self.bad(n, "atomic operation other than atomic_load(&global.field)")
    if k == "MemberExpr":
        gm = _global_member(n)
        if gm is not None:
            return S.Val("(get_%s_%s sx st)" % gm, None, True)
    return _orig_e_val(self, n, env)


def _snprintf_call(self, call, env):
    """snprintf(buf, N, "fmt", args...) -> (local buffer name, N term, term of the call)"""
    args = call["inner"][1:]
    if len(args) < 3:
        self.bad(call, "snprintf with fewer than 3 arguments")
    buf = S._strip(args[0])
    if buf.get("kind") != "DeclRefExpr" or buf["referencedDecl"]["name"] not in env or not env[buf["referencedDecl"]["name"]].get("array"):
        self.bad(call, "snprintf into something that is not a local char array")
    name = buf["referencedDecl"]["name"]
    lit = args[1]
    while lit.get("kind") in ("ImplicitCastExpr", "ParenExpr", "CStyleCastExpr", "ConstantExpr"):
        lit = lit["inner"][0]
    if lit.get("kind") != "IntegerLiteral":
        self.bad(call, "snprintf size is not an integer constant")
    size = S.Val("(%s)" % lit["value"])
    if int(lit["value"]) != env[name]["array"]:
        self.bad(call, "snprintf size %s differs from the size %s of the array" % (lit["value"], env[name]["array"]))
    fmt = S._strip(args[2])
    if fmt.get("kind") != "StringLiteral" or _cstring(fmt) is None:
        self.bad(call, "snprintf format is not a string literal")
    fb = _cstring(fmt)
    specs = re.findall(rb"%(l{0,2}d|s)", fb)
    if fb.count(b"%") != len(specs) or len(specs) != len(args) - 3:
        self.bad(call, "snprintf format uses something else than %s %d %ld")
    vals = []
    for sp, a in zip(specs, args[3:]):
        v = self.e_val(a, env)
        if v.safe is not None:
            self.bad(call, "snprintf argument needs a safety condition")
        if sp == b"s":
            if not S._is_ptr(a):
                self.bad(call, "%s argument is not a string")
            vals.append("AStr %s" % v.t)
        else:
            if self.ity(a) is None:
                self.bad(call, "%d argument is not an integer")
            vals.append("AInt %s" % v.t)
    term = "(c_snprintf %s [%s] (fun sx st => [%s]))" % (size.t, "; ".join(str(x) for x in fb), "; ".join(vals))
    return name, size.t, term


_orig_stmts = S.GT.stmts


def _stmts(self, ss, env, kind):
    self.cur_env_names = set(env)
    if not ss:
        return _orig_stmts(self, ss, env, kind)
    s, rest = ss[0], ss[1:]
    k = s.get("kind")
    # ---- return of a value function with guards
    if k == "ReturnStmt" and kind == "mval":
        r = (s.get("inner") or [None])[0]
        if r is None:
            self.bad(s, "return without a value")
        v = self.e_val(r, env)
        self.gtype(r)
        return self.needed(v.safe, "(eval %s)" % self.fn_of_state(v.t))
    # ---- struct T x = {0} [, y = {0}] : zero-initialised by-value struct locals
    if k == "DeclStmt" and s["inner"] and all(v.get("kind") == "VarDecl" and S._norm_struct(S._qt(v)) in S.STRUCTS for v in s["inner"]):
        def all_zero(x):
            kk = x.get("kind")
            if kk == "ImplicitValueInitExpr":
                return True
            if kk == "IntegerLiteral":
                return x.get("value") == "0"
            if kk in ("InitListExpr", "ImplicitCastExpr"):
                return all(all_zero(c) for c in x.get("inner", []) if isinstance(c, dict))
            return False
        env2 = dict(env)
        names = []
        for v in s["inner"]:
            ini = [c for c in v.get("inner", []) if c.get("kind") != "FullComment"]
            if len(ini) != 1 or ini[0].get("kind") != "InitListExpr" or not all_zero(ini[0]):
                self.bad(v, "struct local that is not initialised with {0}")
            ty = S.STRUCTS[S._norm_struct(S._qt(v))]
            g = self.gname(v["name"])
            env2[v["name"]] = {"g": g, "cty": S._qt(v), "init": True, "zstruct": ty}
            names.append((g, ty))
        body_t = self.stmts(rest, env2, kind)
        for g, ty in reversed(names):
            body_t = "bind (eval (fun sx st => %s_zero)) (fun %s =>\n%s)" % (ty, g, body_t)
        return body_t
    # ---- local arrays; malloc; snprintf as an initialiser
    if k == "DeclStmt" and len(s["inner"]) == 1 and s["inner"][0].get("kind") == "VarDecl":
        v = s["inner"][0]
        q = _unq(S._qt(v))
        inits = [c for c in v.get("inner", []) if c.get("kind") not in ("FullComment",)]
        m = re.match(r"^(char|int) ?\[(\d+)\]$", q)
        if m and not inits:
            env2 = dict(env)
            env2[v["name"]] = {"g": self.gname(v["name"]), "cty": S._qt(v), "init": False, "array": int(m.group(2)), "elem": m.group(1)}
            return self.stmts(rest, env2, kind)
        if inits:
            ini = S._strip(inits[0])
            # T *x = malloc(sizeof(*x))
            if ini.get("kind") in ("ImplicitCastExpr", "CStyleCastExpr") and ini.get("castKind") == "BitCast":
                ini2 = S._strip(ini["inner"][0])
            else:
                ini2 = ini
            if ini2.get("kind") == "CallExpr" and S._callee(ini2) == "malloc":
                st = S._struct_of(S._qt(v))
                a = S._strip(ini2["inner"][1])
                ok = a.get("kind") == "UnaryExprOrTypeTraitExpr" and a.get("name") == "sizeof"
                if ok:
                    t = a
                    while t.get("inner"):
                        t = t["inner"][0]
                    ok = t.get("kind") == "DeclRefExpr" and t.get("referencedDecl", {}).get("name") == v["name"]
                if st is None or not ok:
                    self.bad(s, "malloc that is not `T *x = malloc(sizeof(*x))`")
                self.gtype(v)
                env2 = dict(env)
                g = self.gname(v["name"])
                env2[v["name"]] = {"g": g, "cty": S._qt(v), "init": True}
                return "bind malloc_%s (fun %s =>\n%s)" % (st, g, self.stmts(rest, env2, kind))
            if ini.get("kind") == "CallExpr" and S._callee(ini) == "snprintf" and self.ity(v) is not None:
                buf, size, term = _snprintf_call(self, ini, env)
                env2 = dict(env)
                g = self.gname(v["name"])
                env2[v["name"]] = {"g": g, "cty": S._qt(v), "init": True}
                env2[buf] = dict(env[buf], init=True)
                return "bind %s (fun r_ =>\nbind (eval (fun sx st => fst r_)) (fun %s =>\nbind (eval (fun sx st => snd r_)) (fun %s =>\n%s)))" % (
                    term, g, env[buf]["g"], self.stmts(rest, env2, kind))
    # ---- rthread.f = e ;
    if k == "BinaryOperator" and s.get("opcode") == "=":
        tgt, rhs = s["inner"]
        gm = _global_member(tgt)
        if gm is not None:
            v = self.e_val(rhs, env)
            return self.needed(v.safe, "bind_ (set_%s_%s %s)\n(%s)" % (gm[0], gm[1], self.fn_of_state(v.t), self.stmts(rest, env, kind)))
    # ---- die(...) as a statement (else-if chains of refusals): the function does not return
    if k == "CallExpr" and S._callee(s) == "vdie":
        return "fail E_DIE"
    # ---- bool ok = atomic_compare_exchange_strong(&global.f, &local, desired): success flag and the value seen
    if k == "DeclStmt" and len(s["inner"]) == 1 and s["inner"][0].get("kind") == "VarDecl":
        v0 = s["inner"][0]
        ini0 = [c for c in v0.get("inner", []) if c.get("kind") not in ("FullComment",)]
        if ini0 and S._strip(ini0[0]).get("kind") == "AtomicExpr":
            ae = S._strip(ini0[0])
            inner = [c for c in ae.get("inner", []) if isinstance(c, dict)]
            if len(inner) == 5:
                a0, a2 = S._strip(inner[0]), S._strip(inner[2])
                gm = _global_member(a0["inner"][0]) if a0.get("kind") == "UnaryOperator" and a0.get("opcode") == "&" else None
                loc = S._strip(a2["inner"][0]) if a2.get("kind") == "UnaryOperator" and a2.get("opcode") == "&" else {}
                if gm is None or loc.get("kind") != "DeclRefExpr" or loc["referencedDecl"]["name"] not in env or \
                        not env[loc["referencedDecl"]["name"]]["init"] or self.ity(v0) is None:
                    self.bad(s, "compare-exchange that is not `bool ok = atomic_compare_exchange_strong(&global.f, &local, v)`")
                ln = loc["referencedDecl"]["name"]
                des = self.e_val(inner[4], env)
                if des.dep or des.safe is not None:
                    self.bad(s, "compare-exchange with a state-dependent desired value")
                env2 = dict(env)
                g = self.gname(v0["name"])
                env2[v0["name"]] = {"g": g, "cty": S._qt(v0), "init": True}
                return "bind (cas_%s_%s %s %s) (fun r_ =>\nbind (eval (fun sx st => fst r_)) (fun %s =>\nbind (eval (fun sx st => snd r_)) (fun %s =>\n%s)))" % (
                    gm[0], gm[1], env[ln]["g"], des.t, g, env[ln]["g"], self.stmts(rest, env2, kind))
            self.bad(s, "atomic operation as an initialiser")
    # ---- atomic_store(&global.f, v)
    if k == "AtomicExpr":
        inner = [c for c in s.get("inner", []) if isinstance(c, dict)]
        a0 = S._strip(inner[0]) if inner else {}
        gm = _global_member(a0["inner"][0]) if a0.get("kind") == "UnaryOperator" and a0.get("opcode") == "&" else None
        if gm is None or len(inner) != 3 or S._qt(s).strip() != "void":
            self.bad(s, "atomic statement other than atomic_store(&global.f, v)")
        v = self.e_val(inner[2], env)
        return self.needed(v.safe, "bind_ (set_%s_%s %s)\n(%s)" % (gm[0], gm[1], self.fn_of_state(v.t), self.stmts(rest, env, kind)))
    # ---- strcpy(global.f, src)
    if k == "CallExpr" and S._callee(s) == "strcpy":
        a = s["inner"][1:]
        gm = _global_member(a[0]) if len(a) == 2 else None
        if gm is None:
            self.bad(s, "strcpy whose destination is not a field of a global")
        v = self.e_val(a[1], env)
        return self.needed(v.safe, "bind_ (strcpy_%s_%s %s)\n(%s)" % (gm[0], gm[1], self.fn_of_state(v.t), self.stmts(rest, env, kind)))
    # ---- memset(&rthread, 0, sizeof(rthread)) : the whole thread-local struct is zeroed
    if k == "CallExpr" and S._callee(s) == "memset":
        a = [S._strip(x) for x in s["inner"][1:]]
        ok = len(a) == 3
        if ok:
            tgt = a[0]
            while tgt.get("kind") in ("ImplicitCastExpr", "CStyleCastExpr", "ParenExpr"):
                tgt = tgt["inner"][0]
            ok = tgt.get("kind") == "UnaryOperator" and tgt.get("opcode") == "&"
            if ok:
                g = S._strip(tgt["inner"][0])
                ok = g.get("kind") == "DeclRefExpr" and g.get("referencedDecl", {}).get("name") in GLOBALS
                gname = g.get("referencedDecl", {}).get("name")
            z = a[1]
            ok = ok and z.get("kind") == "IntegerLiteral" and z.get("value") == "0"
            sz = a[2]
            ok = ok and sz.get("kind") == "UnaryExprOrTypeTraitExpr" and sz.get("name") == "sizeof"
            if ok:
                t = sz
                while t.get("inner"):
                    t = t["inner"][0]
                ok = t.get("kind") == "DeclRefExpr" and t.get("referencedDecl", {}).get("name") == gname
        if not ok:
            self.bad(s, "memset that is not memset(&global, 0, sizeof(global))")
        return "bind_ zero_%s\n(%s)" % (gname, self.stmts(rest, env, kind))
    # ---- DL_APPEND(rthread.cpus, cpu)
    if k == "DoStmt":
        name, args = self.macro_of(s)
        if name == "DL_APPEND" and len(args) == 2:
            m = re.match(r"^(\w+)\s*\.\s*(\w+)$", args[0])
            if m and m.group(1) in GLOBALS and args[1] in env and env[args[1]]["init"]:
                return "bind_ (DL_APPEND_%s_%s %s)\n(%s)" % (m.group(1), m.group(2), env[args[1]]["g"], self.stmts(rest, env, kind))
            self.bad(s, "DL_APPEND arguments are not (global.field, local)")
    # ---- if (C) die(...);
    if k == "IfStmt":
        parts = list(s["inner"])
        if len(parts) == 3 and _is_die(parts[1]):
            c = self.e_bool(parts[0], env)
            return self.needed(c.safe, "ite %s\n(fail E_DIE)\n(%s)" % (self.fn_of_state(c.t), self.stmts([parts[2]] + rest, env, kind)))
        if len(parts) == 2 and _is_die(parts[1]):
            cond = _unparen(parts[0])
            if cond.get("kind") == "BinaryOperator" and cond.get("opcode") in ("!=", ">="):
                a, b = cond["inner"]
                call = S._strip(a)
                b2 = S._strip(b)
                if call.get("kind") == "CallExpr":
                    name = S._callee(call)
                    if cond["opcode"] == "!=" and name == "version_parse":
                        # version_parse(version, arr) != 0 : the array is an output
                        args = call["inner"][1:]
                        arr = S._strip(args[1])
                        if b2.get("kind") != "IntegerLiteral" or b2.get("value") != "0" or arr.get("kind") != "DeclRefExpr" or \
                                not env.get(arr["referencedDecl"]["name"], {}).get("array"):
                            self.bad(s, "version_parse(v, arr) != 0 with arr not a local array")
                        an = arr["referencedDecl"]["name"]
                        v = self.e_val(args[0], env)
                        env2 = dict(env)
                        env2[an] = dict(env[an], init=True)
                        return self.needed(v.safe, "bind (or_die (version_parse_out %s)) (fun %s =>\n%s)" % (
                            v.t, env[an]["g"], self.stmts(rest, env2, kind)))
                    if cond["opcode"] == "!=" and name in S.PRIM_ACTION:
                        if b2.get("kind") == "IntegerLiteral" and b2.get("value") == "0":
                            return "bind_ (or_die (%s))\n(%s)" % (self.call_action(call, env), self.stmts(rest, env, kind))
                        if b2.get("kind") == "DeclRefExpr" and b2.get("referencedDecl", {}).get("kind") == "EnumConstantDecl":
                            cn = b2["referencedDecl"]["name"]
                            self.consts[cn] = None
                            return "bind_ (or_die_ne c_%s (%s))\n(%s)" % (cn, self.call_action(call, env), self.stmts(rest, env, kind))
                    if cond["opcode"] == ">=" and name == "snprintf":
                        buf, size, term = _snprintf_call(self, call, env)
                        bv = self.e_val(b, env)
                        if bv.dep or bv.safe is not None:
                            self.bad(s, "snprintf(..) >= non-constant")
                        env2 = dict(env)
                        env2[buf] = dict(env[buf], init=True)
                        return "bind %s (fun r_ =>\nbind (eval (fun sx st => snd r_)) (fun %s =>\nite (fun sx st => (Z.geb (fst r_) %s))\n(fail E_DIE)\n(%s)))" % (
                            term, env[buf]["g"], bv.t, self.stmts(rest, env2, kind))
            c = self.e_bool(cond, env)
            return self.needed(c.safe, "ite %s\n(fail E_DIE)\n(%s)" % (self.fn_of_state(c.t), self.stmts(rest, env, kind)))
    return _orig_stmts(self, ss, env, kind)


_orig_bind_args = S.GT.bind_args


def _bind_args(self, args, k):
    # the core puts the term it gets back right behind `bind_`: keep it one term
    t = _orig_bind_args(self, args, k)
    return "(%s)" % t if not t.startswith("(") else t



LOOP_FUNCS = {"set_thread_cpus"}


def _loop_function(self, fn):
    """A function of EXACTLY this counted shape (anything else: UNSUPPORTED):
         JSON_Value *V = json_value_init_array();            if (V == NULL) die(..);
         JSON_Array *A = json_array(V);                       if (A == NULL) die(..);
         for (struct T *c = <global>.<list>; c; c = c->next) {
             JSON_Value *E = json_value_init_object();        if (E == NULL) die(..);
             JSON_Object *O = json_object(E);                 if (O == NULL) die(..);
             if (json_object_set_number(O, "k1", c->f1) != 0) die(..);   ... one per member, in this order
             if (json_array_append_value(A, E) != 0) die(..);
         }
         if (json_object_dotset_value(<param>, "key", V) != 0) die(..);
       -> array_of_list_loop <param> (str_lit key) (get_<global>_<list>_list) [(str_lit k1, fld_T_f1); ...]
       (RtMetaPre.v: one object per list element in list order, members set in the order of the calls)."""
    self.fn = fn
    d = self.cg.clang_ast(self.tu_text, self.incs, fn, self.work)
    params = [c for c in d["inner"] if c["kind"] == "ParmVarDecl"]
    body = [c for c in d["inner"] if c["kind"] == "CompoundStmt"][0]

    def bad(n, why):
        self.bad(n, "loop function outside the counted shape: " + why)

    def decl_call(st, callee, nargs):
        if st.get("kind") != "DeclStmt" or len(st["inner"]) != 1 or st["inner"][0].get("kind") != "VarDecl":
            bad(st, "expected a declaration initialised by %s" % callee)
        v = st["inner"][0]
        ini = [c for c in v.get("inner", []) if c.get("kind") != "FullComment"]
        c = S._strip(ini[0]) if ini else {}
        if c.get("kind") != "CallExpr" or S._callee(c) != callee or len(c["inner"]) - 1 != nargs:
            bad(st, "expected %s" % callee)
        return v["name"], c

    def ref(n):
        n = S._strip(n)
        while n.get("kind") in ("ImplicitCastExpr", "ParenExpr"):
            n = n["inner"][0]
        return n["referencedDecl"]["name"] if n.get("kind") == "DeclRefExpr" else None

    def null_die(st, name):
        p = list(st.get("inner", [])) if st.get("kind") == "IfStmt" else []
        c = _unparen(p[0]) if p else {}
        if len(p) != 2 or not _is_die(p[1]) or c.get("kind") != "BinaryOperator" or c.get("opcode") != "==" or \
                ref(c["inner"][0]) != name or not self.cg._is_null(c["inner"][1]):
            bad(st, "expected `if (%s == NULL) die(..)`" % name)

    def status_die(st, callee):
        p = list(st.get("inner", [])) if st.get("kind") == "IfStmt" else []
        c = _unparen(p[0]) if p else {}
        ok = len(p) == 2 and _is_die(p[1]) and c.get("kind") == "BinaryOperator" and c.get("opcode") == "!="
        call = S._strip(c["inner"][0]) if ok else {}
        z = S._strip(c["inner"][1]) if ok else {}
        if not ok or call.get("kind") != "CallExpr" or S._callee(call) != callee or z.get("kind") != "IntegerLiteral" or z.get("value") != "0":
            bad(st, "expected `if (%s(..) != 0) die(..)`" % callee)
        return call["inner"][1:]

    ss = [x for x in body.get("inner", []) if x.get("kind") != "NullStmt"]
    if len(params) != 1 or len(ss) != 6:
        bad(body, "expected one parameter and six statements")
    vname, _ = decl_call(ss[0], "json_value_init_array", 0)
    null_die(ss[1], vname)
    aname, c = decl_call(ss[2], "json_array", 1)
    if ref(c["inner"][1]) != vname:
        bad(ss[2], "json_array of another value")
    null_die(ss[3], aname)
    f = ss[4]
    if f.get("kind") != "ForStmt":
        bad(f, "expected the for loop")
    fi = f["inner"]
    init, cond, inc, lbody = fi[0], fi[2], fi[3], fi[4]
    if init.get("kind") != "DeclStmt" or len(init["inner"]) != 1:
        bad(f, "loop initialisation")
    cv = init["inner"][0]
    ini = [x for x in cv.get("inner", []) if x.get("kind") != "FullComment"]
    gm = _global_member(ini[0]) if ini else None
    tstruct = S._struct_of(S._qt(cv))
    if gm is None or tstruct is None:
        bad(f, "the loop does not start at a list held in a global")
    cname = cv["name"]
    if ref(cond) != cname:
        bad(f, "loop condition is not the cursor")
    i2 = S._strip(inc)
    nx = S._strip(i2["inner"][1]) if i2.get("kind") == "BinaryOperator" and i2.get("opcode") == "=" else {}
    if ref(i2.get("inner", [{}])[0]) != cname or nx.get("kind") != "MemberExpr" or nx.get("name") != "next" or not nx.get("isArrow") or ref(nx["inner"][0]) != cname:
        bad(f, "loop step is not c = c->next")
    ls = [x for x in lbody.get("inner", []) if x.get("kind") != "NullStmt"] if lbody.get("kind") == "CompoundStmt" else []
    if len(ls) < 6:
        bad(lbody, "loop body")
    ename, _ = decl_call(ls[0], "json_value_init_object", 0)
    null_die(ls[1], ename)
    oname, c = decl_call(ls[2], "json_object", 1)
    if ref(c["inner"][1]) != ename:
        bad(ls[2], "json_object of another value")
    null_die(ls[3], oname)
    members = []
    for st in ls[4:-1]:
        a = status_die(st, "json_object_set_number")
        key = S._strip(a[1])
        fld = a[2]
        while fld.get("kind") in ("ImplicitCastExpr", "ParenExpr", "CStyleCastExpr"):
            fld = fld["inner"][0]
        if len(a) != 3 or ref(a[0]) != oname or key.get("kind") != "StringLiteral" or _cstring(key) is None or \
                fld.get("kind") != "MemberExpr" or not fld.get("isArrow") or ref(fld["inner"][0]) != cname or self.ity(fld) is None:
            bad(st, "member that is not json_object_set_number(O, \"k\", c->f)")
        members.append((_cstring(key), fld["name"]))
    a = status_die(ls[-1], "json_array_append_value")
    if len(a) != 2 or ref(a[0]) != aname or ref(a[1]) != ename:
        bad(ls[-1], "the object is not appended to the array")
    a = status_die(ss[5], "json_object_dotset_value")
    key = S._strip(a[1])
    if len(a) != 3 or ref(a[0]) != params[0]["name"] or key.get("kind") != "StringLiteral" or _cstring(key) is None or ref(a[2]) != vname:
        bad(ss[5], "the array is not stored with json_object_dotset_value(param, \"key\", V)")
    g = self.gname(params[0]["name"])
    head = "(* %s: %s %s (counted loop) *)\n" % (self.relpath, fn, d["type"]["qualType"].replace("*", "ptr"))
    return head + "Definition %s (%s : %s) : M unit :=\n  array_of_list_loop %s %s get_%s_%s_list\n    [%s].\n" % (
        fn, g, self.gtype(params[0]), g, _str_term(_cstring(key)), gm[0], gm[1],
        "; ".join("(%s, fld_%s_%s)" % (_str_term(k), tstruct, fl) for k, fl in members))

_orig_function = S.GT.function


def _function(self, fn, kind):
    if fn in LOOP_FUNCS:
        return _loop_function(self, fn)
    if kind != "mval":
        return _orig_function(self, fn, kind)
    self.fn = fn
    d = self.cg.clang_ast(self.tu_text, self.incs, fn, self.work)
    params = [c for c in d["inner"] if c["kind"] == "ParmVarDecl"]
    body = [c for c in d["inner"] if c["kind"] == "CompoundStmt"][0]
    rett = d["type"]["qualType"].split("(")[0].strip()
    env = {}
    plist = []
    for p in params:
        g = self.gname(p["name"])
        env[p["name"]] = {"g": g, "cty": S._qt(p), "init": True}
        plist.append("(%s : %s)" % (g, self.gtype(p)))
    if _unq(rett) in DOUBLE or _unq(rett) in self.cg.INT_TYPES:
        gt = "Z"
    elif S._norm_ptr(rett) in S.PTR:
        gt = S.PTR[S._norm_ptr(rett)][0]
    else:
        raise self.cg.Unsupported("UNSUPPORTED %s function %s: returns %s" % (self.relpath, fn, rett))
    head = "(* %s: %s %s *)\n" % (self.relpath, fn, d["type"]["qualType"].replace("*", "ptr"))
    term = self.stmts([body], env, kind)
    return head + "Definition %s %s : M %s :=\n%s.\n" % (fn, " ".join(plist), gt, S.indent(term))


def gen(work):
    S.G = G
    S.GT.e_val = _e_val
    S.GT.stmts = _stmts
    S.GT.gtype = _gtype
    S.GT.ity = _ity
    S.GT.function = _function
    S.GT.bind_args = _bind_args
    S.SX_T, S.ST_T = "renv", "rstate"
    S.PTR = {
        "char *": ("cstr", True),
        "JSON_Object *": ("ptr_jobject", True),
        "JSON_Value *": ("ptr_jvalue", True),
        "struct ovni_rcpu *": ("ptr_rcpu", True),
        "uint8_t *": ("ptr_bytes", True),
        "void *": ("ptr_bytes", True),
        "struct ovni_ev *": ("ptr_ev", True),
    }
    S.STRUCTS = {"struct ovni_ev": "ev_local"}
    S.NONNULL_LINK = set()
    S.PRIM_ACTION = {"json_object_dotset_number", "json_object_dotset_string", "json_object_dotset_boolean",
                     "json_object_dotset_value", "json_serialize_to_file_pretty"}
    S.PRIM_VALUE = {"json_value_get_object", "json_object_dotget_value", "json_value_get_type", "json_value_get_number",
                    "json_value_get_boolean", "json_value_get_string", "json_value_init_object", "json_parse_string",
                    "json_serialize_to_string", "strlen", "strpbrk", "malloc", "ovni_clock_now"}
    S.PRIM_ALLOC = set()
    # calls whose effect is outside the metadata state (event buffer, file descriptors, relocation): identity in RtMetaPre.v
    S.PRIM_PROC = {"free", "close", "move_thdir_to_final", "try_clean_dir",
                   "create_thread_dir", "create_trace_stream", "write_stream_header", "create_proc_dir",
                   "ovni_ev_set_clock", "ovni_ev_set_mcv", "flush_evbuf", "ovni_ev_add"}
    S.OUT_ACTION = {}
    S.BYREF_READ = set()
    S.INDIRECT_CALLS = {}
    S.MACRO_PRIM = set()
    S.MACRO_IGNORED = {"dbg"}
    ctext, defs = S.translate_files(work, UNITS)
    # the three string macros the metadata carries, as the configured ovni.h defines them
    inc, ver = G.ovni_h_dir(work)
    htxt = open(os.path.join(inc, "ovni.h")).read()
    macros = {}
    for nm in ("OVNI_LIB_VERSION", "OVNI_GIT_COMMIT", "OVNI_MODEL_VERSION"):
        m = re.search(r'^#define\s+%s\s+"([^"\\]*)"\s*$' % nm, htxt, re.M)
        if not m or any(ord(ch) > 127 for ch in m.group(1)):
            raise G.cg.Unsupported("UNSUPPORTED include/ovni.h.in: %s is not a plain string literal" % nm)
        macros[nm] = "[%s]" % "; ".join(str(ord(ch)) for ch in m.group(1))
    ctext += "(* string macros of ovni.h *)\nDefinition src_cfg : cfg := mkCfg %s %s %s.\n" % (
        macros["OVNI_LIB_VERSION"], macros["OVNI_GIT_COMMIT"], macros["OVNI_MODEL_VERSION"])
    text = (G.HEADER % "src/rt/ovni.c (unit rtmeta)") + \
        "From Coq Require Import ZArith List Bool.\n" \
        "From OV Require Import Base.CInt Rt.RtMetaDefs Rt.RtMetaPre.\n" \
        "Import ListNotations.\nLocal Open Scope Z_scope.\n\n" \
        "(* enum constants, evaluated by the compiler *)\n" + ctext + "\n" + "\n".join(defs)
    return {"RtMeta_gen.v": text}
