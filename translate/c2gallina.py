#!/usr/bin/env python3
"""c2gallina: translate small loop-free C functions of /repo into Gallina.

Input is clang's JSON AST (`-Xclang -ast-dump=json -ast-dump-filter=<fn>`) of a
probe translation unit that #include's the repo source file, so the functions
are the ones the compiler sees (static ones included).  Enum constants and
sizeof values are resolved by compiling and running a second probe with the
same includes (the real compiler computes them).

Supported subset (anything else raises Unsupported => the tie is broken and
the check says so):
  statements : compound, if/else, return, local scalar declarations with or
               without initialiser, assignment / ++ / += on local scalars,
               calls to die() (abort) and to err/warn/info/dbg (ignored),
               `if (outfn(args, arr) != 0) S` for functions listed in OUTFNS
               (they fill a local int array; modelled as option (list Z)).
  expressions: integer literals, parameters/locals, enum constants, sizeof,
               a[i] on int arrays, struct member chains rooted at a pointer
               parameter, + - * & | ^ << >> comparisons && || ! , casts
               (explicit and implicit integral casts become CInt.cast_<ty>),
               calls to other translated functions, `p == NULL`.

All C integers are Z.  Integral conversions are explicit (Base/CInt.v).
Arithmetic in unsigned types is wrapped; arithmetic in signed int is left
unwrapped (overflow there is undefined behaviour in C).
"""
import json
import os
import re
import subprocess
import sys
import tempfile


class Unsupported(Exception):
    pass


def unsupported(node, why=""):
    loc = node.get("range", {}).get("begin", {})
    line = loc.get("line") or loc.get("expansionLoc", {}).get("line") or loc.get("spellingLoc", {}).get("line")
    raise Unsupported("UNSUPPORTED %s %s (line %s)" % (node.get("kind"), why, line))


CLANG_FLAGS = ["-std=c11", "-D_POSIX_C_SOURCE=200809L", "-fsyntax-only", "-w"]


def parse_docs(s):
    dec = json.JSONDecoder()
    i = 0
    docs = []
    while i < len(s):
        while i < len(s) and s[i].isspace():
            i += 1
        if i >= len(s):
            break
        d, j = dec.raw_decode(s, i)
        docs.append(d)
        i = j
    return docs


def clang_ast(tu_text, incs, fn, workdir):
    p = os.path.join(workdir, "tu_%s.c" % fn)
    open(p, "w").write(tu_text)
    cmd = ["clang"] + CLANG_FLAGS + ["-I" + i for i in incs] + \
          ["-Xclang", "-ast-dump=json", "-Xclang", "-ast-dump-filter=" + fn, p]
    r = subprocess.run(cmd, stdout=subprocess.PIPE, stderr=subprocess.PIPE, text=True, timeout=120)
    if r.returncode != 0:
        raise Unsupported("UNSUPPORTED clang failed on %s: %s" % (fn, r.stderr[-500:]))
    for d in parse_docs(r.stdout):
        if d.get("kind") == "FunctionDecl" and d.get("name") == fn and \
                any(c.get("kind") == "CompoundStmt" for c in d.get("inner", [])):
            return d
    raise Unsupported("UNSUPPORTED function %s not found (renamed or removed?)" % fn)


INT_TYPES = {
    "int": "int32", "const int": "int32", "unsigned int": "uint32", "uint32_t": "uint32", "const uint32_t": "uint32",
    "int32_t": "int32", "uint8_t": "uint8", "const uint8_t": "uint8", "unsigned char": "uint8",
    "int8_t": "int8", "char": "int8", "uint16_t": "uint16", "int16_t": "int16",
    "size_t": "uint64", "unsigned long": "uint64", "uint64_t": "uint64", "const uint64_t": "uint64",
    "long": "int64", "int64_t": "int64", "const int64_t": "int64", "long long": "int64", "unsigned long long": "uint64",
    "ssize_t": "int64", "off_t": "int64", "_Bool": "uint8", "bool": "uint8",
}

# Functions that report through an int-array out parameter: name -> (model name, index of out arg)
OUTFNS = {"version_parse": ("version_parse", 1)}
IGNORED_CALLS = {"verr", "err", "warn", "info", "dbg", "rerr"}
ABORT_CALLS = {"vdie", "die", "abort"}


def ctype(node):
    t = node.get("type", {})
    q = t.get("desugaredQualType") or t.get("qualType")
    return q


def tyname(node):
    q = node.get("type", {}).get("qualType")
    d = node.get("type", {}).get("desugaredQualType")
    for c in (q, d):
        if c in INT_TYPES:
            return INT_TYPES[c]
    return None


class Translator:
    def __init__(self, incs, tu_text, workdir):
        self.incs = incs
        self.tu_text = tu_text
        self.workdir = workdir
        self.consts = {}      # enum constant name -> None (to resolve)
        self.sizeofs = {}     # C type text -> None
        self.out = []
        self.known_fns = set()

    # ---------------- expressions
    def e_int(self, n, env):
        k = n["kind"]
        if k in ("ParenExpr", "ConstantExpr"):
            return self.e_int(n["inner"][0], env)
        if k == "IntegerLiteral":
            return "(%s)" % n["value"]
        if k == "CharacterLiteral":
            return "(%s)" % n["value"]
        if k == "ImplicitCastExpr" or k == "CStyleCastExpr":
            ck = n.get("castKind")
            inner = n["inner"][0]
            if ck in ("LValueToRValue", "NoOp", "ArrayToPointerDecay", "FunctionToPointerDecay"):
                return self.e_int(inner, env)
            if ck == "IntegralCast":
                src = tyname(inner)
                dst = tyname(n)
                if dst is None:
                    unsupported(n, "cast to " + str(ctype(n)))
                a = self.e_int(inner, env)
                if src is not None and _widens(src, dst):
                    return a
                return "(cast_%s %s)" % (dst, a)
            if ck == "IntegralToBoolean":
                return "(b2z %s)" % self.e_bool(inner, env)
            unsupported(n, "castKind " + str(ck))
        if k == "DeclRefExpr":
            rd = n["referencedDecl"]
            if rd["kind"] == "EnumConstantDecl":
                self.consts[rd["name"]] = None
                return "c_%s" % rd["name"]
            if rd["kind"] in ("ParmVarDecl", "VarDecl"):
                if rd["name"] not in env:
                    unsupported(n, "variable %s not a local/param" % rd["name"])
                return env[rd["name"]]
            unsupported(n, "ref to " + rd["kind"])
        if k == "ArraySubscriptExpr":
            base, idx = n["inner"]
            return "(ix %s %s)" % (self.e_int(base, env), self.e_int(idx, env))
        if k == "MemberExpr":
            chain = []
            cur = n
            while cur["kind"] in ("MemberExpr", "ImplicitCastExpr", "ParenExpr"):
                if cur["kind"] == "MemberExpr":
                    chain.append(cur["name"])
                cur = cur["inner"][0]
            if cur["kind"] != "DeclRefExpr" or cur["referencedDecl"]["name"] not in env:
                unsupported(n, "member chain root")
            chain.reverse()
            return "(get_%s %s)" % ("_".join(chain), env[cur["referencedDecl"]["name"]])
        if k == "UnaryExprOrTypeTraitExpr":
            if n.get("name") != "sizeof":
                unsupported(n, "trait")
            if "argType" in n:
                t = n["argType"]["qualType"]
            else:
                t = n["inner"][0]["type"]["qualType"]
            t = re.sub(r"\bconst\b", "", t).strip()
            self.sizeofs[t] = None
            return "c_sizeof_%s" % _ident(t)
        if k == "UnaryOperator":
            op = n["opcode"]
            a = n["inner"][0]
            if op == "-":
                return "(- %s)" % self.e_int(a, env)
            if op == "!":
                return "(b2z (negb %s))" % self.e_bool(a, env)
            if op == "~":
                t = tyname(n)
                return "(cast_%s (Z.lnot %s))" % (t, self.e_int(a, env))
            unsupported(n, "unary " + op)
        if k == "BinaryOperator":
            op = n["opcode"]
            if op in ("==", "!=", "<", ">", "<=", ">=", "&&", "||"):
                return "(b2z %s)" % self.e_bool(n, env)
            a, b = n["inner"]
            x, y = self.e_int(a, env), self.e_int(b, env)
            t = tyname(n)
            if t is None:
                unsupported(n, "binary result type " + str(ctype(n)))
            tbl = {"+": "Z.add", "-": "Z.sub", "*": "Z.mul", "&": "Z.land", "|": "Z.lor", "^": "Z.lxor",
                   "<<": "Z.shiftl", ">>": "Z.shiftr", "/": "Z.quot", "%": "Z.rem"}
            if op not in tbl:
                unsupported(n, "binary " + op)
            r = "(%s %s %s)" % (tbl[op], x, y)
            if t.startswith("u") and op in ("+", "-", "*", "<<"):
                r = "(cast_%s %s)" % (t, r)
            return r
        if k == "CallExpr":
            callee = n["inner"][0]
            while callee["kind"] in ("ImplicitCastExpr", "ParenExpr"):
                callee = callee["inner"][0]
            name = callee.get("referencedDecl", {}).get("name")
            if name is None:
                unsupported(n, "indirect call")
            self.known_fns.add(name)
            args = [self.e_arg(a, env) for a in n["inner"][1:]]
            return "(%s %s)" % (name, " ".join(args))
        if k == "ConditionalOperator":
            c, a, b = n["inner"]
            return "(if %s then %s else %s)" % (self.e_bool(c, env), self.e_int(a, env), self.e_int(b, env))
        unsupported(n, "expression")

    def e_arg(self, n, env):
        # pointer arguments that are plain parameters are passed through
        cur = n
        while cur["kind"] in ("ImplicitCastExpr", "ParenExpr"):
            cur = cur["inner"][0]
        if cur["kind"] == "DeclRefExpr" and cur["referencedDecl"]["name"] in env:
            return env[cur["referencedDecl"]["name"]]
        if cur["kind"] == "StringLiteral":
            lit = json.loads(cur["value"])
            return "(Some [%s])" % "; ".join(str(ord(c)) for c in lit)
        return self.e_int(n, env)

    def e_bool(self, n, env):
        k = n["kind"]
        if k == "ParenExpr":
            return self.e_bool(n["inner"][0], env)
        if k == "ImplicitCastExpr" and n.get("castKind") in ("IntegralToBoolean",):
            return self.e_bool(n["inner"][0], env)
        if k == "UnaryOperator" and n["opcode"] == "!":
            return "(negb %s)" % self.e_bool(n["inner"][0], env)
        if k == "BinaryOperator":
            op = n["opcode"]
            a, b = n["inner"]
            if op == "&&":
                return "(andb %s %s)" % (self.e_bool(a, env), self.e_bool(b, env))
            if op == "||":
                return "(orb %s %s)" % (self.e_bool(a, env), self.e_bool(b, env))
            if op in ("==", "!="):
                # pointer == NULL
                if _is_null(b) or _is_null(a):
                    p = a if _is_null(b) else b
                    r = "(is_null %s)" % self.e_arg(p, env)
                    return r if op == "==" else "(negb %s)" % r
            tbl = {"==": "Z.eqb", "<": "Z.ltb", ">": "Z.gtb", "<=": "Z.leb", ">=": "Z.geb"}
            if op == "!=":
                return "(negb (Z.eqb %s %s))" % (self.e_int(a, env), self.e_int(b, env))
            if op in tbl:
                return "(%s %s %s)" % (tbl[op], self.e_int(a, env), self.e_int(b, env))
        return "(negb (Z.eqb %s 0))" % self.e_int(n, env)

    # ---------------- statements
    def stmts(self, ss, env, ctx):
        """Translate a statement list; returns a Gallina term of the function's result type."""
        if not ss:
            if ctx["void"]:
                return ctx["ret"]("tt")
            raise Unsupported("UNSUPPORTED control reaches end of non-void function %s" % ctx["fn"])
        s, rest = ss[0], ss[1:]
        k = s["kind"]
        if k == "CompoundStmt":
            return self.stmts(s.get("inner", []) + rest, env, ctx)
        if k == "NullStmt":
            return self.stmts(rest, env, ctx)
        if k == "ReturnStmt":
            if s.get("inner"):
                return ctx["ret"](self.e_int(s["inner"][0], env))
            return ctx["ret"]("tt")
        if k == "DeclStmt":
            term_env = dict(env)
            lets = []
            for v in s["inner"]:
                if v["kind"] != "VarDecl":
                    unsupported(v, "decl")
                name = v["name"]
                q = v["type"]["qualType"]
                if "[" in q:
                    # local array, to be filled by an OUTFN
                    continue
                if tyname(v) is None:
                    unsupported(v, "local of type " + q)
                inits = [c for c in v.get("inner", []) if c["kind"] not in ("FullComment",)]
                if inits:
                    val = self.e_int(inits[0], term_env)
                    lets.append((name, val))
                    term_env[name] = name
                else:
                    lets.append((name, "0"))   # uninitialised scalar: value irrelevant until assigned
                    term_env[name] = name
            body = self.stmts(rest, term_env, ctx)
            for name, val in reversed(lets):
                body = "let %s := %s in\n  %s" % (name, val, body)
            return body
        if k == "UnaryOperator" and s["opcode"] in ("++", "--"):
            tgt = s["inner"][0]
            name = _local_name(tgt, env)
            if name is None:
                unsupported(s, "++ on non-local")
            t = tyname(tgt)
            op = "Z.add" if s["opcode"] == "++" else "Z.sub"
            val = "(%s %s 1)" % (op, env[name])
            if t and t.startswith("u"):
                val = "(cast_%s %s)" % (t, val)
            return "let %s := %s in\n  %s" % (name, val, self.stmts(rest, env, ctx))
        if k in ("BinaryOperator", "CompoundAssignOperator") and s["opcode"] in ("=", "+=", "-=", "|=", "&="):
            tgt, rhs = s["inner"]
            name = _local_name(tgt, env)
            if name is None:
                unsupported(s, "assignment to non-local")
            val = self.e_int(rhs, env)
            if s["opcode"] != "=":
                op = {"+=": "Z.add", "-=": "Z.sub", "|=": "Z.lor", "&=": "Z.land"}[s["opcode"]]
                val = "(%s %s %s)" % (op, env[name], val)
                t = tyname(tgt)
                if t and t.startswith("u") and s["opcode"] in ("+=", "-="):
                    val = "(cast_%s %s)" % (t, val)
            return "let %s := %s in\n  %s" % (name, val, self.stmts(rest, env, ctx))
        if k == "CallExpr":
            callee = s["inner"][0]
            while callee["kind"] in ("ImplicitCastExpr", "ParenExpr"):
                callee = callee["inner"][0]
            name = callee.get("referencedDecl", {}).get("name")
            if name in ABORT_CALLS:
                return ctx["die"]
            if name in IGNORED_CALLS:
                return self.stmts(rest, env, ctx)
            unsupported(s, "call statement to %s" % name)
        if k == "IfStmt":
            parts = [c for c in s["inner"]]
            cond, then = parts[0], parts[1]
            els = parts[2] if len(parts) > 2 else None
            of = _outfn_cond(cond)
            if of is not None:
                fname, args, arr, failing_when_nonzero = of
                model, outidx = OUTFNS[fname]
                margs = [self.e_arg(a, env) for i, a in enumerate(args) if i != outidx]
                env2 = dict(env)
                env2[arr] = arr
                fail_branch = self.stmts([then] + rest, env, ctx)
                ok_branch = self.stmts(([els] if els else []) + rest, env2, ctx)
                if not failing_when_nonzero:
                    unsupported(s, "out-function tested with ==")
                return "match %s %s with\n  | None => %s\n  | Some %s => %s\n  end" % (
                    model, " ".join(margs), fail_branch, arr, ok_branch)
            c = self.e_bool(cond, env)
            tb = self.stmts([then] + rest, env, ctx) if not _terminates(then) else self.stmts([then], env, ctx)
            eb = self.stmts(([els] if els else []) + rest, env, ctx)
            return "if %s then %s\n  else %s" % (c, tb, eb)
        unsupported(s, "statement")

    # ---------------- function
    def function(self, fn, gname=None, section_vars=()):
        d = clang_ast(self.tu_text, self.incs, fn, self.workdir)
        params = [c for c in d["inner"] if c["kind"] == "ParmVarDecl"]
        body = [c for c in d["inner"] if c["kind"] == "CompoundStmt"][0]
        rett = d["type"]["qualType"].split("(")[0].strip()
        void = rett == "void"
        uses_die = _contains_call(body, ABORT_CALLS)
        env = {}
        plist = []
        for p in params:
            env[p["name"]] = p["name"]
            plist.append(p["name"])
        if uses_die or void:
            ctx = {"fn": fn, "void": void, "ret": lambda x: "(Ret %s)" % x, "die": "Die"}
        else:
            ctx = {"fn": fn, "void": void, "ret": lambda x: x, "die": None}
        term = self.stmts([body], env, ctx)
        g = gname or fn
        self.out.append("(* from C function %s: %s *)\nDefinition %s %s :=\n  %s.\n" % (
            fn, d["type"]["qualType"].replace("*", "ptr"), g, " ".join(plist), term))
        return g

    # ---------------- constants probe
    def resolve(self, cc="cc"):
        exprs = {}
        for nm in sorted(self.consts):
            exprs["c_%s" % nm] = nm
        for t in sorted(self.sizeofs):
            exprs["c_sizeof_%s" % _ident(t)] = "sizeof(%s)" % t
        if not exprs:
            return ""
        vals = probe_consts(self.tu_text, self.incs, exprs, self.workdir, cc)
        return "".join("Definition %s : Z := (%s).\n" % (k, vals[k]) for k in sorted(vals))


def probe_consts(tu_text, incs, exprs, workdir, cc="cc"):
    """Evaluate integer constant expressions in the context of a TU with the real compiler:
    each becomes the initialiser of a global and is read back from the generated assembly."""
    src = tu_text + "\n"
    for k, e in exprs.items():
        src += "const long long verif_%s = (long long)(%s);\n" % (k, e)
    p = os.path.join(workdir, "constprobe.c")
    open(p, "w").write(src)
    r = subprocess.run([cc, "-std=gnu11", "-w", "-O0", "-S", "-D_POSIX_C_SOURCE=200809L"] + ["-I" + i for i in incs] + [p, "-o", "-"],
                       stdout=subprocess.PIPE, stderr=subprocess.PIPE, text=True, timeout=120)
    if r.returncode != 0:
        raise Unsupported("UNSUPPORTED const probe does not compile: " + r.stderr[-400:])
    vals = {}
    lines = r.stdout.split("\n")
    for i, line in enumerate(lines):
        m = re.match(r"^verif_(\w+):", line)
        if m:
            for l2 in lines[i + 1:i + 4]:
                m2 = re.match(r"\s+\.quad\s+(-?\d+)", l2)
                if m2:
                    vals[m.group(1)] = int(m2.group(1))
                    break
                if re.match(r"\s+\.zero\s+8", l2):
                    vals[m.group(1)] = 0
                    break
    missing = [k for k in exprs if k not in vals]
    if missing:
        raise Unsupported("UNSUPPORTED const probe: no value for %s" % missing)
    return vals


def _widens(src, dst):
    """value-preserving integral conversion"""
    def info(t):
        signed = not t.startswith("u")
        bits = int(re.sub(r"\D", "", t))
        return signed, bits
    ss, sb = info(src)
    ds, db = info(dst)
    if ss == ds:
        return db >= sb
    if not ss and ds:
        return db > sb
    return False


def _ident(t):
    return re.sub(r"[^A-Za-z0-9]+", "_", t).strip("_")


def _is_null(n):
    cur = n
    while cur["kind"] in ("ImplicitCastExpr", "ParenExpr", "CStyleCastExpr"):
        if cur.get("castKind") == "NullToPointer":
            return True
        cur = cur["inner"][0]
    return cur["kind"] == "GNUNullExpr"


def _local_name(n, env):
    cur = n
    while cur["kind"] in ("ParenExpr",):
        cur = cur["inner"][0]
    if cur["kind"] == "DeclRefExpr" and cur["referencedDecl"]["kind"] == "VarDecl" and cur["referencedDecl"]["name"] in env:
        return cur["referencedDecl"]["name"]
    return None


def _terminates(s):
    k = s["kind"]
    if k == "ReturnStmt":
        return True
    if k == "CallExpr":
        callee = s["inner"][0]
        while callee["kind"] in ("ImplicitCastExpr", "ParenExpr"):
            callee = callee["inner"][0]
        return callee.get("referencedDecl", {}).get("name") in ABORT_CALLS
    if k == "CompoundStmt":
        inner = s.get("inner", [])
        return bool(inner) and any(_terminates(x) for x in inner)
    if k == "IfStmt":
        parts = s["inner"]
        return len(parts) > 2 and _terminates(parts[1]) and _terminates(parts[2])
    return False


def _contains_call(n, names):
    if n.get("kind") == "CallExpr":
        callee = n["inner"][0]
        while callee["kind"] in ("ImplicitCastExpr", "ParenExpr"):
            callee = callee["inner"][0]
        if callee.get("referencedDecl", {}).get("name") in names:
            return True
    return any(_contains_call(c, names) for c in n.get("inner", []) if isinstance(c, dict))


def _outfn_cond(cond):
    """match `f(args) != 0` with f in OUTFNS; returns (f, args, arrname, True)"""
    cur = cond
    while cur["kind"] == "ParenExpr":
        cur = cur["inner"][0]
    if cur["kind"] != "BinaryOperator" or cur["opcode"] not in ("!=", "=="):
        return None
    a, b = cur["inner"]
    call = a
    while call["kind"] in ("ImplicitCastExpr", "ParenExpr"):
        call = call["inner"][0]
    if call["kind"] != "CallExpr":
        return None
    callee = call["inner"][0]
    while callee["kind"] in ("ImplicitCastExpr", "ParenExpr"):
        callee = callee["inner"][0]
    name = callee.get("referencedDecl", {}).get("name")
    if name not in OUTFNS:
        return None
    if b["kind"] != "IntegerLiteral" or b["value"] != "0":
        return None
    args = call["inner"][1:]
    outidx = OUTFNS[name][1]
    arr = args[outidx]
    while arr["kind"] in ("ImplicitCastExpr", "ParenExpr"):
        arr = arr["inner"][0]
    if arr["kind"] != "DeclRefExpr":
        return None
    return name, args, arr["referencedDecl"]["name"], cur["opcode"] == "!="


def write_if_changed(path, text):
    try:
        if open(path).read() == text:
            return False
    except OSError:
        pass
    os.makedirs(os.path.dirname(path), exist_ok=True)
    open(path, "w").write(text)
    return True
