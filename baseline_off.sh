#!/bin/sh
# MANIFEST.hooks.baseline_off_cmd: the repository's own suite with the OVNI_VERIF guard OFF.
set -e
d=$(mktemp -d /var/tmp/ovni-verif-baseline.XXXXXX)
trap 'rm -rf "$d"' EXIT
cmake -G Ninja -S /repo -B "$d" -DCMAKE_BUILD_TYPE=RelWithDebInfo -DCMAKE_C_FLAGS=-Wno-error >/dev/null
cmake --build "$d" >/dev/null
ctest --test-dir "$d" -j8 --timeout 900 --output-junit "$d/junit.xml"
