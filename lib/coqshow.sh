#!/bin/sh
# usage: coqshow.sh <file.v relative to coq/> <line>  -- print the goal just before that line
f=$1; n=$2
cd /verif/coq
sed "${n}s/^/Show. Fail idtac \"STOP\". /" $f | head -n $n > /var/tmp/_dbg.v
mkdir -p /var/tmp/_dbgd && cp /var/tmp/_dbg.v /var/tmp/_dbgd/Dbg.v
timeout 120 coqc -Q . OV /var/tmp/_dbgd/Dbg.v 2>&1 | tail -40
