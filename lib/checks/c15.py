"""C15 - metadata merge is distribution-independent; conflicts are refused cleanly.

Theorems (coq/Props/Properties_C15.v) are about the Gallina model coq/Emu/MetaDefs.v of
system_init / load_cpus / load_appid / load_rank / create_thread.  This file ties the model to
the real `ovniemu` (exit status, terminating signal, thread.row, cpu.row, thread.prv, cpu.prv) on
bounded-exhaustive distributions of the per-process / per-loom attributes, permuted stream
enumeration orders and every single contradiction, and judges the implementation with a spec
decider written from the property text alone (functions spec_*)."""
import itertools
import json
import os
import shutil

from vf import common, trace

LEVEL = "proof"


# ----------------------------------------------------------------------------- streams
def S(loom, pid, tid, app=None, rank=None, nranks=None, cpus=None):
    return {"loom": loom, "pid": pid, "tid": tid, "app": app, "rank": rank, "nranks": nranks,
            "cpus": [list(c) for c in cpus] if cpus is not None else None}


def line_of(streams):
    """oracle line (without the command letter) of a stream list in enumeration order"""
    out = []
    for s in streams:
        o = lambda v: "-" if v is None else str(v)
        if s["cpus"] is None:
            c = "-"
        elif not s["cpus"]:
            c = "e"
        else:
            c = "/".join("%d:%d" % (i, p) for i, p in s["cpus"])
        out.append(",".join([common.hexs(s["loom"]), str(s["pid"]), str(s["tid"]), o(s["app"]), o(s["rank"]),
                             o(s["nranks"]), c]))
    return ";".join(out)


# ----------------------------------------------------------------------------- spec decider (property text only)
def spec_union(streams):
    """the union of the metadata: multiset of threads + per-process / per-loom attribute claims"""
    keys = tuple(sorted((s["loom"], s["pid"], s["tid"]) for s in streams))
    apps = frozenset((s["loom"], s["pid"], s["app"]) for s in streams if s["app"] is not None)
    ranks = frozenset((s["loom"], s["pid"], s["rank"], s["nranks"]) for s in streams if s["rank"] is not None)
    cpus = set()
    for s in streams:
        if s["cpus"] is not None:
            if not s["cpus"]:
                cpus.add((s["loom"], None))
            for i, p in s["cpus"]:
                cpus.add((s["loom"], (i, p)))
    return (keys, apps, ranks, frozenset(cpus))


def spec_contradictions(streams):
    """the contradictions named by the property; returns the list of those present"""
    keys, apps, ranks, cpus = spec_union(streams)
    found = []
    procs = sorted({(k[0], k[1]) for k in keys})
    looms = sorted({k[0] for k in keys})
    for pk in procs:
        a = {x[2] for x in apps if (x[0], x[1]) == pk}
        if len(a) > 1:
            found.append("app-differs")
        if not a:
            found.append("app-missing")
        r = {x[2] for x in ranks if (x[0], x[1]) == pk}
        if len(r) > 1:
            found.append("rank-differs")
        n = {x[3] for x in ranks if (x[0], x[1]) == pk and x[3] is not None}
        if len(n) > 1:
            found.append("nranks-differs")
    if len(set(keys)) != len(keys):
        found.append("duplicate-tid")
    for l in looms:
        cs = {c for (ll, c) in cpus if ll == l and c is not None}
        idx = {}
        phy = {}
        for i, p in cs:
            idx.setdefault(i, set()).add(p)
            phy.setdefault(p, set()).add(i)
        if any(len(v) > 1 for v in idx.values()):
            found.append("index-two-phyids")
        if any(len(v) > 1 for v in phy.values()):
            found.append("phyid-two-indices")
        if not cs:
            found.append("cpus-missing")
        elif any(j not in idx for i in idx for j in range(0, max(i, 0))):
            found.append("cpu-missing")
    return found


def spec_wellformed(streams):
    """valid metadata per doc/user/runtime/trace_spec.md (beyond the absence of contradictions)"""
    keys, apps, ranks, cpus = spec_union(streams)
    for (l, p, t) in keys:
        if p <= 0 or t <= 0 or "/" in l or not l:
            return False
    if any(a[2] <= 0 for a in apps):
        return False
    for (l, p, r, n) in ranks:
        if n is None or r < 0 or n <= 0 or r >= n:
            return False
    for l in {k[0] for k in keys}:
        pr = {(k[0], k[1]) for k in keys if k[0] == l}
        withrank = {(x[0], x[1]) for x in ranks if x[0] == l}
        if withrank and withrank != pr:
            return False          # rank known for some but not all processes of the loom
    for (l, c) in cpus:
        if c is None or c[0] < 0 or c[1] < 0:
            return False
    return True


def spec_rank_ties(streams):
    """two different processes with the same rank: 'by rank' names no order (left open by the property)"""
    _, _, ranks, _ = spec_union(streams)
    owner = {}
    for (l, p, r, n) in ranks:
        owner.setdefault(r, set()).add((l, p))
    return any(len(v) > 1 for v in owner.values())


def spec_rows(streams):
    """the ordering stated by the property, for valid metadata without rank ties:
    looms by minimum rank if every loom has ranks else by name; processes by rank or PID; threads by TID;
    CPUs by physical id, virtual CPU last. -> (thread labels, cpu labels)"""
    keys, apps, ranks, cpus = spec_union(streams)
    app = {(a[0], a[1]): a[2] for a in apps}
    rk = {(r[0], r[1]): r[2] for r in ranks}
    looms = sorted({k[0] for k in keys}, key=lambda l: l.encode("latin1"))
    has = {l: any(x[0] == l for x in rk) for l in looms}
    if all(has.values()):
        looms.sort(key=lambda l: min(v for x, v in rk.items() if x[0] == l))
    th = []
    cp = []
    for g, l in enumerate(looms):
        procs = sorted({k[1] for k in keys if k[0] == l})
        if has[l]:
            procs.sort(key=lambda p: rk[(l, p)])
        for p in procs:
            for t in sorted(k[2] for k in keys if k[0] == l and k[1] == p):
                th.append("TH %d.%d" % (app[(l, p)], t))
        for ph in sorted(c[1] for (ll, c) in cpus if ll == l):
            cp.append(" CPU %d.%d" % (g, ph))
        cp.append("vCPU %d.*" % g)
    return th, cp


# ----------------------------------------------------------------------------- running the emulator
def relpath_of(s, k, naming):
    if naming == "conv":
        return "loom.%s/proc.%d/thread.%d" % (s["loom"].replace("/", "_"), s["pid"], s["tid"])
    return naming[k]


def enumeration_order(streams, naming):
    """trace_load sorts the streams by relpath (strcmp)"""
    rel = [relpath_of(s, k, naming) for k, s in enumerate(streams)]
    idx = sorted(range(len(streams)), key=lambda k: rel[k].encode("latin1"))
    return [streams[k] for k in idx], [rel[k] for k in idx], idx


def run_cpu_of(streams):
    """CPU index each thread runs on: a physical CPU named by the union of its loom when there is one"""
    res = []
    seen = {}
    for s in streams:
        idx = sorted({c[0] for x in streams if x["loom"] == s["loom"] and x["cpus"] for c in x["cpus"] if c[0] >= 0})
        n = seen.get(s["loom"], 0)
        seen[s["loom"]] = n + 1
        if idx and n % 3 != 2:
            res.append(idx[n % len(idx)])
        else:
            res.append(-1)
    return res


def parse_row(text):
    if text is None:
        return None
    lines = text.split("\n")
    try:
        k = [i for i, ln in enumerate(lines) if ln.startswith("LEVEL THREAD SIZE")][0]
    except IndexError:
        return None
    n = int(lines[k].split()[-1])
    return lines[k + 1:k + 1 + n]


def prv_tid_rows(path):
    """{(row, tid)} for the non-zero values of event type 2 (TID of the thread / of the running thread)"""
    if not os.path.exists(path):
        return None
    try:
        _, recs = trace.parse_prv(path)
    except Exception:
        return None
    return sorted({(row, v) for (t, row, ty, v) in recs if ty == 2 and v != 0})


def emu_case(build, wd, tag, streams, naming, creation):
    """write the trace (directories created in the order `creation`), run ovniemu, collect the observables"""
    d = os.path.join(wd, tag)
    cpu = run_cpu_of(streams)
    for k in creation:
        s = streams[k]
        sd = os.path.join(d, relpath_of(s, k, naming))
        os.makedirs(sd, exist_ok=True)
        meta = trace.thread_meta(s["tid"], s["pid"], s["loom"], app_id=s["app"], cpus=s["cpus"],
                                 rank=s["rank"], nranks=s["nranks"])
        c0 = 10 + 100 * k
        pl = cpu[k].to_bytes(4, "little", signed=True) + (s["tid"] & 0xFFFFFFFF).to_bytes(4, "little") + (0).to_bytes(4, "little")
        evs = [trace.ev_bytes("OHx", c0, pl), trace.ev_bytes("OHe", c0 + 10)]
        with open(os.path.join(sd, "stream.obs"), "wb") as f:
            f.write(trace.STREAM_HEADER + b"".join(evs))
        with open(os.path.join(sd, "stream.json"), "w") as f:
            f.write(json.dumps(meta))
    rc, out, err = trace.run_tool(build, "ovniemu", [], d)
    obs = {"rc": rc, "err": err[-1500:]}
    if isinstance(rc, int) and rc < 0:
        obs["cls"] = "signal:%d" % (-rc)
    elif rc == 0:
        obs["cls"] = "ok"
    elif rc == 1 and "ERROR" in err:
        obs["cls"] = "err"
    else:
        obs["cls"] = "other:%s" % (rc,)
    for f in ("thread.row", "cpu.row"):
        p = os.path.join(d, f)
        obs[f] = parse_row(open(p).read()) if os.path.exists(p) else None
    obs["thread.tids"] = prv_tid_rows(os.path.join(d, "thread.prv"))
    obs["cpu.tids"] = prv_tid_rows(os.path.join(d, "cpu.prv"))
    obs["run_cpu"] = cpu
    shutil.rmtree(d, ignore_errors=True)
    return obs


def model_expect(ans, streams, cpu):
    """turn an oracle answer into (cls, thread labels, cpu labels, thread (row,tid), cpu (row,tid))"""
    if ans in ("err", "crash"):
        return (ans, None, None, None, None)
    _, _, t, _, c = ans.split(" ")
    th = []
    trow = {}
    for e in t.split(";"):
        row, lh, pid, tid, app = e.split(",")
        th.append("TH %s.%s" % (app, tid))
        trow[(lh, int(pid), int(tid))] = int(row)
    cl = []
    crow = {}
    vrow = {}
    for e in c.split(";"):
        f = e.split(",")
        if f[3] == "v":
            cl.append("vCPU %s.*" % f[1])
            vrow[f[2]] = int(f[0])
        else:
            cl.append(" CPU %s.%s" % (f[1], f[4]))
            crow[(f[2], int(f[3]))] = int(f[0])
    tt = sorted({(trow[(common.hexs(s["loom"]), s["pid"], s["tid"])], s["tid"]) for s in streams})
    ct = sorted({((vrow[common.hexs(s["loom"])] if cpu[k] == -1 else crow[(common.hexs(s["loom"]), cpu[k])]), s["tid"])
                 for k, s in enumerate(streams)})
    return ("ok", th, cl, tt, ct)


# ----------------------------------------------------------------------------- generators
CPUSETS = {2: [(0, 7), (1, 3)], 3: [(0, 5), (1, 9), (2, 2)]}


def shapes():
    """(loom, pid, tid) skeletons: 2-4 threads in 1-2 procs x 1-2 looms. Identifiers are chosen so that
    numeric order, strcmp order of the conventional relpath and list order all differ."""
    sk = []
    for nt in (2, 3, 4):
        sk.append([("nB", 1000, t) for t in (1002, 998, 1001, 999)[:nt]])
    sk.append([("nB", 1000, 1002), ("nB", 999, 998)])
    sk.append([("nB", 1000, 1002), ("nB", 999, 998), ("nB", 1000, 997)])
    sk.append([("nB", 1000, 1002), ("nB", 999, 998), ("nB", 1000, 997), ("nB", 999, 1003)])
    sk.append([("nB", 1000, 1002), ("nA", 999, 998)])
    sk.append([("nB", 1000, 1002), ("nA", 999, 998), ("nB", 1000, 997)])
    sk.append([("nB", 1000, 1002), ("nA", 999, 998), ("nB", 1000, 997), ("nA", 999, 1003)])
    sk.append([("nB", 1000, 1002), ("nA", 999, 998), ("nB", 200, 997), ("nA", 3000, 1003)])
    sk.append([("nB.x", 1000, 1002), ("nB", 1000, 998), ("nB", 30, 997)])
    return sk


def nonempty_subsets(xs):
    for r in range(1, len(xs) + 1):
        for c in itertools.combinations(xs, r):
            yield c


def cpu_distributions(members, cpus, limit, rng):
    """every way to give each thread of a loom an ordered sub-list (ascending or descending, or nothing)
    of the loom's CPU list so that the union is complete"""
    subs = [None]
    for c in nonempty_subsets(cpus):
        subs.append(list(c))
        if len(c) > 1:
            subs.append(list(reversed(c)))
    allc = []
    for combo in itertools.product(subs, repeat=len(members)):
        got = set()
        for x in combo:
            if x:
                got.update(x)
        if got == set(cpus):
            allc.append(combo)
    if limit is not None and len(allc) > limit:
        rng.shuffle(allc)
        allc = allc[:limit]
    return allc


def base_valid(skel, rankmode, ncpu, appmode):
    """a valid trace where the first thread of each process / loom carries every attribute"""
    procs = []
    for (l, p, t) in skel:
        if (l, p) not in procs:
            procs.append((l, p))
    looms = []
    for (l, p, t) in skel:
        if l not in looms:
            looms.append(l)
    nr = len(procs)
    out = []
    seenp = set()
    seenl = set()
    for (l, p, t) in skel:
        s = S(l, p, t)
        if (l, p) not in seenp:
            seenp.add((l, p))
            pi = procs.index((l, p))
            s["app"] = 1 if appmode == "same" else 1 + pi
            if rankmode == "rev":
                s["rank"], s["nranks"] = nr - 1 - pi, nr       # rank order opposite to creation order
            elif rankmode == "fwd":
                s["rank"], s["nranks"] = pi, nr
            elif rankmode == "cyc":
                # cyclic placement: in the first loom the process whose directory name sorts first does NOT hold the
                # loom's lowest rank, so "minimum rank of the loom" and "rank of its first process" order the looms differently
                li = looms.index(l)
                mine = sorted([k for k in procs if k[0] == l], key=lambda k: "proc.%d" % k[1])
                j = mine.index((l, p))
                s["rank"], s["nranks"] = (((len(mine) - 1 - j) if li == 0 else j) * len(looms) + li), len(looms) * max(
                    len([k for k in procs if k[0] == x]) for x in looms)
            elif rankmode in ("mixA", "mixB"):
                # MIXED trace (legal, only a warning): the processes of ONE loom carry ranks, the other loom has none,
                # so set_sort_criteria must keep sorting the looms by name ("only if ALL looms have ranks")
                ranked = looms[0] if rankmode == "mixA" else looms[-1]
                rp = [k for k in procs if k[0] == ranked]
                if l == ranked:
                    s["rank"], s["nranks"] = len(rp) - 1 - rp.index((l, p)), len(rp)
        if l not in seenl:
            seenl.add(l)
            off = 10 * looms.index(l)
            s["cpus"] = [[i, ph + off] for (i, ph) in CPUSETS[ncpu]]
        out.append(s)
    return out


def redistribute(base, rng, what, limit):
    """all (or `limit` sampled) redistributions of one attribute kind over the threads that may carry it"""
    res = []
    if what in ("app", "rank"):
        procs = {}
        for k, s in enumerate(base):
            procs.setdefault((s["loom"], s["pid"]), []).append(k)
        per = []
        for pk, ks in procs.items():
            src = [base[k] for k in ks if base[k]["app" if what == "app" else "rank"] is not None]
            if not src:
                per.append([()])
                continue
            per.append([(ks, sub, src[0]) for sub in nonempty_subsets(ks)])
        combos = list(itertools.product(*per))
        if limit is not None and len(combos) > limit:
            rng.shuffle(combos)
            combos = combos[:limit]
        for combo in combos:
            m = [dict(s) for s in base]
            for item in combo:
                if not item:
                    continue
                ks, sub, src = item
                for k in ks:
                    if what == "app":
                        m[k]["app"] = src["app"] if k in sub else None
                    else:
                        m[k]["rank"] = src["rank"] if k in sub else None
                        m[k]["nranks"] = src["nranks"] if k in sub else None
            res.append(m)
    else:
        looms = {}
        for k, s in enumerate(base):
            looms.setdefault(s["loom"], []).append(k)
        per = []
        for l, ks in looms.items():
            cpus = [tuple(c) for k in ks if base[k]["cpus"] for c in base[k]["cpus"]]
            per.append([(ks, d) for d in cpu_distributions(ks, cpus, limit, rng)])
        combos = list(itertools.product(*per))
        if limit is not None and len(combos) > limit:
            rng.shuffle(combos)
            combos = combos[:limit]
        for combo in combos:
            m = [dict(s) for s in base]
            for ks, d in combo:
                for k, sub in zip(ks, d):
                    m[k]["cpus"] = [list(c) for c in sub] if sub is not None else None
            res.append(m)
    return res


def contradictions_of(base):
    """every single contradiction applied to a valid trace: (label, streams)"""
    out = []
    n = len(base)

    def cp():
        return [dict(s, cpus=[list(c) for c in s["cpus"]] if s["cpus"] is not None else None) for s in base]
    procs = {}
    looms = {}
    for k, s in enumerate(base):
        procs.setdefault((s["loom"], s["pid"]), []).append(k)
        looms.setdefault(s["loom"], []).append(k)
    for pk, ks in procs.items():
        carrier = [k for k in ks if base[k]["app"] is not None][0]
        for k in ks:
            if k != carrier:
                m = cp(); m[k]["app"] = base[carrier]["app"] + 5
                out.append(("app-differs", m))
        m = cp()
        for k in ks:
            m[k]["app"] = None
        out.append(("app-missing", m))
        rc = [k for k in ks if base[k]["rank"] is not None]
        if rc:
            for k in ks:
                if k != rc[0]:
                    m = cp(); m[k]["rank"] = (base[rc[0]]["rank"] + 1) % base[rc[0]]["nranks"] if base[rc[0]]["nranks"] > 1 else None
                    m[k]["nranks"] = base[rc[0]]["nranks"]
                    if m[k]["rank"] is not None:
                        out.append(("rank-differs", m))
                    m = cp(); m[k]["rank"] = base[rc[0]]["rank"]; m[k]["nranks"] = base[rc[0]]["nranks"] + 1
                    out.append(("nranks-differs", m))
        # a second stream with the same loom, pid and tid
        m = cp(); m.append(dict(base[ks[0]], app=None, rank=None, nranks=None, cpus=None))
        out.append(("duplicate-tid", m))
        m = cp(); m.insert(0, dict(base[ks[-1]], app=None, rank=None, nranks=None, cpus=None))
        out.append(("duplicate-tid", m))
    for l, ks in looms.items():
        carrier = [k for k in ks if base[k]["cpus"]][0]
        cl = base[carrier]["cpus"]
        newphy = max(c[1] for c in cl) + 1
        newidx = len(cl)
        for k in ks:
            for where in ("front", "back"):
                for (lab, ent) in (("index-two-phyids", [cl[0][0], newphy]), ("index-two-phyids", [cl[-1][0], newphy]),
                                   ("phyid-two-indices", [newidx, cl[0][1]]), ("phyid-two-indices", [newidx, cl[-1][1]])):
                    m = cp()
                    cur = m[k]["cpus"] or []
                    m[k]["cpus"] = ([ent] + cur) if where == "front" else (cur + [ent])
                    out.append((lab, m))
        m = cp()
        for k in ks:
            m[k]["cpus"] = None
        out.append(("cpus-missing", m))
        for drop in range(len(cl) - 1):
            m = cp(); m[carrier]["cpus"] = [c for c in cl if c[0] != drop]
            out.append(("cpu-missing", m))
            m = cp(); m[carrier]["cpus"] = list(reversed([c for c in cl if c[0] != drop]))
            out.append(("cpu-missing", m))
    return out


def illformed_of(base):
    """invalid metadata that is not one of the property's contradictions: only the tie and 'no crash' are judged"""
    out = []

    def cp():
        return [dict(s, cpus=[list(c) for c in s["cpus"]] if s["cpus"] is not None else None) for s in base]
    m = cp(); m[0]["app"] = 0; out.append(("app-zero", m))
    m = cp(); m[0]["app"] = -3; out.append(("app-negative", m))
    m = cp(); m[-1]["cpus"] = []; out.append(("cpus-empty-array", m))
    m = cp(); m[0]["cpus"] = (m[0]["cpus"] or []) + [[-1, 40]]; out.append(("cpu-index-negative", m))
    m = cp(); m[0]["cpus"] = (m[0]["cpus"] or []) + [[len(m[0]["cpus"] or []), -1]]; out.append(("cpu-phyid-minus-one", m))
    m = cp(); m[0]["cpus"] = (m[0]["cpus"] or []) + [[len(m[0]["cpus"] or []), -2]]; out.append(("cpu-phyid-negative", m))
    m = cp(); m[0]["cpus"] = [[0, -2]] + (m[0]["cpus"] or []); out.append(("cpu-phyid-negative-first", m))
    m = cp(); m[0]["rank"] = 0; m[0]["nranks"] = None; out.append(("rank-without-nranks", m))
    m = cp(); m[0]["rank"] = None; m[0]["nranks"] = 4; out.append(("nranks-without-rank", m))
    m = cp(); m[0]["rank"] = 3; m[0]["nranks"] = 3; out.append(("rank-not-below-nranks", m))
    m = cp(); m[0]["rank"] = -1; m[0]["nranks"] = 3; out.append(("rank-negative", m))
    m = cp(); m[0]["rank"] = 0; m[0]["nranks"] = 0; out.append(("nranks-zero", m))
    m = cp(); m[-1]["tid"] = -5; out.append(("tid-negative", m))
    m = cp(); m[-1]["pid"] = -5; out.append(("pid-negative", m))
    m = cp(); m[-1]["loom"] = "a/b"; out.append(("loom-with-slash", m))
    if len({(s["loom"], s["pid"]) for s in base}) > 1:
        m = cp()
        for s in m:
            s["rank"] = None; s["nranks"] = None
        m[0]["rank"] = 0; m[0]["nranks"] = 2; out.append(("rank-in-one-process-only", m))
    return out


def namings(n, rng, how_many):
    """enumeration orders: the conventional relpaths, and explicit directory names realising permutations"""
    res = ["conv"]
    perms = list(itertools.permutations(range(n)))
    if len(perms) > how_many:
        rng.shuffle(perms)
        perms = [tuple(range(n)), tuple(reversed(range(n)))] + perms[:max(0, how_many - 2)]
    for pm in perms:
        res.append(tuple("s%02d" % pm[k] for k in range(n)))
    return res


# ----------------------------------------------------------------------------- the check
def load_corpus():
    d = os.path.join(common.VERIF, "corpus", "C15")
    out = []
    if os.path.isdir(d):
        for f in sorted(os.listdir(d)):
            if f.endswith(".json"):
                j = json.load(open(os.path.join(d, f)))
                out.append((f[:-5], j["streams"], j.get("naming", "list"), j.get("orders")))
    return out


def run(chk):
    chk.trusted_base = common.BASE_TRUST + [
        "translate/units/meta.py + _stagec.py: check_version, is_thread_stream, loom_name, proc_stream_get_pid, load_appid, load_rank, thread_stream_get_tid, thread_load_metadata, should_enable and the head / the JSON part of one loop iteration of load_cpus are rendered into coq/Gen/Meta_gen.v on every run; parson's look-up API, strcmp and the conversions double<->int are hand-written in coq/Emu/MetaPre.v over the JSON model of coq/Rt/RtMetaDefs.v (numbers are integers; `(int) d` is the identity on |d| < 2^31); clang's AST and the Python printer are trusted",
        "translate/units/metabuild.py: find_loom, create_thread, create_proc, create_loom, system_get_lpt, the loop body and the for statement of create_system (src/emu/system.c), loom_init_begin / loom_find_proc / loom_add_proc / loom_load_metadata (loom.c), proc_init_begin / proc_find_thread / proc_add_thread / proc_load_metadata (proc.c), thread_init_begin (thread.c) translated statement by statement to coq/Gen/MetaBuild_gen.v on every run; hand-written prelude coq/Emu/MetaBuildPre.v (the tables under construction are MetaDefs' fact tables; handles with a pending malloc'ed object; the gates and loaders of unit meta on the stream's claims; the pid/tid/loom/proc accessors, uthash/utlist macros, malloc, snprintf lengths, set_hostname and the virtual CPU as primitives; a struct stream * compared as its claims; loom names shorter than PATH_MAX)",
        "translate/units/_cmp.py + translate/c2gallina.py (clang JSON AST): the comparison part of the C comparators (loom.c by_pid/by_rank/by_phyid, proc.c by_tid, system.c cmp_loom_rank/cmp_loom_id) is translated to Gallina on every run, the statements that fetch the compared integers are pinned as normalised source text, not translated",
        "hand model coq/Emu/MetaDefs.v of system_init/load_cpus/load_appid/load_rank/create_thread/loom_sort/loom_init_end, "
        "validated on every run against ovniemu's exit status, signal, thread.row, cpu.row and the TID rows of thread.prv/cpu.prv",
        "uthash/utlist are modelled (insertion-ordered lists; HASH_SORT/DL_SORT as a stable sort), not verified",
        "parson (JSON) is modelled: the model starts from the attributes the emulator reads from each stream.json",
        "extraction (ExtrOcamlBasic only) + OCaml 4.13 + oracle/meta_drv.ml",
        "this file's trace writer, .row/.prv parsers and the spec decider written from the property text",
    ]
    chk.assumptions = ["attribute values fit a C int (the emulator casts the JSON double to int)",
                       "loom names are NUL-free and shorter than PATH_MAX",
                       "with equal ranks in two processes (invalid MPI metadata) the property fixes no order, only that it depends on the union alone: "
                       "judged by comparing enumerations (C15_union holds unconditionally since the tie-break repair; C15_union_rank_ties_refuted_old is the code before)",
                       "'duplicate TIDs' is read as the same (loom, pid, tid) in two streams"]
    chk.translate_and_prove(["cmp_meta", "version", "meta", "metabuild"])
    build = common.repo_build("hook")
    oracle = None
    try:
        oracle = common.build_oracle("meta", "Extract_meta", "meta_drv.ml", "meta_x")
    except Exception as e:
        chk.notes.append("oracle unavailable: %r" % (e,))
        if not getattr(chk, "proof_broken", None):
            chk.proof_broken = {"kind": "extraction", "error": repr(e)[:500]}

    rng = chk.rng
    cases = []          # dict(kind, label, streams (list order), naming)

    # ---- corpus first
    for (nm, streams, naming, orders) in load_corpus():
        n = len(streams)
        if orders:      # the same streams under several enumeration orders (rank ties)
            for oi, od in enumerate(orders):
                tie = spec_rank_ties(streams)
                cases.append({"kind": "corpus-ranktie" if tie else "corpus", "label": nm if tie else "%s#%d" % (nm, oi),
                              "streams": [streams[k] for k in od],
                              "naming": tuple("s%02d" % k for k in range(n))})
            continue
        cases.append({"kind": "corpus", "label": nm, "streams": streams,
                      "naming": tuple("s%02d" % k for k in range(n)) if naming == "list" else "conv"})

    # ---- bounded-exhaustive distributions and enumeration orders of valid traces
    lim = chk.budget(10, 80)
    nperm = chk.budget(3, 12)
    bases = []
    for si, skel in enumerate(shapes()):
        nlooms = len({l for (l, p, t) in skel})
        for rankmode in ("none", "rev", "fwd", "mixA", "mixB", "cyc"):
            if rankmode.startswith("mix") and nlooms < 2:
                continue
            if rankmode == "cyc" and (nlooms < 2 or len({(l, p) for (l, p, t) in skel}) < 3):
                continue
            for ncpu in (2, 3):
                for appmode in ("same", "distinct"):
                    if chk.tier == "quick" and rankmode == "fwd" and (ncpu == 3 or appmode == "distinct"):
                        continue
                    if chk.tier == "quick" and rankmode.startswith("mix") and ncpu == 3 and appmode == "distinct":
                        continue
                    bases.append(base_valid(skel, rankmode, ncpu, appmode))
                    chk.count("base:rank-" + rankmode)
    for bi, base in enumerate(bases):
        r = rng.fork("b%d" % bi)
        variants = [base]
        for what in ("app", "rank", "cpus"):
            variants += redistribute(base, r, what, lim)
        # a few combined redistributions
        for _ in range(chk.budget(3, 12)):
            m = base
            for what in ("app", "rank", "cpus"):
                m = r.choice(redistribute(m, r, what, 6))
            variants.append(m)
        for vi, m in enumerate(variants):
            nms = namings(len(m), r, nperm if vi % 5 == 0 else 2)
            for nm in nms:
                cases.append({"kind": "valid", "label": "valid", "streams": m, "naming": nm})
        # ---- every single contradiction, on the base and on one redistributed variant
        for m0 in ((base, variants[-1]) if chk.tier == "thorough" else (base,) if bi % 2 else (variants[-1],)):
            for (lab, m) in contradictions_of(m0):
                for nm in [r.choice(namings(len(m), r, 3)[1:])]:
                    cases.append({"kind": "contradiction", "label": lab, "streams": m, "naming": nm})
            for (lab, m) in illformed_of(m0):
                cases.append({"kind": "illformed", "label": lab, "streams": m, "naming": namings(len(m), r, 1)[1]})
        # ---- rank ties (the order among equal ranks is left open by the property, its independence of the enumeration is not)
        if sum(1 for s in base if s["rank"] is not None) > 1:
            m = [dict(s) for s in base]
            for s in m:
                if s["rank"] is not None:
                    s["rank"] = 0
            for nm in namings(len(m), r, 2)[1:]:
                cases.append({"kind": "ranktie", "label": "rank-tie", "streams": m, "naming": nm})

    # de-duplicate (same enumeration-ordered metadata and same directory names)
    seen = set()
    uniq = []
    for c in cases:
        ordered, rel, idx = enumeration_order(c["streams"], c["naming"])
        c["ordered"] = ordered
        c["perm"] = idx
        c["line"] = line_of(ordered)
        fp = (c["line"], tuple(rel))
        if fp in seen:
            continue
        seen.add(fp)
        uniq.append(c)
    cases = uniq

    # ---- model
    if oracle:
        ansB = common.batch(oracle, ["B " + c["line"] for c in cases], timeout=1200)
        ansU = common.batch(oracle, ["U " + c["line"] for c in cases], timeout=1200)
    else:
        ansB = ansU = [None] * len(cases)

    # ---- implementation
    wd = trace.workdir()
    try:
        def one(kc):
            k, c = kc
            n = len(c["streams"])
            creation = list(range(n))
            common.Prng(chk.seed).fork("cr%d" % k).shuffle(creation)
            return emu_case(build, wd, "c%d" % k, c["streams"], c["naming"], creation)
        obs = trace.pmap(one, list(enumerate(cases)))
    finally:
        shutil.rmtree(wd, ignore_errors=True)

    # ---- judge
    corr = []
    groups = {}
    unfixed_like = 0
    crash_keys = 0
    for c, o, aB, aU in zip(cases, obs, ansB, ansU):
        m = c["ordered"]
        chk.case(("emu", c["line"], c["naming"] if c["naming"] == "conv" else "dirs"))
        contra = spec_contradictions(m)
        wf = spec_wellformed(m)
        ties = spec_rank_ties(m)
        cls = o["cls"]
        replay = {"streams_in_enumeration_order": m, "oracle_line": c["line"], "kind": c["kind"], "label": c["label"],
                  "exit": o["rc"], "stderr_tail": o["err"][-600:], "thread.row": o["thread.row"], "cpu.row": o["cpu.row"],
                  "how": "one directory per stream holding stream.json (lib/vf/trace.py thread_meta) and a stream.obs with OHx/OHe; "
                         "directory names sort in the listed order; run ovniemu <dir>"}
        if contra:
            specclass = "contradictory"
        elif wf:
            specclass = "valid-ties" if ties else "valid"
        else:
            specclass = "illformed"
        chk.count("spec:" + specclass)
        chk.count("kind:" + c["kind"] + ":" + c["label"])
        chk.count("impl:" + cls.split(":")[0])
        # (1) never a crash, whatever the metadata
        if cls.startswith("signal") or cls.startswith("other"):
            if c["kind"] == "corpus":
                key = "corpus:%s:%s" % (c["label"], cls)
            else:
                key = "%s:%s" % (cls, c["line"])
                crash_keys += 1
                if crash_keys > 5:      # the first ones are enough as replays; all are counted
                    key = None
            chk.count("violation:" + cls + ":" + specclass)
            if key:
                chk.violation(key, "ovniemu terminates with %s on %s metadata (%s)" % (cls, specclass, c["label"]),
                              dict(replay, theorem="C15_conflicts_refuted / C15_union_refuted (Unfixed.build = Crash)"))
        # (2) contradictions are refused with an error message
        elif contra and cls != "err":
            chk.violation("accepts:%s" % c["line"], "contradictory metadata (%s) is not refused: %s" % (",".join(contra), cls), replay)
        # (3) valid metadata is accepted, with the stated ordering
        elif specclass in ("valid", "valid-ties") and cls != "ok":
            chk.violation("rejects-valid:%s" % c["line"], "valid metadata is refused: %s" % cls, replay)
        elif specclass == "valid":
            th, cp = spec_rows(m)
            if o["thread.row"] != th or o["cpu.row"] != cp:
                chk.violation("order:%s" % c["line"], "rows are not in the stated order: thread.row %s (want %s), cpu.row %s (want %s)"
                              % (o["thread.row"], th, o["cpu.row"], cp), dict(replay, want_thread_row=th, want_cpu_row=cp))
        # (4) same union => same outcome and identical rows; also with rank ties: since /repo's fix of by_rank /
        # cmp_loom_rank equal ranks are ordered by PID and by loom name, so nothing depends on the enumeration
        g = groups.setdefault(spec_union(m), [])
        g.append((c, o))
        # (5) tie with the model
        if aB is not None:
            cpu = [o["run_cpu"][k] for k in c["perm"]]
            exp = model_expect(aB, m, cpu)
            if cls == "ok":
                got = ("ok", o["thread.row"], o["cpu.row"], o["thread.tids"], o["cpu.tids"])
            else:
                got = ("err" if cls == "err" else "crash", None, None, None, None)
            if exp != got:
                if model_expect(aU, m, cpu) == got:
                    unfixed_like += 1
                else:
                    corr.append({"line": c["line"], "model": exp, "impl": got, "kind": c["kind"], "label": c["label"]})
    nun = 0
    for u, g in groups.items():
        if len(g) < 2:
            continue
        nun += 1
        c0, o0 = g[0]
        for (c1, o1) in g[1:]:
            a = (o0["cls"], o0["thread.row"], o0["cpu.row"])
            b = (o1["cls"], o1["thread.row"], o1["cpu.row"])
            if a != b and not (o0["cls"].startswith("signal") or o1["cls"].startswith("signal")):
                chk.violation("union:%s|%s" % (c0["line"], c1["line"]),
                              "same union of metadata, different result: %s vs %s" % (a, b),
                              {"a": c0["ordered"], "b": c1["ordered"], "a_result": a, "b_result": b})
                break
    chk.coverage["union_groups_compared"] = nun
    chk.coverage["impl_behaves_like_unrepaired_model"] = unfixed_like
    tie_obs = {}
    for c, o in zip(cases, obs):
        if c["kind"] == "ranktie":
            tie_obs.setdefault(spec_union(c["ordered"]), set()).add(json.dumps([o["cls"], o["thread.row"], o["cpu.row"]]))
    # regression case of the repaired defect: equal ranks in two processes were ordered by enumeration order (corpus/C15/05-rank-tie.json)
    tie_corpus = {}
    for c, o in zip(cases, obs):
        if c["kind"] == "corpus-ranktie":
            tie_corpus.setdefault(c["label"], []).append((c, o))
    for lab, g in sorted(tie_corpus.items()):
        c0, o0 = g[0]
        for (c1, o1) in g[1:]:
            if spec_union(c0["ordered"]) == spec_union(c1["ordered"]) and \
                    (o0["cls"], o0["thread.row"], o0["cpu.row"]) != (o1["cls"], o1["thread.row"], o1["cpu.row"]):
                chk.violation("rank-ties-order-dependent",
                              "two processes claiming the same rank make thread/CPU rows depend on stream enumeration order",
                              {"corpus": "corpus/C15/%s.json" % lab, "theorem": "C15_union_rank_ties_refuted_old (model of the code before the repair)",
                               "enumeration_a": c0["ordered"], "enumeration_b": c1["ordered"],
                               "a_result": [o0["cls"], o0["thread.row"], o0["cpu.row"]],
                               "b_result": [o1["cls"], o1["thread.row"], o1["cpu.row"]],
                               "how": "one directory per stream (names sorting in the listed order) with stream.json and an OHx/OHe "
                                      "stream.obs; run ovniemu on each enumeration and compare thread.row"})
                break
    chk.coverage["rank_tie_unions_observed"] = len(tie_obs)
    chk.coverage["rank_tie_unions_with_order_dependent_rows"] = sum(1 for v in tie_obs.values() if len(v) > 1)
    if cases:
        for k in (0, len(cases) // 3, 2 * len(cases) // 3, len(cases) - 1):
            chk.sample({"streams_in_enumeration_order": cases[k]["ordered"], "kind": cases[k]["kind"], "label": cases[k]["label"],
                        "impl": obs[k]["cls"], "thread.row": obs[k]["thread.row"], "cpu.row": obs[k]["cpu.row"], "model": ansB[k]})
    if corr:
        chk.coverage["correspondence_disagreements"] = corr[:10]
        if not chk.violations:
            chk.violation("broken-correspondence",
                          "model and ovniemu disagree on %d inputs, none of which violates the property's spec" % len(corr),
                          {"correspondence": "MetaDefs.build vs ovniemu", "disagreements": corr[:20]}, found_input=False)
    chk.coverage["traces_validated_against_impl"] = len(cases)
    chk.coverage["rule"] = ("skeletons of 2-4 threads in 1-2 processes x 1-2 looms (identifiers chosen so that numeric, strcmp and list "
                            "order differ); every placement of app_id / (rank,nranks) on a non-empty subset of a process's threads; every "
                            "placement of ascending/descending sub-lists of loom_cpus on a loom's threads with complete union (complete "
                            "when there are at most 10 (quick) / 80 (thorough) per skeleton, else that many sampled); stream enumeration "
                            "orders via directory names (up to 3 / 12 permutations) plus the conventional loom.X/proc.P/thread.T names, directories created in "
                            "shuffled order; every single contradiction at every carrier position; invalid-but-unlisted metadata; "
                            "rank ties. distinct = distinct (ordered metadata, directory naming)")
