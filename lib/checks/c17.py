"""C17 - mark API end to end: runtime calls -> metadata + events -> merged types/labels -> rows 100+t."""
import json
import os
import shutil

from vf import common, emucheck, emucore, trace
from checks import rtmeta_lib as RL

LEVEL = "proof"

TITLES = ["phase", "iteration", "a", "x y z", "phase"]
LABELS = ["init", "compute", "io", "x"]


def gen_program(rng, conflict=None):
    """a script for harness/mark_drv.c plus the Python-side expectation inputs"""
    nthreads = rng.range(1, 3)
    ntypes = rng.range(1, 4)
    types = {}
    for t in rng.shuffle(list(range(0, 8)))[:ntypes]:
        types[t] = {"stack": rng.chance(1, 2), "title": rng.choice(TITLES) + str(t)}
    lines = ["proc node1 500"]
    calls = []   # (thread index, call tuple)
    known = set()     # types defined by some thread so far
    for th in range(nthreads):
        tid = 501 + th
        lines.append("thread %d %d" % (tid, th if th < 2 else -1))
        defined = set()
        if th == 0:
            # the first thread defines every type up front (other threads may repeat definitions)
            for t0 in sorted(types):
                lines.append("type %d %d %s" % (t0, 1 if types[t0]["stack"] else 0, types[t0]["title"].encode().hex()))
                calls.append((0, ("type", t0, types[t0]["stack"], types[t0]["title"])))
                defined.add(t0)
                known.add(t0)
        open_stack = {t: [] for t in types}
        paused = False
        tstate = "run"
        for _ in range(rng.range(2, 18)):
            r = rng.below(100)
            t = rng.choice(sorted(types))
            if r < 18:
                if t in defined and conflict is None:
                    continue      # redefinition in the same thread aborts: only in conflict programs
                # define a type (other threads sometimes repeat a definition identically)
                stack = types[t]["stack"]
                title = types[t]["title"]
                if conflict == "title" and th > 0 and rng.chance(1, 2):
                    title = title + "_other"
                if conflict == "chan_type" and th > 0 and rng.chance(1, 2):
                    stack = not stack
                if conflict == "bad_type" and rng.chance(1, 4):
                    t = rng.choice([-1, 100, 150])
                if conflict == "empty_title" and rng.chance(1, 4):
                    title = rng.choice(["", None])
                lines.append("type %d %d %s" % (t, 1 if stack else 0, "NULL" if title is None else (title.encode().hex() or "-")))
                calls.append((th, ("type", t, stack, title)))
                if 0 <= t < 100 and title:
                    defined.add(t)
            elif r < 32:
                v = rng.range(1, 4)
                lab = LABELS[(v + t) % len(LABELS)]
                if conflict is None and (t not in defined or (th, t, v) in [(c[0], c[1][1], c[1][2]) for c in calls if c[1][0] == "label"]):
                    continue
                if conflict == "label" and th > 0 and rng.chance(1, 2):
                    # another label for the same value: longer, a proper prefix of the first one, or unrelated
                    lab = rng.choice([lab + "_other", lab[:-1] or "z", lab[:1] if len(lab) > 1 else "zz", "x" + lab])
                if conflict == "label_zero" and rng.chance(1, 3):
                    v = rng.choice([0, -2])
                if conflict == "undefined_label" and rng.chance(1, 3):
                    t = 9
                lines.append("label %d %d %s" % (t, v, lab.encode().hex()))
                calls.append((th, ("label", t, v, lab)))
            elif r < 40:
                # thread state changes: Running -p-> Paused -r-> Running, or through Cooling / Warming
                # (the thread is active - and its marks shown - while running, cooling or warming)
                nxt = {"run": [("pause", "paused"), ("cool", "cooling")], "cooling": [("pause", "paused")],
                       "paused": [("resume", "run"), ("warm", "warming")], "warming": [("resume", "run")]}[tstate]
                cmd, tstate = rng.choice(nxt)
                lines.append(cmd)
                paused = tstate != "run"
            else:
                v = rng.range(1, 4) if not (conflict == "zero_value" and rng.chance(1, 4)) else 0
                if conflict == "undefined_type" and rng.chance(1, 4):
                    t = 9
                stack = types.get(t, {"stack": False})["stack"]
                if conflict == "wrong_kind" and rng.chance(1, 3):
                    stack = not stack
                if stack:
                    stk = open_stack.setdefault(t, [])
                    if stk and rng.chance(1, 2):
                        pv = stk[-1]
                        if conflict == "mismatched_pop" and rng.chance(1, 2):
                            pv = pv + 1
                        lines.append("pop %d %d" % (t, pv))
                        calls.append((th, ("pop", t, pv)))
                        if pv == stk[-1]:
                            stk.pop()
                    else:
                        lines.append("push %d %d" % (t, v))
                        calls.append((th, ("push", t, v)))
                        if v:
                            stk.append(v)
                else:
                    lines.append("set %d %d" % (t, v))
                    calls.append((th, ("set", t, v)))
        if tstate in ("paused", "warming"):
            lines.append("resume")
        lines.append("endthread")
    lines.append("endproc")
    return lines, calls


def run(chk):
    build, oracle, tables = emucheck.setup(chk, extra_units=("pv", "connect", "markread", "codec", "rtbuf", "rtmeta", "rtmark"))   # connect: ovni/mark.c wiring (C17_mark_wiring_from_source_partial); markread: its metadata readers (C17_mark_readers_from_source)
    chk.trusted_base.append("translate/units/connect.py: the connect-time code of ovni/mark.c (and of thread.c, cpu.c, track.c, model_*.c) translated to "
                            "Gallina on every run and run inside Coq from the empty bay (C17_mark_wiring_from_source_partial); hand-written prelude "
                            "coq/Emu/ConnectPre.v and driver ConnectProofs.connect_all; the mark types come from the environment there (the readers are unit markread)")
    chk.trusted_base.append("translate/units/markread.py: parse_number / find_label / add_label / parse_labels / find_mark_type / create_mark_type / parse_mark / "
                            "scan_thread of src/emu/ovni/mark.c translated statement by statement to coq/Gen/MarkRead_gen.v on every run; hand-written prelude "
                            "coq/Emu/MarkReadPre.v (parson look-ups as in Rt/RtMetaDefs.v, strtol = Emu/VParsePre.v, uthash tables as insertion-ordered lists with "
                            "a pending calloc'ed object, snprintf's returned length); mark_create's loop over the threads is MarkReadProofs.run_threads (hand-written); "
                            "member names contain no NUL byte (C strings)")
    # unit rtmark (+ codec, rtbuf, rtmeta it builds on): the runtime half, C17_runtime_marks_from_source
    chk.trusted_base.append("translate/units/rtmark.py (on top of translate/units/rtmeta.py and _stagec.py): ovni_mark_type / ovni_mark_label of "
                            "src/rt/ovni.c translated to Gallina on every run over coq/Rt/RtMetaPre.v + coq/Rt/RtMarkPre.v (char_at); ovni_mark_push/"
                            "pop/set are the functions of unit rtbuf (coq/Gen/RtBuf_gen.v over coq/Rt/RtBufPre.v); proved equal to the tree-level model "
                            "MarkJsonDefs.mstep and to RtBufDefs.step (coq/Proofs/RtMarkGenProofs.v)")
    chk.trusted_base.append("harness/mark_drv.c: script driver on the real libovni with an interposed clock_gettime; calls that may abort are tried in a forked child")
    chk.assumptions = ["threads of the driver run one after the other (concurrency of the runtime is C11's subject)",
                       "events of undefined or mismatching types are written by the runtime and refused in emulation, as the property allows"]
    rng = chk.rng
    hsrc = os.path.join(common.VERIF, "harness", "mark_drv.c")
    drv = os.path.join(common.BUILD, "harness", "mark_drv-%s-%s" % (build.tree, common.hashlib.md5(open(hsrc, "rb").read()).hexdigest()[:8]))
    if not os.path.exists(drv):
        common.cc_harness(drv, [os.path.join(common.VERIF, "harness", "mark_drv.c")], build,
                          extra=["-L" + build.libdir, "-lovni", "-lpthread", "-Wl,-rpath," + build.libdir])
    kinds = [None] * 6 + ["title", "chan_type", "label", "zero_value", "undefined_type", "wrong_kind", "mismatched_pop",
                          "bad_type", "empty_title", "label_zero", "undefined_label"]
    n = chk.budget(220, 2500)
    progs = []
    for i in range(n):
        r = rng.fork("p%d" % i)
        k = kinds[i % len(kinds)]
        lines, calls = gen_program(r, k)
        progs.append((k, lines, calls))
    # fixed conflicts between two threads: the second label longer than, a prefix of, and unrelated to the first
    for (l1, l2) in (("Red", "Reddish"), ("Reddish", "Red"), ("Reddish", "R"), ("Red", "Blue"), ("a", "")):
        if not l2:
            continue
        fl = ["proc node1 500",
              "thread 501 0", "type 3 1 %s" % b"colour".hex(), "label 3 7 %s" % l1.encode().hex(), "push 3 7", "pop 3 7", "endthread",
              "thread 502 1", "type 3 1 %s" % b"colour".hex(), "label 3 7 %s" % l2.encode().hex(), "push 3 7", "pop 3 7", "endthread",
              "endproc"]
        fc = [(0, ("type", 3, True, "colour")), (0, ("label", 3, 7, l1)), (0, ("push", 3, 7)), (0, ("pop", 3, 7)),
              (1, ("type", 3, True, "colour")), (1, ("label", 3, 7, l2)), (1, ("push", 3, 7)), (1, ("pop", 3, 7))]
        progs.append(("label", fl, fc))
    wd = trace.workdir()
    scs = []
    rt_bad = []
    try:
        def run_prog(ix):
            k, lines, calls = progs[ix]
            d = os.path.join(wd, "p%d" % ix)
            os.makedirs(d)
            rc, out, err = common.run([drv], input="\n".join(lines) + "\n", env={"OVNI_TRACEDIR": os.path.join(d, "ovni")}, cwd=d, timeout=60)
            if k is None and ix % 3 == 0:
                # a second node running the same program with the same TIDs (TIDs are unique per node only): its
                # marks must show up in its own rows
                l2 = ["proc node2 600"] + lines[1:]
                common.run([drv], input="\n".join(l2) + "\n", env={"OVNI_TRACEDIR": os.path.join(d, "ovni"), "MARK_DRV_CLOCK_SHIFT": "5"}, cwd=d, timeout=60)
            return rc, out.split("\n"), err
        res = trace.pmap(run_prog, range(len(progs)))
        # ---- runtime side: die/ok per call and resulting metadata, judged by the documented rules
        for ix, ((k, lines, calls), (rc, out, err)) in enumerate(zip(progs, res)):
            d = os.path.join(wd, "p%d" % ix, "ovni")
            chk.case(("rt", tuple(lines)))
            chk.count("program:" + (k or "clean"))
            # expected outcome of every call by the documented rules (independent of the Coq model)
            defs = {}
            li = 0
            th = -1
            for ln, o in zip(lines, out):
                f = ln.split()
                if f[0] == "thread":
                    th += 1
                    defs = {}
                exp = "ok"
                if f[0] == "type":
                    t = int(f[1]); title = f[3]
                    if not (0 <= t < 100) or title in ("NULL", "-") or t in defs:
                        exp = "die"
                    else:
                        defs[t] = {}
                elif f[0] == "label":
                    t = int(f[1]); v = int(f[2])
                    if not (0 <= t < 100) or v <= 0 or f[3] in ("NULL", "-") or t not in defs or v in defs[t]:
                        exp = "die"
                    else:
                        defs[t][v] = f[3]
                elif f[0] in ("push", "pop", "set"):
                    if int(f[2]) == 0:
                        exp = "die"
                if o != exp:
                    chk.violation("runtime-call:%s" % ln.replace(" ", "_")[:50], "libovni answers %r to `%s` (thread %d), the documented rules say %r" % (o, ln, th, exp),
                                  {"script": lines, "line": ln})
                    break
            if not os.path.isdir(d):
                continue
            s = emucore.scenario_from_dir(d, tables)
            scs.append((ix, s))
        # ---- emulator side on the very traces the runtime wrote
        real = emucore.run_real(build, [s for (_, s) in scs], keep_files=True)
        mod = emucore.run_oracle(oracle, [s for (_, s) in scs]) if oracle else [None] * len(scs)
        corr = []
        for (ix, s), r, m in zip(scs, real, mod):
            k = progs[ix][0]
            desc = s.describe()
            chk.case(("emu", tuple(progs[ix][1])))
            chk.count("emu:%s:%s" % (k or "clean", "accepted" if r["rc"] == 0 else "rejected"))
            key = common.hashlib.md5(repr(progs[ix][1]).encode()).hexdigest()[:12]
            if k is None and r["rc"] != 0:
                chk.violation("rejects-clean-marks:" + key, "ovniemu rejects the trace of a correct mark program: %s" % emucore._first_error(r["stderr"]),
                              {"script": progs[ix][1], "stderr": r["stderr"][:1200]})
            if r["rc"] == 0 and r["rows"] is not None:
                why = mark_rows_ok(s, r, progs[ix])
                if why:
                    chk.violation("mark-rows:" + key, why, {"script": progs[ix][1]})
                why = emucore.decide_views(s, r["rows"], emucore.py_spec(s)[1], with_marks(tables, s))
                if why:
                    chk.violation("mark-views:" + key, why, {"script": progs[ix][1]})
            if r["rc"] == 0 and "thread.pcf" in r.get("files", {}):
                want = expected_pcf(s)
                for fn in ("thread.pcf", "cpu.pcf"):
                    got = pcf_marks(r["files"].get(fn, ""))
                    if want is not None and fn in r["files"] and got != want:
                        chk.violation("mark-labels:" + key, "%s declares the mark types/labels %s, the threads registered %s" % (fn, got, want),
                                      {"script": progs[ix][1]})
                        break
            for kk in ("title", "chan_type", "label"):
                if r["rc"] == 0 and conflict_present(s, kk):
                    chk.violation("accepts-conflict:" + key, "ovniemu accepts threads whose %s definitions conflict" % kk, {"script": progs[ix][1]})
                    break
            if False:
                chk.violation("accepts-conflict:" + key, "ovniemu accepts threads whose %s definitions conflict" % k, {"script": progs[ix][1]})
            if m is not None:
                dd = emucore.compare(s, r, m)
                if dd:
                    corr.append((progs[ix][1], dd))
                elif m[0] == "ok" and r["rc"] == 0:
                    pl = pcf_marks(r["files"].get("thread.pcf", ""))
                    ml = model_marks(m[1].get("_marks", []))
                    if pl != ml:
                        corr.append((progs[ix][1], "PCF mark types/labels differ: ovniemu %s, model %s" % (pl, ml)))
        chk.sample({"script": progs[0][1], "ovniemu_exit": real[0]["rc"] if real else None})
        chk.sample({"script": progs[7][1]})
    finally:
        shutil.rmtree(wd, ignore_errors=True)
    chk.coverage["rule"] = ("generated mark programs (1-3 threads, 1-4 types single/stack, labels, pause/resume in between) run on the real libovni, then "
                            "ovniemu on the trace it wrote; 6 of 17 programs are clean, the others carry one kind of conflict (title, channel type, label, zero value, "
                            "undefined type, push on single/set on stack, mismatched pop, type out of range, empty title, label value <= 0, label of undefined type); "
                            "every call's ok/die is judged by the documented rules, rows 100+t and the PCF by an independent reconstruction, and everything is compared "
                            "with the extracted Coq model")
    emucheck.finish_corr(chk, corr)
    try:
        markjson_family(chk, build)
    except Exception as e:  # noqa
        import traceback
        chk.notes.append("markjson family could not run: %r" % (e,))
        chk.coverage["markjson_error"] = traceback.format_exc()[-1500:]
        if not getattr(chk, "proof_broken", None):
            chk.proof_broken = {"kind": "correspondence-harness", "error": repr(e)[:500]}


# ====================================================================================================
# family markjson: the JSON leg (coq/Rt/MarkJsonDefs.v).  (a) runtime end: ovni_mark_type / ovni_mark_label on the
# real libovni, stream.json read back after every call and compared (member order included) with the tree of the
# extracted model, die() <-> SIGABRT; (b) emulator end: stream.json files written by this check with well-formed and
# malformed "ovni.mark" subtrees through the real ovniemu, verdict and PCF sections 100+t compared with
# emu_types_of_trees / emu_pcf_of_trees.
# label values beyond the int range: the key of the defect repaired in /repo (pcf_add_value took an int); on a tree without the
# repair the fixed programs/cases below fail the independent decider under this key
KNOWN_INT_KEY = "label-value-truncated-to-int"
MJ_TITLES = ["phase", "it", "x y", "a.b", "q\"uote", "back\\slash", "T" * 511, "T" * 512, "T" * 700, "t\tab"]
MJ_LABELS = ["init", "compute", "io wait", "l.dot", "L" * 511, "L" * 512, "x"]
MJ_TYPES = [0, 1, 3, 7, 42, 99]
MJ_VALUES = [1, 2, 7, 10, 2 ** 31 - 1, 2 ** 31, 2 ** 32 + 5, 2 ** 63 - 1]


def _hexs(x):
    return "N" if x is None else RL.hx(x)


def mj_gen_prog(r, idx):
    """one process, 1-2 threads; every call is followed by attr_flush so that the file is compared after EVERY call.
    -> (Prog, plain) plain = no attribute call touches ovni.mark (the documented rules then decide every outcome)"""
    nthr = r.range(1, 2)
    ops = [(0, "I1,%s,%d" % (RL.hx("node1"), 700 + idx % 50))]
    plain = True
    bad_at = r.below(3) == 0       # one call that the documentation forbids, somewhere
    seqs = []
    for k in range(nthr):
        tid = 800 + 2 * (idx % 40) + k
        seq = [(k, "T%d" % tid), (k, "C%d,%d" % (k, k)), (k, "f")]
        defined = {}
        for _ in range(r.range(2, 10)):
            c = r.below(100)
            if c < 30:
                t = r.choice([x for x in MJ_TYPES if x not in defined] or [5])
                if t in defined:
                    continue
                title = r.choice(MJ_TITLES)
                flags = r.choice([0, 1, 0, 1, 2, 3, -1, 1 << 40, (1 << 40) + 1])
                seq.append((k, "m%d,%d,%s" % (t, flags, RL.hx(title))))
                defined[t] = set()
            elif c < 65 and defined:
                t = r.choice(sorted(defined))
                v = r.choice([x for x in MJ_VALUES if x not in defined[t]] or [11])
                if v in defined[t]:
                    continue
                seq.append((k, "l%d,%d,%s" % (t, v, RL.hx(r.choice(MJ_LABELS)))))
                defined[t].add(v)
            elif c < 80:
                seq.append((k, r.choice(["s%s,%s" % (RL.hx("app.name"), RL.hx("x")), "d%s,%d" % (RL.hx("nosv.n"), r.below(9)),
                                         "b%s,1" % RL.hx("mark.1.title"), "s%s,%s" % (RL.hx("markers.ovni.mark"), RL.hx("y")),
                                         "j%s,%s,%s" % (RL.hx("u"), RL.hx('{"ovni":{"mark":1}}'), RL.enc(("o", [("ovni", ("o", [("mark", ("i", 1))]))])))])))
            elif c < 92:
                # attribute calls that shape ovni.mark by hand (outside the documented protocol; the models must still agree)
                plain = False
                t = r.choice(MJ_TYPES)
                hand = ("o", [("title", ("s", "hand")), ("chan_type", ("s", r.choice(["single", "stack", "other"])))])
                seq.append((k, r.choice([
                    "s%s,%s" % (RL.hx("ovni.mark"), RL.hx("x")),
                    "d%s,3" % RL.hx("ovni.mark.%d" % t),
                    "s%s,%s" % (RL.hx("ovni.mark.%d.labels" % t), RL.hx("x")),
                    "d%s,1" % RL.hx("ovni.mark.%d.labels.%d" % (t, r.choice([1, 2, 7]))),
                    "s%s,%s" % (RL.hx("ovni.mark.%d.labels.07" % t), RL.hx("seven")),
                    "j%s,%s,%s" % (RL.hx("ovni.mark.%d" % t), RL.hx(RL.text(hand)), RL.enc(hand)),
                    "j%s,%s,%s" % (RL.hx("ovni.mark"), RL.hx("[]"), "a0."),
                    "b%s,1" % RL.hx("ovni.mark.%d.title.x" % t),
                    "s%s,%s" % (RL.hx("ovni.mark.0%d.title" % t), RL.hx("zero-padded key"))])))
                if r.chance(1, 2):
                    # ... and a mark call that meets it
                    seq.append((k, "f"))
                    seq.append((k, r.choice(["m%d,0,%s" % (t, RL.hx("after")), "l%d,%d,%s" % (t, r.choice([1, 2, 7]), RL.hx("after"))])))
            else:
                seq.append((k, "gj%s" % RL.hx("ovni")))
            seq.append((k, "f"))
        if bad_at and r.chance(2, 3):
            t0 = r.choice(sorted(defined)) if defined else 3
            badop = r.choice([
                "m%d,0,%s" % (t0, RL.hx("again")), "m-1,0,%s" % RL.hx("t"), "m100,1,%s" % RL.hx("t"), "m2147483647,0,%s" % RL.hx("t"),
                "m-2147483648,0,%s" % RL.hx("t"), "m5,0,N", "m5,1,z",
                "l%d,0,%s" % (t0, RL.hx("zero")), "l%d,-1,%s" % (t0, RL.hx("neg")), "l%d,-9223372036854775808,%s" % (t0, RL.hx("min")),
                "l55,1,%s" % RL.hx("undefined type"), "l%d,1,N" % t0, "l%d,1,z" % t0, "l-1,1,%s" % RL.hx("x"), "l100,1,%s" % RL.hx("x"),
                "l%d,%d,%s" % (t0, sorted(defined[t0])[0], RL.hx("second label")) if defined and defined.get(t0) else "l56,2,%s" % RL.hx("u")])
            seq.insert(r.range(3, len(seq)), (k, badop))
            bad_at = False
        seq.append((k, "Xe"))
        seqs.append(seq)
    merged = RL.interleave(r, seqs)
    ops += merged + [(merged[-1][0], "E")]
    return RL.Prog(ops, "markjson:" + ("plain" if plain else "hand-shaped"), expect_conf=None), plain


def mj_doc_rules(p):
    """ok/die of every mark call by the documented rules (mark.md, ovni.h), independent of the model; None for other calls"""
    out = []
    defs = {}
    for slot, o in p.ops:
        if o[0] == "m":
            a = o[1:].split(",")
            t = int(a[0])
            d = defs.setdefault(slot, {})
            if not (0 <= t < 100) or a[2] in ("N", "z") or t in d:
                out.append("die")
            else:
                d[t] = set()
                out.append("ok")
        elif o[0] == "l":
            a = o[1:].split(",")
            t, v = int(a[0]), int(a[1])
            d = defs.setdefault(slot, {})
            if not (0 <= t < 100) or v <= 0 or a[2] in ("N", "z") or t not in d or v in d[t]:
                out.append("die")
            else:
                d[t].add(v)
                out.append("ok")
        else:
            out.append(None)
    return out


def mj_registered(p):
    """what the threads of a completed plain program registered, read off the CALLS (not off the files):
    [{type: (title, stack, {value: label})} per thread slot, in slot order]"""
    per = {}
    for slot, o in p.ops:
        if o[0] == "m":
            a = o[1:].split(",")
            per.setdefault(slot, {})[int(a[0])] = (RL.unhx(a[2]), bool(int(a[1]) & 1), {})
        elif o[0] == "l":
            a = o[1:].split(",")
            per.setdefault(slot, {})[int(a[0])][2][int(a[1])] = RL.unhx(a[2])
    return [per[k] for k in sorted(per)]


def mj_marks_of_text(txt):
    """independent reading of one well-formed stream.json: {type: (title, stack, {value: label})}"""
    m = json.loads(txt).get("ovni", {}).get("mark", {})
    return {int(k): (v["title"], v["chan_type"] == "stack", {int(a): b for a, b in v.get("labels", {}).items()}) for k, v in m.items()}


def mj_union(per_thread):
    """property text: types and labels of different threads merge when they agree -> (dict or None on a conflict)"""
    res = {}
    for d in per_thread:
        for t, (title, stack, labels) in d.items():
            o = res.setdefault(t, (title, stack, {}))
            if o[0] != title or o[1] != stack:
                return None
            for v, l in labels.items():
                if o[2].setdefault(v, l) != l:
                    return None
    return res


def mj_parse_P(ans):
    """answer of the oracle's P command -> ("refused", None) | ("ok", {type: (title, {value: label})}) | ("pcf-refused", None)"""
    f = ans.split(" ")
    if f[0] == "refused":
        return "refused", None
    if f[0] != "types":
        raise RuntimeError("oracle P: %r" % ans[:200])
    if f[3] == "refused":
        return "pcf-refused", None
    res = {}
    if f[3] != "-":
        for sec in f[3].split(";"):
            ty, ti, ls = sec.split(":")
            d = {}
            if ls:
                for e in ls.split(","):
                    v, h = e.split("=")
                    d[int(v)] = RL.unhx(h)
            res[int(ty) - 100] = (RL.unhx(ti), d)
    return "ok", res


def mj_pcf(text):
    """pcf_marks keeping trailing blanks out of the comparison the same way on both sides"""
    return {t: (ti.strip(), {v: l.strip() for v, l in ls.items()}) for t, (ti, ls) in pcf_marks(text).items()}


def mj_norm(d):
    return {t: (ti.strip(), {v: l.strip() for v, l in ls.items()}) for t, (ti, ls) in d.items()}


def mj_thread_text(ctx, tid, pid, ncpus, mark):
    """stream.json of a finished thread with the given ovni.mark subtree (a tree of rtmeta_lib) or none"""
    ovni = [("lib", ("o", [("version", ("s", ctx.cfg_text[0])), ("commit", ("s", ctx.cfg_text[1]))])), ("part", ("s", "thread")),
            ("tid", ("i", tid)), ("pid", ("i", pid)), ("loom", ("s", "node1")), ("app_id", ("i", 1)),
            ("require", ("o", [("ovni", ("s", ctx.cfg_text[2]))]))]
    if mark is not None:
        ovni.append(("mark", mark))
    if ncpus:
        ovni.append(("loom_cpus", ("a", [("o", [("index", ("i", i)), ("phyid", ("i", i))]) for i in range(ncpus)])))
    ovni.append(("finished", ("i", 1)))
    return ("o", [("version", ("i", 3)), ("ovni", ("o", ovni))])


def S(x):
    return ("s", x)


def mj_type(title="phase", chan="single", labels=None, extra=None, order=None):
    m = []
    if title is not None:
        m.append(("title", title if isinstance(title, tuple) else S(title)))
    if chan is not None:
        m.append(("chan_type", chan if isinstance(chan, tuple) else S(chan)))
    if labels is not None:
        m.append(("labels", labels if (isinstance(labels, tuple) and labels[0] != "o") or isinstance(labels, tuple) else labels))
    if extra:
        m.extend(extra)
    if order == "rev":
        m.reverse()
    return ("o", m)


def mj_labels(pairs):
    return ("o", [(str(k), v if isinstance(v, tuple) else S(v)) for k, v in pairs])


def mj_fixed_cases():
    """(class, wellformed?, [mark subtree per thread]); wellformed = what the runtime could have written"""
    L = mj_labels
    T = mj_type
    ok1 = ("o", [("3", T("phase", "stack", L([(1, "init"), (2, "compute")]))), ("7", T("it", "single"))])
    out = [
        ("wf:one-thread", True, [ok1]),
        ("wf:no-marks", True, [None, None]),
        ("wf:empty-mark-object", True, [("o", [])]),
        ("wf:agree-overlap", True, [ok1, ("o", [("3", T("phase", "stack", L([(2, "compute"), (9, "io")]))), ("1", T("q", "single"))])]),
        ("wf:second-thread-only", True, [None, ok1]),
        ("wf:title-conflict", True, [ok1, ("o", [("3", T("other", "stack"))])]),
        ("wf:title-prefix-conflict", True, [ok1, ("o", [("3", T("phas", "stack"))])]),
        ("wf:chan-conflict", True, [ok1, ("o", [("3", T("phase", "single"))])]),
        ("wf:label-conflict", True, [ok1, ("o", [("3", T("phase", "stack", L([(2, "other")])))])]),
        ("wf:label-conflict-third-thread", True, [ok1, None, ("o", [("3", T("phase", "stack", L([(1, "init"), (2, "computE")])))])]),
        ("wf:title-511", True, [("o", [("3", T("T" * 511, "single", L([(1, "L" * 511)])))])]),
        ("wf:int-max-label", True, [("o", [("3", T("phase", "single", L([(2 ** 31 - 1, "top")])))])]),
        ("limit:title-512", False, [("o", [("3", T("T" * 512, "single"))])]),
        ("limit:label-512", False, [("o", [("3", T("t", "single", L([(1, "L" * 512)])))])]),
        ("limit:title-512-second-thread", False, [ok1, ("o", [("3", T("T" * 512, "stack"))])]),
        # beyond int (the repaired finding): judged like any other label
        ("big:two-labels-equal-mod-2^32", True, [("o", [("3", T("colour", "single", L([(5, "five"), (2 ** 32 + 5, "big")])))])]),
        ("big:one-label-2^32+5", True, [("o", [("3", T("colour", "single", L([(2 ** 32 + 5, "big")])))])]),
        ("big:label-2^31", True, [("o", [("3", T("colour", "single", L([(2 ** 31, "big")])))])]),
        ("big:label-2^63-1", True, [("o", [("3", T("colour", "single", L([(2 ** 63 - 1, "max")])))])]),
        # keys strtol accepts
        ("key:07", False, [("o", [("07", T())])]),
        ("key:+7", False, [("o", [("+7", T())])]),
        ("key:space7", False, [("o", [(" 7", T())])]),
        ("key:tab-newline-7", False, [("o", [("\t\n7", T())])]),
        ("key:-0", False, [("o", [("-0", T())])]),
        ("key:7-and-07-agree", False, [("o", [("7", T()), ("07", T())])]),
        ("key:7-and-07-disagree", False, [("o", [("7", T()), ("07", T("other"))])]),
        ("key:7-and-+7-two-threads", False, [("o", [("7", T("phase", "single", L([(1, "a")])))]), ("o", [("+7", T("phase", "single", L([("01", "a"), ("+2", "b")])))])]),
        # keys it refuses
        ("key:7x", False, [("o", [("7x", T())])]),
        ("key:empty", False, [("o", [("", T())])]),
        ("key:x", False, [("o", [("x", T())])]),
        ("key:0x7", False, [("o", [("0x7", T())])]),
        ("key:7space", False, [("o", [("7 ", T())])]),
        ("key:7.0", False, [("o", [("7.0", T())])]),
        ("key:1e1", False, [("o", [("1e1", T())])]),
        ("key:100", False, [("o", [("100", T())])]),
        ("key:-1", False, [("o", [("-1", T())])]),
        ("key:overflow", False, [("o", [("99999999999999999999", T())])]),
        ("key:-", False, [("o", [("-", T())])]),
        ("key:bad-after-good", False, [("o", [("3", T()), ("x", T())])]),
        # the member
        ("member:string", False, [("o", [("3", S("phase"))])]),
        ("member:number", False, [("o", [("3", ("i", 1))])]),
        ("member:array", False, [("o", [("3", ("a", []))])]),
        ("member:null", False, [("o", [("3", ("n",))])]),
        ("member:empty-object", False, [("o", [("3", ("o", []))])]),
        ("member:extra-members", False, [("o", [("3", T(extra=[("colour", S("red")), ("n", ("i", 3))]))])]),
        ("member:reversed-order", False, [("o", [("3", T("phase", "stack", L([(1, "a")]), order="rev"))])]),
        # title / chan_type
        ("title:missing", False, [("o", [("3", T(title=None))])]),
        ("title:number", False, [("o", [("3", T(title=("i", 5)))])]),
        ("title:null", False, [("o", [("3", T(title=("n",)))])]),
        ("title:object", False, [("o", [("3", T(title=("o", [])))])]),
        ("title:empty", False, [("o", [("3", T(title=""))])]),
        ("chan:missing", False, [("o", [("3", T(chan=None))])]),
        ("chan:Stack", False, [("o", [("3", T(chan="Stack"))])]),
        ("chan:empty", False, [("o", [("3", T(chan=""))])]),
        ("chan:single-space", False, [("o", [("3", T(chan="single "))])]),
        ("chan:number", False, [("o", [("3", T(chan=("i", 1)))])]),
        ("chan:true", False, [("o", [("3", T(chan=("t",)))])]),
        ("chan:stacked", False, [("o", [("3", T(chan="stacked"))])]),
        # labels
        ("labels:array", False, [("o", [("3", T(labels=("a", [])))])]),
        ("labels:string", False, [("o", [("3", T(labels=S("x")))])]),
        ("labels:null", False, [("o", [("3", T(labels=("n",)))])]),
        ("labels:empty-object", False, [("o", [("3", T(labels=("o", [])))])]),
        ("labels:key-0", False, [("o", [("3", T(labels=L([(0, "zero")])))])]),
        ("labels:key--3", False, [("o", [("3", T(labels=L([(-3, "neg")])))])]),
        ("labels:key-+5", False, [("o", [("3", T(labels=L([("+5", "five")])))])]),
        ("labels:key-05-and-5-agree", False, [("o", [("3", T(labels=L([("5", "five"), ("05", "five")])))])]),
        ("labels:key-05-and-5-disagree", False, [("o", [("3", T(labels=L([("5", "five"), ("05", "FIVE")])))])]),
        ("labels:key-x", False, [("o", [("3", T(labels=L([("x", "five")])))])]),
        ("labels:key-empty", False, [("o", [("3", T(labels=L([("", "five")])))])]),
        ("labels:key-5x", False, [("o", [("3", T(labels=L([("5x", "five")])))])]),
        ("labels:key-overflow", False, [("o", [("3", T(labels=L([("9223372036854775808", "five")])))])]),
        ("labels:key-min", False, [("o", [("3", T(labels=L([("-9223372036854775808", "min")])))])]),
        ("labels:value-number", False, [("o", [("3", T(labels=L([(5, ("i", 5))])))])]),
        ("labels:value-null", False, [("o", [("3", T(labels=L([(5, ("n",))])))])]),
        ("labels:value-object", False, [("o", [("3", T(labels=L([(5, ("o", []))])))])]),
        ("labels:value-empty-string", False, [("o", [("3", T(labels=L([(5, "")])))])]),
        ("labels:bad-after-good", False, [("o", [("3", T(labels=L([(1, "a"), (2, ("i", 2))])))])]),
        ("labels:minus-one-and-4294967295", False, [("o", [("3", T(labels=L([(-1, "a"), (4294967295, "b")])))])]),
        # ovni.mark itself
        ("mark:string", False, [S("x")]),
        ("mark:number", False, [("i", 3)]),
        ("mark:array", False, [("a", [])]),
        ("mark:null", False, [("n",)]),
        ("mark:true", False, [("t",)]),
        ("mark:string-then-good-thread", False, [S("x"), ok1]),
    ]
    return out


def mj_random_case(r):
    """1-3 threads with well-formed marks (as the runtime writes them) that agree or conflict"""
    nthr = r.range(1, 3)
    world = {}
    for t in r.shuffle(list(MJ_TYPES))[:r.range(1, 4)]:
        world[t] = ("title%d" % t, r.choice(["single", "stack"]), {v: "lab%d_%d" % (t, v) for v in (1, 2, 3, 7, 40, 2 ** 31 - 1)})
    conflict = r.choice([None, None, None, "title", "chan", "label"])
    marks = []
    for k in range(nthr):
        if r.chance(1, 6):
            marks.append(None)
            continue
        mem = []
        for t in r.shuffle(sorted(world)):
            if r.chance(1, 3):
                continue
            title, chan, labs = world[t]
            vs = [v for v in r.shuffle(sorted(labs)) if r.chance(1, 2)]
            pairs = [(v, labs[v]) for v in vs]
            if k > 0 and conflict == "title" and r.chance(1, 2):
                title = title + "x"
            if k > 0 and conflict == "chan" and r.chance(1, 2):
                chan = "single" if chan == "stack" else "stack"
            if k > 0 and conflict == "label" and pairs and r.chance(1, 2):
                pairs[0] = (pairs[0][0], pairs[0][1] + "!")
            mem.append((str(t), mj_type(title, chan, mj_labels(pairs) if (pairs or r.chance(1, 4)) else None)))
        marks.append(("o", mem))
    return ("wf:random" + (":" + conflict if conflict else ""), True, marks)


def markjson_family(chk, build):
    import struct
    ctx = RL.setup(chk, build, build.libdir)
    rng = chk.rng.fork("markjson")
    stats = {"rt_programs": 0, "rt_calls": 0, "rt_mark_calls": 0, "rt_files_compared": 0, "rt_model_die": 0, "rt_real_abort": 0, "rt_doc_rules_checked": 0,
             "rt_completed_emulated": 0, "emu_cases": 0, "emu_accepted": 0, "emu_refused": 0, "emu_pcf_compared": 0, "emu_wellformed_judged": 0}
    mism = []
    wd = trace.workdir("ovni-verif-markjson-")
    try:
        # ---------------------------------------------------------------- (a) runtime end
        progs = [mj_gen_prog(rng.fork("p%d" % i), i) for i in range(chk.budget(120, 1200))]
        # fixed: the finding's programs and the examples of the Coq file
        fx = [[(0, "I1,%s,700" % RL.hx("node1")), (0, "T801"), (0, "C0,0"), (0, "m3,0,%s" % RL.hx("colour")), (0, "f"), (0, "l3,5,%s" % RL.hx("five")), (0, "f"),
               (0, "l3,4294967301,%s" % RL.hx("big")), (0, "f"), (0, "Xe"), (0, "E")],
              [(0, "I1,%s,700" % RL.hx("node1")), (0, "T801"), (0, "C0,0"), (0, "m3,0,%s" % RL.hx("colour")), (0, "f"), (0, "l3,4294967301,%s" % RL.hx("big")), (0, "f"),
               (0, "Xe"), (0, "E")]]
        progs += [(RL.Prog(o, "markjson:plain", expect_conf=None), True) for o in fx]
        chunks = [progs[i:i + 30] for i in range(0, len(progs), 30)]

        def do_chunk(ic):
            ci, chunk = ic
            base = os.path.join(wd, "rt%d" % ci)
            os.makedirs(base, exist_ok=True)
            lines = ["M %s %s %s %s %s" % (ctx.cfg[0], ctx.cfg[1], ctx.cfg[2], p.script(), os.path.join(base, "tr%d" % i, "ovni")) for i, (p, _) in enumerate(chunk)]
            impl = common.batch([ctx.hx, base], lines, timeout=900)
            modl = common.batch(ctx.oracle, ["N " + " ".join(l.split(" ")[1:5]) for l in lines], timeout=900)
            out = []
            for i, ((p, plain), il, ml) in enumerate(zip(chunk, impl, modl)):
                im = RL.parse_impl(il)
                mo = RL.parse_model(ml)
                emu = None
                td = os.path.join(base, "tr%d" % i, "ovni")
                if im[0] == "done":
                    finals = RL.read_finals(td)
                    rc, so, se = trace.run_tool(build, "ovniemu", [], td, timeout=120)
                    pcfs = {}
                    for fn in ("thread.pcf", "cpu.pcf"):
                        try:
                            pcfs[fn] = open(os.path.join(td, fn), encoding="latin1").read()
                        except OSError:
                            pass
                    emu = (rc, se[-1200:], pcfs, finals)
                out.append((p, plain, im, mo, emu))
            shutil.rmtree(base, ignore_errors=True)
            return out
        pq = []
        for res in trace.pmap(do_chunk, list(enumerate(chunks)), workers=4):
            for p, plain, im, mo, emu in res:
                chk.case(("markjson-rt", p.fingerprint()))
                chk.count(p.cls)
                stats["rt_programs"] += 1
                stats["rt_calls"] += len(p.ops)
                stats["rt_mark_calls"] += sum(1 for _, o in p.ops if o[0] in "ml")
                stats["rt_files_compared"] += sum(len(fl) for _, fl in im[2])
                died = any(e[0] == "die" for e in mo[1])
                stats["rt_model_die"] += died
                stats["rt_real_abort"] += im[0] == "abort"
                diff = RL.compare(p, im, mo)
                if diff == "OUT-OF-DOMAIN":
                    diff = "the model answers out-of-domain"
                if diff:
                    mism.append({"end": "runtime", "class": p.cls, "script": p.short(), "calls": p.readable(), "difference": diff})
                # judged independently: the documented refusals, on the REAL outcome
                if plain:
                    exp = mj_doc_rules(p)
                    nret = len(im[2])
                    for i, e in enumerate(exp):
                        if e is None:
                            continue
                        stats["rt_doc_rules_checked"] += 1
                        if e == "die" and i < nret:
                            chk.violation("markjson-runtime-accepts:%s" % p.ops[i][1].split(",")[0][:20], "libovni accepts `%s`, the documented rules refuse it" % RL.describe(p.ops[i][1]),
                                          {"script": p.short(), "calls": p.readable()})
                            break
                        if e == "ok" and i == nret and im[0] == "abort":
                            chk.violation("markjson-runtime-refuses:%s" % p.fingerprint(), "libovni aborts in `%s`, a call the documented rules allow" % RL.describe(p.ops[i][1]),
                                          {"script": p.short(), "calls": p.readable()})
                            break
                        if i >= nret:
                            break
                if emu is not None:
                    pq.append((p, plain, emu))
        # completed programs: the emulator on the trace the real runtime wrote vs the model on the REAL trees
        if pq:
            qs = []
            for p, plain, (rc, se, pcfs, finals) in pq:
                trees = [RL.enc(RL.from_text(finals[k])) for k in sorted(finals, key=lambda k: k[2])]
                qs.append("P " + " ".join(trees))
            ans = common.batch(ctx.oracle, qs, timeout=600)
            for (p, plain, (rc, se, pcfs, finals)), a in zip(pq, ans):
                stats["rt_completed_emulated"] += 1
                verdict, want = mj_parse_P(a)
                if (rc == 0) != (verdict == "ok"):
                    mism.append({"end": "runtime->emulator", "class": p.cls, "script": p.short(), "difference": "ovniemu exit %s, model %s" % (rc, verdict), "stderr": se[-400:]})
                elif rc == 0:
                    for fn, txt in pcfs.items():
                        if mj_pcf(txt) != mj_norm(want):
                            mism.append({"end": "runtime->emulator", "class": p.cls, "script": p.short(), "difference": "%s: ovniemu %s, model %s" % (fn, mj_pcf(txt), mj_norm(want))})
                            break
                if plain:
                    # property text on the real output: the labels registered for the type appear
                    reg = mj_union(mj_registered(p))
                    if reg is not None:
                        wantp = mj_norm({t: (ti, ls) for t, (ti, st, ls) in reg.items()})
                        big = any(v >= 2 ** 31 for _, (_, ls) in wantp.items() for v in ls)
                        long_ = any(len(ti) >= 512 or any(len(l) >= 512 for l in ls.values()) for _, (ti, ls) in wantp.items())
                        got = mj_pcf(pcfs.get("thread.pcf", "")) if rc == 0 else None
                        if rc == 0 and got == wantp and mj_pcf(pcfs.get("cpu.pcf", "")) != wantp:
                            got = mj_pcf(pcfs.get("cpu.pcf", ""))
                        if long_:
                            chk.count("markjson:runtime-title-or-label-of-512+ (refused in emulation: %s)" % (rc != 0))
                        elif got != wantp:
                            key = KNOWN_INT_KEY if big else "markjson-labels:%s" % p.fingerprint()
                            chk.violation(key, "a correct mark program: the threads registered %s, ovniemu %s" % (
                                str(wantp)[:300], ("exits %s: %s" % (rc, emucore._first_error(se))) if rc != 0 else ("writes %s" % str(got)[:300])),
                                {"script": p.short(), "calls": p.readable()})

        # ---------------------------------------------------------------- (b) emulator end
        cases = mj_fixed_cases() + [mj_random_case(rng.fork("e%d" % i)) for i in range(chk.budget(60, 700))]

        def do_case(ic):
            i, (cls, wf, marks) = ic
            d = os.path.join(wd, "e%d" % i, "ovni")
            tr = trace.Trace()
            trees = []
            n = len(marks)
            for k, mk in enumerate(marks):
                tid = 901 + k
                tt = mj_thread_text(ctx, tid, 900, n if k == 0 else 0, mk)
                trees.append(tt)
                evs = [trace.ev_bytes("OHx", 100 + k, struct.pack("<iiQ", k, tid, 0)), trace.ev_bytes("OHe", 200 + k)]
                tr.add_thread("node1", 900, tid, RL.text(tt).encode("latin1"), events=evs)
            tr.write(d)
            rc, so, se = trace.run_tool(build, "ovniemu", [], d, timeout=120)
            pcfs = {}
            for fn in ("thread.pcf", "cpu.pcf"):
                try:
                    pcfs[fn] = open(os.path.join(d, fn), encoding="latin1").read()
                except OSError:
                    pass
            shutil.rmtree(os.path.join(wd, "e%d" % i), ignore_errors=True)
            return rc, se[-1500:], pcfs, trees
        eres = trace.pmap(do_case, list(enumerate(cases)), workers=4)
        ans = common.batch(ctx.oracle, ["P " + " ".join(RL.enc(t) for t in trees) for (_, _, _, trees) in eres], timeout=600)
        for (cls, wf, marks), (rc, se, pcfs, trees), a in zip(cases, eres, ans):
            chk.case(("markjson-emu", cls, RL.enc(trees[-1])[:4000], len(trees)))
            chk.count("markjson-emu:" + cls.split(":")[0])
            stats["emu_cases"] += 1
            stats["emu_accepted" if rc == 0 else "emu_refused"] += 1
            verdict, want = mj_parse_P(a)
            desc = {"class": cls, "ovni.mark of each thread": [None if m is None else RL.text(m)[:600] for m in marks]}
            if rc != 0 and "mark" not in se:
                mism.append({"end": "emulator", "case": desc, "difference": "ovniemu fails outside mark.c: %s" % se[-300:]})
                continue
            if (rc == 0) != (verdict == "ok"):
                mism.append({"end": "emulator", "case": desc, "difference": "ovniemu exit %s (%s), model %s" % (rc, emucore._first_error(se), verdict)})
            elif rc == 0:
                for fn in ("thread.pcf", "cpu.pcf"):
                    stats["emu_pcf_compared"] += 1
                    if mj_pcf(pcfs.get(fn, "")) != mj_norm(want):
                        mism.append({"end": "emulator", "case": desc, "difference": "%s: ovniemu %s, model %s" % (fn, str(mj_pcf(pcfs.get(fn, "")))[:400], str(mj_norm(want))[:400])})
                        break
            if wf:
                # the property text, on metadata the runtime can write: agreeing definitions merge and appear, conflicts are refused
                stats["emu_wellformed_judged"] += 1
                per = [mj_marks_of_text(RL.text(t)) for t in trees]
                reg = mj_union(per)
                key = common.hashlib.md5(repr(desc).encode()).hexdigest()[:12]
                if reg is None:
                    if rc == 0:
                        chk.violation("markjson-accepts-conflict:" + key, "ovniemu accepts threads whose mark definitions conflict", desc)
                else:
                    wantp = mj_norm({t: (ti, ls) for t, (ti, st, ls) in reg.items()})
                    big = any(v >= 2 ** 31 for _, (_, ls) in wantp.items() for v in ls)
                    got = mj_pcf(pcfs.get("thread.pcf", "")) if rc == 0 else None
                    if got != wantp or (rc == 0 and mj_pcf(pcfs.get("cpu.pcf", "")) != wantp):
                        chk.violation(KNOWN_INT_KEY if big else "markjson-labels:" + key,
                                      "mark metadata as the runtime writes it, registered %s: ovniemu %s" % (
                                          str(wantp)[:300], ("exits %s: %s" % (rc, emucore._first_error(se))) if rc != 0 else ("writes %s" % str(got)[:300])), desc)
        chk.sample({"markjson runtime program": progs[0][0].readable(30)})
        chk.sample({"markjson emulator case": cases[3][0], "ovni.mark": [None if m is None else RL.text(m) for m in cases[3][2]]})
    finally:
        shutil.rmtree(wd, ignore_errors=True)
    chk.coverage["markjson"] = stats
    chk.coverage["markjson_rule"] = (
        "(a) runtime end: generated programs of 1-2 threads (ovni_mark_type with flags 0/1/2/3/-1/2^40(+1), titles with dots, quotes, 511/512/700 bytes; ovni_mark_label with "
        "values up to 2^63-1; user attributes; attribute calls that shape ovni.mark by hand: mark not an object, a type that is a number, labels that is a string, a hand-made type, "
        "a zero-padded key; at most one forbidden call: redefinition, type -1/100/INT_MAX/INT_MIN, NULL/empty title, label value 0/-1/INT64_MIN, undefined type, NULL/empty label, "
        "second label) run on the real libovni through harness/rtmeta_drv.c; stream.json after EVERY call (order of members included) and die() vs SIGABRT compared with the extracted "
        "mrun; the documented refusals judged on the real outcome; completed programs: real ovniemu on the trace vs emu_pcf_of_trees on the REAL trees, and the registered labels "
        "against the PCF; (b) emulator end: %d fixed + generated stream.json sets written by this check (1-3 threads; keys 07/+7/ 7/-0/7x/''/0x7/100/-1/overflow, member kinds, "
        "title/chan_type/labels of every JSON type, label keys 0/-3/+5/05/x/overflow, 511/512-byte strings, ovni.mark of every JSON type, values beyond int, agreeing and conflicting "
        "threads) through the real ovniemu: verdict and the PCF sections 100+t of thread.pcf and cpu.pcf vs the extracted emu_types_of_trees/emu_pcf_of_trees; metadata the runtime "
        "can write is also judged against the property text (merge and appear, conflicts refused)" % len(mj_fixed_cases()))
    if mism:
        chk.coverage["markjson_disagreements"] = mism[:10]
        if not [v for v in chk.violations if str(v[0]).startswith("markjson-") or str(v[0]) == KNOWN_INT_KEY]:
            chk.violation("broken-correspondence:markjson", "the mark-metadata model and the real code disagree on %d cases, none of which breaks the property" % len(mism),
                          {"correspondence": "extracted MarkJsonDefs (mrun / emu_pcf_of_trees) vs libovni.so and ovniemu", "disagreements": mism[:12]}, found_input=False)
        else:
            chk.notes.append("markjson: model and real code also disagree on %d cases (first: %s)" % (len(mism), str(mism[0]["difference"])[:300]))


def expected_pcf(s):
    """{type: (title, {value: label})} registered by the threads (union of the labels), None on a conflict"""
    res = {}
    for pos in sorted(s.marks):
        for d in s.marks[pos]:
            o = res.setdefault(d["type"], (d["title"], {}))
            if o[0] != d["title"]:
                return None
            for v, l in d["labels"]:
                if o[1].setdefault(v, l) != l:
                    return None
    return res


def conflict_present(s, kind):
    seen = {}
    for pos in sorted(s.marks):
        for d in s.marks[pos]:
            o = seen.get(d["type"])
            if o is None:
                seen[d["type"]] = {"title": d["title"], "stack": d["stack"], "labels": dict(d["labels"])}
                continue
            if kind == "title" and o["title"] != d["title"]:
                return True
            if kind == "chan_type" and o["stack"] != d["stack"]:
                return True
            for v, l in d["labels"]:
                if kind == "label" and v in o["labels"] and o["labels"][v] != l:
                    return True
                o["labels"].setdefault(v, l)
    return False


def with_marks(tables, s):
    """tables extended with the mark channels (ACTIVE on threads) so decide_views covers rows 100+t"""
    t = dict(tables)
    chans = list(tables["chans"])
    types = set(d["type"] for ds in s.marks.values() for d in ds)
    for ty in sorted(types):
        chans.append({"model": "ovni", "side": "th", "index": 1000 + ty, "name": "mark%d" % ty, "stack": 0, "dup": 1, "track": 2,
                      "type": 100 + ty, "flags": 16, "prefix": ""})
    t["chans"] = chans
    return t


def mark_rows_ok(s, r, prog):
    """independent reconstruction: the value of each mark type on the thread row while the thread is active"""
    g = s.thread_gindex()
    t0 = min(e[1] for e in s.events)
    import struct
    cur = {}
    state = {}
    stackty = {}
    for ds in s.marks.values():
        for d in ds:
            stackty.setdefault(d["type"], d["stack"])
    for (p, clk, mcv, pl) in sorted(s.events, key=lambda e: e[1]):
        if mcv in ("OHx", "OHr", "OHw"):
            state[p] = True      # running and warming threads are active (cooling keeps it)
        elif mcv in ("OHp", "OHe"):
            state[p] = False
        elif mcv[:2] == "OM":
            v, ty = struct.unpack("<qi", pl)
            st = cur.setdefault((p, ty), [])
            if mcv[2] == "[":
                st.append(v)
            elif mcv[2] == "]":
                st.pop()
            else:
                st[:] = [v]
        for (pp, ty), st in cur.items():
            want = (st[-1] if st else 0) if state.get(pp) else 0
            got = emucore.timeline(r["rows"].get((0, g[pp] + 1, 100 + ty), []), clk - t0)
            if got != want:
                return "thread row %d type %d shows %d at t=%d, the mark value is %s and the thread is %s" % (
                    g[pp] + 1, 100 + ty, got, clk - t0, st[-1] if st else None, "active" if state.get(pp) else "not active")
    return None


def pcf_marks(text):
    """{type: (title, {value: label})} for types 100..199 of a .pcf"""
    res = {}
    cur = None
    mode = None
    for ln in text.split("\n"):
        if ln.startswith("EVENT_TYPE"):
            mode = "type"; cur = None
        elif ln.startswith("VALUES"):
            mode = "values"
        elif not ln.strip():
            mode = None
        elif mode == "type":
            f = ln.split(None, 2)
            if len(f) >= 2 and f[1].isdigit() and 100 <= int(f[1]) < 200:
                cur = int(f[1]) - 100
                res[cur] = (f[2].strip() if len(f) > 2 else "", {})
            else:
                cur = None
        elif mode == "values" and cur is not None:
            f = ln.split(None, 1)
            if f and f[0].lstrip("-").isdigit():
                res[cur][1][int(f[0])] = f[1].strip() if len(f) > 1 else ""
    return res


def model_marks(lines):
    res = {}
    for ln in lines:
        f = ln.split()
        if f[0] == "MT":
            res[int(f[1])] = (bytes.fromhex(f[3]).decode("latin1") if len(f) > 3 else "", {})
        elif f[0] == "ML":
            res[int(f[1])][1][int(f[2])] = bytes.fromhex(f[3]).decode("latin1") if len(f) > 3 else ""
    return res
