"""C17 - mark API end to end: runtime calls -> metadata + events -> merged types/labels -> rows 100+t."""
import json
import os
import shutil

from vf import common, emucheck, emucore, trace

LEVEL = "proof"

TITLES = ["phase", "iteration", "a", "x y z", "phase"]
LABELS = ["init", "compute", "io", "x"]


def gen_program(rng, conflict=None):
    """a script for harness/mark_drv.c plus the Python-side expectation inputs"""
    nthreads = rng.range(1, 3)
    ntypes = rng.range(1, 4)
    types = {}
    for t in rng.shuffle(list(range(0, 8)))[:ntypes]:
        types[t] = {"stack": rng.chance(1, 2), "title": rng.choice(TITLES) + str(t)}
    lines = ["proc node1 500"]
    calls = []   # (thread index, call tuple)
    known = set()     # types defined by some thread so far
    for th in range(nthreads):
        tid = 501 + th
        lines.append("thread %d %d" % (tid, th if th < 2 else -1))
        defined = set()
        if th == 0:
            # the first thread defines every type up front (other threads may repeat definitions)
            for t0 in sorted(types):
                lines.append("type %d %d %s" % (t0, 1 if types[t0]["stack"] else 0, types[t0]["title"].encode().hex()))
                calls.append((0, ("type", t0, types[t0]["stack"], types[t0]["title"])))
                defined.add(t0)
                known.add(t0)
        open_stack = {t: [] for t in types}
        paused = False
        tstate = "run"
        for _ in range(rng.range(2, 18)):
            r = rng.below(100)
            t = rng.choice(sorted(types))
            if r < 18:
                if t in defined and conflict is None:
                    continue      # redefinition in the same thread aborts: only in conflict programs
                # define a type (other threads sometimes repeat a definition identically)
                stack = types[t]["stack"]
                title = types[t]["title"]
                if conflict == "title" and th > 0 and rng.chance(1, 2):
                    title = title + "_other"
                if conflict == "chan_type" and th > 0 and rng.chance(1, 2):
                    stack = not stack
                if conflict == "bad_type" and rng.chance(1, 4):
                    t = rng.choice([-1, 100, 150])
                if conflict == "empty_title" and rng.chance(1, 4):
                    title = rng.choice(["", None])
                lines.append("type %d %d %s" % (t, 1 if stack else 0, "NULL" if title is None else (title.encode().hex() or "-")))
                calls.append((th, ("type", t, stack, title)))
                if 0 <= t < 100 and title:
                    defined.add(t)
            elif r < 32:
                v = rng.range(1, 4)
                lab = LABELS[(v + t) % len(LABELS)]
                if conflict is None and (t not in defined or (th, t, v) in [(c[0], c[1][1], c[1][2]) for c in calls if c[1][0] == "label"]):
                    continue
                if conflict == "label" and th > 0 and rng.chance(1, 2):
                    # another label for the same value: longer, a proper prefix of the first one, or unrelated
                    lab = rng.choice([lab + "_other", lab[:-1] or "z", lab[:1] if len(lab) > 1 else "zz", "x" + lab])
                if conflict == "label_zero" and rng.chance(1, 3):
                    v = rng.choice([0, -2])
                if conflict == "undefined_label" and rng.chance(1, 3):
                    t = 9
                lines.append("label %d %d %s" % (t, v, lab.encode().hex()))
                calls.append((th, ("label", t, v, lab)))
            elif r < 40:
                # thread state changes: Running -p-> Paused -r-> Running, or through Cooling / Warming
                # (the thread is active - and its marks shown - while running, cooling or warming)
                nxt = {"run": [("pause", "paused"), ("cool", "cooling")], "cooling": [("pause", "paused")],
                       "paused": [("resume", "run"), ("warm", "warming")], "warming": [("resume", "run")]}[tstate]
                cmd, tstate = rng.choice(nxt)
                lines.append(cmd)
                paused = tstate != "run"
            else:
                v = rng.range(1, 4) if not (conflict == "zero_value" and rng.chance(1, 4)) else 0
                if conflict == "undefined_type" and rng.chance(1, 4):
                    t = 9
                stack = types.get(t, {"stack": False})["stack"]
                if conflict == "wrong_kind" and rng.chance(1, 3):
                    stack = not stack
                if stack:
                    stk = open_stack.setdefault(t, [])
                    if stk and rng.chance(1, 2):
                        pv = stk[-1]
                        if conflict == "mismatched_pop" and rng.chance(1, 2):
                            pv = pv + 1
                        lines.append("pop %d %d" % (t, pv))
                        calls.append((th, ("pop", t, pv)))
                        if pv == stk[-1]:
                            stk.pop()
                    else:
                        lines.append("push %d %d" % (t, v))
                        calls.append((th, ("push", t, v)))
                        if v:
                            stk.append(v)
                else:
                    lines.append("set %d %d" % (t, v))
                    calls.append((th, ("set", t, v)))
        if tstate in ("paused", "warming"):
            lines.append("resume")
        lines.append("endthread")
    lines.append("endproc")
    return lines, calls


def run(chk):
    build, oracle, tables = emucheck.setup(chk)
    chk.trusted_base.append("harness/mark_drv.c: script driver on the real libovni with an interposed clock_gettime; calls that may abort are tried in a forked child")
    chk.assumptions = ["threads of the driver run one after the other (concurrency of the runtime is C11's subject)",
                       "events of undefined or mismatching types are written by the runtime and refused in emulation, as the property allows"]
    rng = chk.rng
    hsrc = os.path.join(common.VERIF, "harness", "mark_drv.c")
    drv = os.path.join(common.BUILD, "harness", "mark_drv-%s-%s" % (build.tree, common.hashlib.md5(open(hsrc, "rb").read()).hexdigest()[:8]))
    if not os.path.exists(drv):
        common.cc_harness(drv, [os.path.join(common.VERIF, "harness", "mark_drv.c")], build,
                          extra=["-L" + build.libdir, "-lovni", "-lpthread", "-Wl,-rpath," + build.libdir])
    kinds = [None] * 6 + ["title", "chan_type", "label", "zero_value", "undefined_type", "wrong_kind", "mismatched_pop",
                          "bad_type", "empty_title", "label_zero", "undefined_label"]
    n = chk.budget(220, 2500)
    progs = []
    for i in range(n):
        r = rng.fork("p%d" % i)
        k = kinds[i % len(kinds)]
        lines, calls = gen_program(r, k)
        progs.append((k, lines, calls))
    # fixed conflicts between two threads: the second label longer than, a prefix of, and unrelated to the first
    for (l1, l2) in (("Red", "Reddish"), ("Reddish", "Red"), ("Reddish", "R"), ("Red", "Blue"), ("a", "")):
        if not l2:
            continue
        fl = ["proc node1 500",
              "thread 501 0", "type 3 1 %s" % b"colour".hex(), "label 3 7 %s" % l1.encode().hex(), "push 3 7", "pop 3 7", "endthread",
              "thread 502 1", "type 3 1 %s" % b"colour".hex(), "label 3 7 %s" % l2.encode().hex(), "push 3 7", "pop 3 7", "endthread",
              "endproc"]
        fc = [(0, ("type", 3, True, "colour")), (0, ("label", 3, 7, l1)), (0, ("push", 3, 7)), (0, ("pop", 3, 7)),
              (1, ("type", 3, True, "colour")), (1, ("label", 3, 7, l2)), (1, ("push", 3, 7)), (1, ("pop", 3, 7))]
        progs.append(("label", fl, fc))
    wd = trace.workdir()
    scs = []
    rt_bad = []
    try:
        def run_prog(ix):
            k, lines, calls = progs[ix]
            d = os.path.join(wd, "p%d" % ix)
            os.makedirs(d)
            rc, out, err = common.run([drv], input="\n".join(lines) + "\n", env={"OVNI_TRACEDIR": os.path.join(d, "ovni")}, cwd=d, timeout=60)
            if k is None and ix % 3 == 0:
                # a second node running the same program with the same TIDs (TIDs are unique per node only): its
                # marks must show up in its own rows
                l2 = ["proc node2 600"] + lines[1:]
                common.run([drv], input="\n".join(l2) + "\n", env={"OVNI_TRACEDIR": os.path.join(d, "ovni"), "MARK_DRV_CLOCK_SHIFT": "5"}, cwd=d, timeout=60)
            return rc, out.split("\n"), err
        res = trace.pmap(run_prog, range(len(progs)))
        # ---- runtime side: die/ok per call and resulting metadata, judged by the documented rules
        for ix, ((k, lines, calls), (rc, out, err)) in enumerate(zip(progs, res)):
            d = os.path.join(wd, "p%d" % ix, "ovni")
            chk.case(("rt", tuple(lines)))
            chk.count("program:" + (k or "clean"))
            # expected outcome of every call by the documented rules (independent of the Coq model)
            defs = {}
            li = 0
            th = -1
            for ln, o in zip(lines, out):
                f = ln.split()
                if f[0] == "thread":
                    th += 1
                    defs = {}
                exp = "ok"
                if f[0] == "type":
                    t = int(f[1]); title = f[3]
                    if not (0 <= t < 100) or title in ("NULL", "-") or t in defs:
                        exp = "die"
                    else:
                        defs[t] = {}
                elif f[0] == "label":
                    t = int(f[1]); v = int(f[2])
                    if not (0 <= t < 100) or v <= 0 or f[3] in ("NULL", "-") or t not in defs or v in defs[t]:
                        exp = "die"
                    else:
                        defs[t][v] = f[3]
                elif f[0] in ("push", "pop", "set"):
                    if int(f[2]) == 0:
                        exp = "die"
                if o != exp:
                    chk.violation("runtime-call:%s" % ln.replace(" ", "_")[:50], "libovni answers %r to `%s` (thread %d), the documented rules say %r" % (o, ln, th, exp),
                                  {"script": lines, "line": ln})
                    break
            if not os.path.isdir(d):
                continue
            s = emucore.scenario_from_dir(d, tables)
            scs.append((ix, s))
        # ---- emulator side on the very traces the runtime wrote
        real = emucore.run_real(build, [s for (_, s) in scs], keep_files=True)
        mod = emucore.run_oracle(oracle, [s for (_, s) in scs]) if oracle else [None] * len(scs)
        corr = []
        for (ix, s), r, m in zip(scs, real, mod):
            k = progs[ix][0]
            desc = s.describe()
            chk.case(("emu", tuple(progs[ix][1])))
            chk.count("emu:%s:%s" % (k or "clean", "accepted" if r["rc"] == 0 else "rejected"))
            key = common.hashlib.md5(repr(progs[ix][1]).encode()).hexdigest()[:12]
            if k is None and r["rc"] != 0:
                chk.violation("rejects-clean-marks:" + key, "ovniemu rejects the trace of a correct mark program: %s" % emucore._first_error(r["stderr"]),
                              {"script": progs[ix][1], "stderr": r["stderr"][:1200]})
            if r["rc"] == 0 and r["rows"] is not None:
                why = mark_rows_ok(s, r, progs[ix])
                if why:
                    chk.violation("mark-rows:" + key, why, {"script": progs[ix][1]})
                why = emucore.decide_views(s, r["rows"], emucore.py_spec(s)[1], with_marks(tables, s))
                if why:
                    chk.violation("mark-views:" + key, why, {"script": progs[ix][1]})
            if r["rc"] == 0 and "thread.pcf" in r.get("files", {}):
                want = expected_pcf(s)
                for fn in ("thread.pcf", "cpu.pcf"):
                    got = pcf_marks(r["files"].get(fn, ""))
                    if want is not None and fn in r["files"] and got != want:
                        chk.violation("mark-labels:" + key, "%s declares the mark types/labels %s, the threads registered %s" % (fn, got, want),
                                      {"script": progs[ix][1]})
                        break
            for kk in ("title", "chan_type", "label"):
                if r["rc"] == 0 and conflict_present(s, kk):
                    chk.violation("accepts-conflict:" + key, "ovniemu accepts threads whose %s definitions conflict" % kk, {"script": progs[ix][1]})
                    break
            if False:
                chk.violation("accepts-conflict:" + key, "ovniemu accepts threads whose %s definitions conflict" % k, {"script": progs[ix][1]})
            if m is not None:
                dd = emucore.compare(s, r, m)
                if dd:
                    corr.append((progs[ix][1], dd))
                elif m[0] == "ok" and r["rc"] == 0:
                    pl = pcf_marks(r["files"].get("thread.pcf", ""))
                    ml = model_marks(m[1].get("_marks", []))
                    if pl != ml:
                        corr.append((progs[ix][1], "PCF mark types/labels differ: ovniemu %s, model %s" % (pl, ml)))
        chk.sample({"script": progs[0][1], "ovniemu_exit": real[0]["rc"] if real else None})
        chk.sample({"script": progs[7][1]})
    finally:
        shutil.rmtree(wd, ignore_errors=True)
    chk.coverage["rule"] = ("generated mark programs (1-3 threads, 1-4 types single/stack, labels, pause/resume in between) run on the real libovni, then "
                            "ovniemu on the trace it wrote; 6 of 17 programs are clean, the others carry one kind of conflict (title, channel type, label, zero value, "
                            "undefined type, push on single/set on stack, mismatched pop, type out of range, empty title, label value <= 0, label of undefined type); "
                            "every call's ok/die is judged by the documented rules, rows 100+t and the PCF by an independent reconstruction, and everything is compared "
                            "with the extracted Coq model")
    emucheck.finish_corr(chk, corr)


def expected_pcf(s):
    """{type: (title, {value: label})} registered by the threads (union of the labels), None on a conflict"""
    res = {}
    for pos in sorted(s.marks):
        for d in s.marks[pos]:
            o = res.setdefault(d["type"], (d["title"], {}))
            if o[0] != d["title"]:
                return None
            for v, l in d["labels"]:
                if o[1].setdefault(v, l) != l:
                    return None
    return res


def conflict_present(s, kind):
    seen = {}
    for pos in sorted(s.marks):
        for d in s.marks[pos]:
            o = seen.get(d["type"])
            if o is None:
                seen[d["type"]] = {"title": d["title"], "stack": d["stack"], "labels": dict(d["labels"])}
                continue
            if kind == "title" and o["title"] != d["title"]:
                return True
            if kind == "chan_type" and o["stack"] != d["stack"]:
                return True
            for v, l in d["labels"]:
                if kind == "label" and v in o["labels"] and o["labels"][v] != l:
                    return True
                o["labels"].setdefault(v, l)
    return False


def with_marks(tables, s):
    """tables extended with the mark channels (ACTIVE on threads) so decide_views covers rows 100+t"""
    t = dict(tables)
    chans = list(tables["chans"])
    types = set(d["type"] for ds in s.marks.values() for d in ds)
    for ty in sorted(types):
        chans.append({"model": "ovni", "side": "th", "index": 1000 + ty, "name": "mark%d" % ty, "stack": 0, "dup": 1, "track": 2,
                      "type": 100 + ty, "flags": 16, "prefix": ""})
    t["chans"] = chans
    return t


def mark_rows_ok(s, r, prog):
    """independent reconstruction: the value of each mark type on the thread row while the thread is active"""
    g = s.thread_gindex()
    t0 = min(e[1] for e in s.events)
    import struct
    cur = {}
    state = {}
    stackty = {}
    for ds in s.marks.values():
        for d in ds:
            stackty.setdefault(d["type"], d["stack"])
    for (p, clk, mcv, pl) in sorted(s.events, key=lambda e: e[1]):
        if mcv in ("OHx", "OHr", "OHw"):
            state[p] = True      # running and warming threads are active (cooling keeps it)
        elif mcv in ("OHp", "OHe"):
            state[p] = False
        elif mcv[:2] == "OM":
            v, ty = struct.unpack("<qi", pl)
            st = cur.setdefault((p, ty), [])
            if mcv[2] == "[":
                st.append(v)
            elif mcv[2] == "]":
                st.pop()
            else:
                st[:] = [v]
        for (pp, ty), st in cur.items():
            want = (st[-1] if st else 0) if state.get(pp) else 0
            got = emucore.timeline(r["rows"].get((0, g[pp] + 1, 100 + ty), []), clk - t0)
            if got != want:
                return "thread row %d type %d shows %d at t=%d, the mark value is %s and the thread is %s" % (
                    g[pp] + 1, 100 + ty, got, clk - t0, st[-1] if st else None, "active" if state.get(pp) else "not active")
    return None


def pcf_marks(text):
    """{type: (title, {value: label})} for types 100..199 of a .pcf"""
    res = {}
    cur = None
    mode = None
    for ln in text.split("\n"):
        if ln.startswith("EVENT_TYPE"):
            mode = "type"; cur = None
        elif ln.startswith("VALUES"):
            mode = "values"
        elif not ln.strip():
            mode = None
        elif mode == "type":
            f = ln.split(None, 2)
            if len(f) >= 2 and f[1].isdigit() and 100 <= int(f[1]) < 200:
                cur = int(f[1]) - 100
                res[cur] = (f[2].strip() if len(f) > 2 else "", {})
            else:
                cur = None
        elif mode == "values" and cur is not None:
            f = ln.split(None, 1)
            if f and f[0].lstrip("-").isdigit():
                res[cur][1][int(f[0])] = f[1].strip() if len(f) > 1 else ""
    return res


def model_marks(lines):
    res = {}
    for ln in lines:
        f = ln.split()
        if f[0] == "MT":
            res[int(f[1])] = (bytes.fromhex(f[3]).decode("latin1") if len(f) > 3 else "", {})
        elif f[0] == "ML":
            res[int(f[1])][1][int(f[2])] = bytes.fromhex(f[3]).decode("latin1") if len(f) > 3 else ""
    return res
