"""C07 - task life-cycle: bodies follow their state machine, never run twice at once."""
from vf import common, emucheck, emucore, gen_hist
from vf.gen_hist import u32

LEVEL = "proof"

TYPES = {"nosv": {"task": 10, "type": 11, "app": 12, "rank": 14, "body": 15}, "nanos6": {"task": 35, "type": 36, "rank": 38}}


def illegal_tail(rng, s, model):
    """appends ONE task operation that the documented life-cycle forbids, chosen from the shadow state;
    returns a description or None if none applies"""
    M = "V" if model == "nosv" else "6"
    n = len(s.threads)
    tasks, stacks, tstate = s.task_info, s.task_stacks, s.task_tstate
    clk = s.task_clock + 5
    cands = []
    dups = []
    for t in range(n):
        if tstate[t] != "Running":
            continue
        pr = (s.threads[t]["loom"], s.threads[t]["pid"])
        tk = tasks.get(pr, {})
        stk = stacks[t]
        for tid, info in tk.items():
            for bid, b in info["bodies"].items():
                here = (tid, bid) in stk
                top = bool(stk) and stk[-1] == (tid, bid)
                if b["st"] == "R" and here and not top:
                    cands.append((t, "p", tid, bid, "pause a running body that is not on top of the stack"))
                    cands.append((t, "e", tid, bid, "end a running body that is not on top of the stack"))
                if b["st"] == "R":
                    cands.append((t, "x", tid, bid, "execute a body that is already running"))
                    cands.append((t, "r", tid, bid, "resume a running body"))
                    if info["par"]:
                        cands.append((t, "p", tid, bid, "pause a body of a parallel task"))
                    if not here:
                        cands.append((t, "e", tid, bid, "end a body that runs on another thread"))
                        cands.append((t, "p", tid, bid, "pause a body that runs on another thread"))
                if b["st"] == "P":
                    cands.append((t, "x", tid, bid, "execute a paused body"))
                    cands.append((t, "e", tid, bid, "end a paused body"))
                    cands.append((t, "p", tid, bid, "pause a paused body"))
                    if here and not top:
                        cands.append((t, "r", tid, bid, "resume a body that is not on top of the stack"))
                    if not here:
                        cands.append((t, "r", tid, bid, "resume a body paused on another thread"))
                if b["st"] == "D":
                    cands.append((t, "e", tid, bid, "end a dead body"))
                    cands.append((t, "r", tid, bid, "resume a dead body"))
                    if model == "nanos6" or info["par"]:
                        cands.append((t, "x", tid, bid, "run a dead body of a task that cannot resurrect"))
            # a task is created once: its life starts with the one creation
            tys = getattr(s, "task_types", {}).get(pr, [])
            if tys:
                dups.append((t, "c", tid, tys[0], "create a task whose id already exists"))
            if not info["bodies"]:
                cands.append((t, "e", tid, 1 if info["par"] else 0, "end a body that never ran"))
                cands.append((t, "p", tid, 1 if info["par"] else 0, "pause a body that never ran"))
        # nesting over a running body (nOS-V forbids it)
        if model == "nosv" and stk and tk[stk[-1][0]]["bodies"][stk[-1][1]]["st"] == "R":
            for tid, info in tk.items():
                if not info["bodies"] and not info["par"]:
                    cands.append((t, "x", tid, 0, "nest a task over a running one"))
    # a perfectly legal task operation, but by a thread that has just been paused (the models want an active thread)
    if rng.chance(1, 6):
        legalops = []
        for t in range(n):
            if tstate[t] != "Running":
                continue
            pr = (s.threads[t]["loom"], s.threads[t]["pid"])
            tk = tasks.get(pr, {})
            stk = stacks[t]
            if stk:
                (tid, bid) = stk[-1]
                st_ = tk[tid]["bodies"][bid]["st"]
                legalops.append((t, "e" if st_ == "R" else "r", tid, bid))
            else:
                for tid, info in tk.items():
                    if not info["bodies"] and not info["par"]:
                        legalops.append((t, "x", tid, 0))
        if legalops:
            (t, kind, tid, bid) = rng.choice(legalops)
            s.events.append((t, clk, "OHp", b""))
            payload = u32(tid) + u32(bid) if model == "nosv" else u32(tid)
            s.events.append((t, clk + 2, M + "T" + kind, payload))
            return "task operation by a paused thread"
    if not cands:
        return None
    special = [c for c in cands if "not on top" in c[4]]
    (t, kind, tid, bid, why) = rng.choice(special) if special and rng.chance(2, 3) else rng.choice(cands)
    if dups and rng.chance(1, 12):
        (t, kind, tid, bid, why) = rng.choice(dups)
    if kind == "c":
        s.events.append((t, clk, M + "Tc", u32(tid) + u32(bid)))
        return why
    payload = u32(tid) + u32(bid) if model == "nosv" else u32(tid)
    s.events.append((t, clk, M + "T" + kind, payload))
    return why


def replay_views(s, model):
    """independent replay of an ACCEPTED clean history: after every event of a thread, (clock, thread, (task id, body id) of
    the body on top of its stack if that body is running else None, thread state).  Rules from the property text only:
    x pushes a running body, e pops it, p/r pause/resume the top."""
    import struct
    M = "V" if model == "nosv" else "6"
    stacks = {}
    tstate = {}
    out = []
    for (t, clk, mcv, pl) in sorted(s.events, key=lambda e: e[1]):
        if mcv[:2] == "OH":
            nxt = {"x": "Running", "p": "Paused", "r": "Running", "e": "Dead", "c": "Cooling", "w": "Warming"}.get(mcv[2])
            if nxt:
                tstate[t] = nxt
        elif mcv[0] == M and mcv[1] == "T" and mcv[2] in "xepr":
            tid = struct.unpack("<I", bytes(pl)[:4])[0]
            bid = struct.unpack("<I", bytes(pl)[4:8])[0] if model == "nosv" else 0
            stk = stacks.setdefault(t, [])
            if mcv[2] == "x":
                stk.append([tid, bid, "R"])
            elif mcv[2] == "e":
                if stk:
                    stk.pop()
            elif mcv[2] == "p" and stk:
                stk[-1][2] = "P"
            elif mcv[2] == "r" and stk:
                stk[-1][2] = "R"
        stk = stacks.get(t, [])
        top = (stk[-1][0], stk[-1][1]) if (stk and stk[-1][2] == "R") else None
        out.append((clk, t, top, tstate.get(t, "Unknown")))
    return out


def run(chk):
    # "taskc": task_find / task_type_find / task_create / task_type_create / body_find / body_create regenerated from task.c and
    # body.c and proved equal to the primitives the units guards and taskev use (C07_task_creation_from_source)
    build, oracle, tables = emucheck.setup(chk, extra_units=("guards", "taskev", "taskc"))
    chk.trusted_base = list(getattr(chk, "trusted_base", [])) + [
        "translate/units/taskc.py + translate/units/_stagec.py: the creation functions of src/emu/task.c and body.c are translated to "
        "Gallina on every run; hand-written prelude coq/Emu/TaskCPre.v: uthash tables as insertion-ordered lists, calloc as a pending "
        "object at its future position (a pending body is the pointer BNew), snprintf formats parsed by the translator and rendered "
        "with PvDefs.dec, task_get_type_gid (uthash HASH_VALUE loop) as a function of the label supplied by the environment, calloc "
        "outcome from the environment; coq/Emu/TaskCRelDefs.v reads one struct task_info as the (loom, pid, model) slice of the "
        "emulator-core state",
    ]
    chk.assumptions = ["type ids/labels and task ids are fresh per process; thread events as in C04",
                       "Nanos6 nests a task over another one inside a subsystem region (as the runtime does); pushing the task-body "
                       "subsystem twice in a row is refused by its channel and is outside the property"]
    rng = chk.rng
    corr = []
    for model in ("nosv", "nanos6"):
        clean, bad, mixed = [], [], []
        whys = []
        for i in range(chk.budget(250, 3000)):
            r = rng.fork("%s-c%d" % (model, i))
            s = gen_hist.base_scenario(r, tables, models=["ovni", model], nlooms=1)
            gen_hist.task_history(r, s, tables, model, build, wrong_num=0)
            clean.append(s)
        for i in range(chk.budget(250, 3000)):
            r = rng.fork("%s-b%d" % (model, i))
            s = gen_hist.base_scenario(r, tables, models=["ovni", model], nlooms=1)
            s.stop_before_winddown = True
            s.prefer_nesting = True
            gen_hist.task_history(r, s, tables, model, build, wrong_num=0)
            why = illegal_tail(r, s, model)
            if why:
                bad.append(s)
                whys.append(why)
        for i in range(chk.budget(200, 2500)):
            r = rng.fork("%s-m%d" % (model, i))
            s = gen_hist.base_scenario(r, tables, models=["ovni", model], nlooms=1)
            gen_hist.task_history(r, s, tables, model, build, wrong_num=3)
            mixed.append(s)
        scs = clean + bad + mixed
        real = emucore.run_real(build, scs)
        mod = emucore.run_oracle(oracle, scs) if oracle else [None] * len(scs)
        ty = TYPES[model]
        for idx, (s, r, m) in enumerate(zip(scs, real, mod)):
            desc = s.describe()
            kind = "clean" if idx < len(clean) else "illegal" if idx < len(clean) + len(bad) else "mixed"
            chk.case((model, kind, desc["events"], desc["threads"]))
            chk.count("%s:%s:%s" % (model, kind, "accepted" if r["rc"] == 0 else "rejected"))
            key = common.hashlib.md5(repr(desc).encode()).hexdigest()[:12]
            if kind == "clean":
                if r["rc"] != 0:
                    chk.violation("rejects-legal-tasks:" + key, "ovniemu rejects a task history that follows the documented life-cycle: %s" % emucore._first_error(r["stderr"]),
                                  {"scenario": desc, "stderr": r["stderr"][:1200]})
                elif r["rows"] is not None:
                    # while a body runs (and the thread runs) the thread row shows its task id; nothing otherwise
                    g = s.thread_gindex()
                    t0 = min(e[1] for e in s.events)
                    for (clk, t, running, tst) in s.task_shadow + replay_views(s, model):
                        want = running[0] if (running and tst == "Running") else 0
                        got = emucore.timeline(r["rows"].get((0, g[t] + 1, ty["task"]), []), clk - t0)
                        if got != want:
                            chk.violation("task-view:" + key, "thread row %d shows task id %d at t=%d, the running body is %s (thread %s)" % (g[t] + 1, got, clk - t0, running, tst),
                                          {"scenario": desc})
                            break
                        pr = (s.threads[t]["loom"], s.threads[t]["pid"])
                        wantty = s.gid[s.task_info[pr][running[0]]["label"]] if (running and tst == "Running") else 0
                        gotty = emucore.timeline(r["rows"].get((0, g[t] + 1, ty["type"]), []), clk - t0)
                        if gotty != wantty:
                            chk.violation("type-view:" + key, "thread row %d shows task type %d at t=%d, the running body's task has type %d" % (g[t] + 1, gotty, clk - t0, wantty),
                                          {"scenario": desc})
                            break
                        # rank (shown as rank + 1, only for processes that have one) and application id
                        rk = s.threads[t].get("rank")
                        wantr = (rk + 1) if (running and tst == "Running" and rk is not None) else 0
                        gotr = emucore.timeline(r["rows"].get((0, g[t] + 1, ty["rank"]), []), clk - t0)
                        if gotr != wantr:
                            chk.violation("rank-view:" + key, "thread row %d shows rank value %d at t=%d, expected %d (running body %s, thread %s, process rank %s)" % (
                                g[t] + 1, gotr, clk - t0, wantr, running, tst, rk), {"scenario": desc})
                            break
                        if "app" in ty:
                            wanta = s.threads[t].get("app", 1) if (running and tst == "Running") else 0
                            gota = emucore.timeline(r["rows"].get((0, g[t] + 1, ty["app"]), []), clk - t0)
                            if gota != wanta:
                                chk.violation("app-view:" + key, "thread row %d shows app id %d at t=%d, expected %d" % (g[t] + 1, gota, clk - t0, wanta), {"scenario": desc})
                                break
                        if "body" in ty:
                            wantb = (running[1] if running[1] else 1) if (running and tst == "Running") else 0
                            gotb = emucore.timeline(r["rows"].get((0, g[t] + 1, ty["body"]), []), clk - t0)
                            if gotb != wantb:
                                chk.violation("body-view:" + key, "thread row %d shows body id %d at t=%d, expected %d" % (g[t] + 1, gotb, clk - t0, wantb), {"scenario": desc})
                                break
            elif kind == "illegal":
                # the forbidden operation itself must be what the emulator refuses (its panic report names the event)
                last = s.events[-1]
                import re as _re
                m_ = _re.search(r"rclock=(\d+)", r["stderr"])
                refused_here = r["rc"] != 0 and m_ is not None and int(m_.group(1)) == last[1] and ("mcv=" + last[2]) in r["stderr"]
                if not refused_here:
                    chk.violation("accepts-illegal-task-op:" + key, "ovniemu does not refuse the forbidden operation at the end of the history (%s): exit %s, %s" % (
                                  whys[idx - len(clean)], r["rc"], emucore._first_error(r["stderr"])),
                                  {"scenario": desc, "operation": whys[idx - len(clean)]})
            if m is not None:
                d = emucore.compare(s, r, m)
                if d:
                    corr.append((desc, d))
        for w in whys:
            chk.count("illegal:" + w)
        chk.sample({"model": model, "scenario": clean[0].describe(), "ovniemu_exit": real[0]["rc"]})
    chk.coverage["rule"] = ("for nOS-V and Nanos6: histories legal by construction (types, tasks, parallel tasks with several bodies, pause/resume, nesting over "
                            "paused bodies, thread pause/resume in between, ranks/app ids) must be accepted and show the running body's task/body id; the same "
                            "histories cut at a random point and followed by ONE forbidden operation (17 kinds) must be rejected; plus mixed random histories "
                            "compared with the extracted Coq model (verdict and every PRV row)")
    emucheck.finish_corr(chk, corr)
