"""C13 - Paraver output is well-formed and self-consistent (every .prv/.pcf/.row of every accepted trace)."""
import json
import os
import re
import shutil

from vf import common, emucheck, emucore, emuall, gen_hist, trace

LEVEL = "proof"

HDR = re.compile(r"^#Paraver \(\d\d/\d\d/\d\d at \d\d:\d\d\):(\d{20})_ns:0:1:1\((\d+):1\)$")
REC = re.compile(r"^2:0:1:1:(\d+):(\d+):(\d+):(-?\d+)$")


def parse_prv_strict(text):
    """-> (duration, nrows, [(time,row,type,value)]) ; raises ValueError on anything else"""
    if not text.endswith("\n"):
        raise ValueError("file does not end with a newline")
    lines = text[:-1].split("\n")
    m = HDR.match(lines[0])
    if not m:
        raise ValueError("bad header %r" % lines[0][:120])
    recs = []
    for n, ln in enumerate(lines[1:], 2):
        r = REC.match(ln)
        if not r:
            raise ValueError("line %d is not an event record: %r" % (n, ln[:120]))
        recs.append((int(r.group(2)), int(r.group(1)), int(r.group(3)), int(r.group(4))))
    return int(m.group(1)), int(m.group(2)), recs


def parse_pcf_strict(text):
    """-> {type: (label, {value: label})}; raises ValueError on duplicate types/values or malformed blocks"""
    res = {}
    lines = text.split("\n")
    i = 0
    while i < len(lines):
        if lines[i].strip() != "EVENT_TYPE":
            i += 1
            continue
        i += 1
        m = re.match(r"^0\s+(\d+)\s+(.*)$", lines[i]) if i < len(lines) else None
        if not m:
            raise ValueError("EVENT_TYPE not followed by a type line: %r" % (lines[i][:100] if i < len(lines) else None))
        ty = int(m.group(1))
        if ty in res:
            raise ValueError("type %d declared twice" % ty)
        i += 1
        vals = {}
        if i < len(lines) and lines[i].strip() == "VALUES":
            i += 1
            while i < len(lines) and lines[i].strip():
                v = re.match(r"^(-?\d+)\s+(.*)$", lines[i])
                if not v:
                    raise ValueError("bad value line for type %d: %r" % (ty, lines[i][:100]))
                if int(v.group(1)) in vals:
                    raise ValueError("value %s of type %d labelled twice" % (v.group(1), ty))
                vals[int(v.group(1))] = v.group(2)
                i += 1
        res[ty] = (m.group(2).strip(), vals)
    return res


def parse_row_strict(text):
    lines = text.split("\n")
    if lines[:3] != ["LEVEL NODE SIZE 1", "hostname", ""]:
        raise ValueError("bad ROW preamble %r" % lines[:3])
    m = re.match(r"^LEVEL THREAD SIZE (\d+)$", lines[3] if len(lines) > 3 else "")
    if not m:
        raise ValueError("no LEVEL THREAD SIZE line")
    n = int(m.group(1))
    rest = lines[4:]
    if rest and rest[-1] == "":
        rest = rest[:-1]
    if len(rest) != n:
        raise ValueError("declares %d rows and names %d" % (n, len(rest)))
    return n, rest


def pv_oracle_text(s):
    """the scenario lines of the emucore protocol + the physical ids of the CPUs in gindex order (the CPU names
    of the ROW file and of the affinity labels are made of them)"""
    out = s.oracle_text()
    phy = []
    for name in s.loom_order():
        for (idx, p) in sorted(s.looms[name], key=lambda x: x[1]):
            phy.append(p)
        phy.append(-1)
    out.insert(len(out) - 1, "Y " + " ".join(str(p) for p in phy))
    return out


def run_pv_oracle(oracle, scenarios, extra=()):
    """-> per scenario ('err', code, {}) | ('ok', 0, {file name: bytes}) : the files the Coq writer model produces"""
    def batch(ix):
        lines = []
        for s in scenarios[ix:ix + 100]:
            lines += pv_oracle_text(s)
            lines[-1:-1] = list(extra)
        rc, out, err = common.run([oracle], input="\n".join(lines) + "\n", timeout=900)
        res = []
        cur = None
        for ln in out.split("\n"):
            if ln.startswith("err"):
                cur = ("err", int(ln.split()[1]), {})
            elif ln == "ok":
                cur = ("ok", 0, {})
            elif ln.startswith("FILE "):
                _, name, hx = ln.split()
                cur[2][name] = b"" if hx == "-" else bytes.fromhex(hx)
            elif ln == "done":
                res.append(cur)
                cur = None
        if len(res) != len(scenarios[ix:ix + 100]):
            raise RuntimeError("pv oracle answered %d of %d scenarios: %s" % (len(res), len(scenarios[ix:ix + 100]), err[-400:]))
        return res
    out = []
    for part in trace.pmap(batch, list(range(0, len(scenarios), 100))):
        out += part
    return out


PV_FILES = ("thread.pcf", "cpu.pcf", "thread.row", "cpu.row", "thread.prv", "cpu.prv")


def compare_pv(real_files, model_files, names=PV_FILES):
    """byte-level comparison of the files ovniemu wrote with the files of the Coq writer model.  .pcf and .row: the
    whole file; .prv: the header line byte for byte and the record lines as a multiset (records written in one
    propagation step have no order the property or the model fixes).  -> None or (file, text)"""
    for name in names:
        if name not in real_files:
            return (name, "ovniemu wrote no %s" % name)
        a = real_files[name].encode("latin1")
        b = model_files.get(name)
        if b is None:
            return (name, "the model has no %s" % name)
        if name.endswith(".prv"):
            al, bl = a.split(b"\n"), b.split(b"\n")
            if al[0] != bl[0]:
                return (name, "%s header: ovniemu %r, model %r" % (name, al[0][:100], bl[0][:100]))
            if sorted(al) != sorted(bl):
                only_r = sorted(set(al) - set(bl))[:3]
                only_m = sorted(set(bl) - set(al))[:3]
                return (name, "%s records differ: only ovniemu %r, only model %r (%d vs %d lines)" % (name, only_r, only_m, len(al), len(bl)))
        elif a != b:
            al, bl = a.split(b"\n"), b.split(b"\n")
            for n, (x, y) in enumerate(zip(al, bl), 1):
                if x != y:
                    return (name, "%s line %d: ovniemu %r, model %r" % (name, n, x[:120], y[:120]))
            return (name, "%s: ovniemu has %d lines, the model %d" % (name, len(al), len(bl)))
    return None


def gen_ops(r):
    """a script of writer operations (see harness/pv_h.c): small id / value / row alphabets so that duplicates,
    rows set twice, rows never set, indices out of bounds, labels of 511/512/600 bytes and backward times happen"""
    def label():
        k = r.below(90)
        n = 511 if k == 0 else 512 if k == 1 else 600 if k == 2 else r.range(0, 12)
        alpha = b"abcXYZ 0123456789:._-*()" + (b"\n" if r.chance(1, 30) else b"")
        return bytes(alpha[r.below(len(alpha))] for _ in range(n)).hex() or "-"
    nrows = r.choice([1, 2, 3, 4])
    ops = ["R%d" % nrows]
    types = []
    rows = list(range(nrows))
    if r.chance(1, 6):
        rows = rows[:-1]                      # a row that is never named
    t = 0
    named = set()
    regs = set()
    vals = set()
    for _ in range(r.range(1, 14)):
        k = r.below(10)
        if k < 3 or (k < 6 and not types):
            ty = r.choice([1, 2, 7, 13, 101, 2147483647, -1, 3, 4, 6, 10, 11, 12, 14, 15, 16, 17, 20, 25, 30])
            if ty in types and not r.chance(1, 12):
                continue
            types.append(ty)
            ops.append("T%d:%s" % (ty, label()))
        elif k < 6:
            ty = r.choice(types) if not r.chance(1, 25) else r.choice([1, 2, 99])
            v = r.choice([0, 1, 2, 3, 5, 1000, -4, 4294967301, 2147483648] + list(range(6, 40)))
            if (ty, v) in vals and not r.chance(1, 8):
                continue
            vals.add((ty, v))
            ops.append("V%d:%d:%s" % (ty, v, label()))
        elif k < 7:
            row = r.choice(list(range(nrows)) * 8 + [nrows, -1])
            ty = r.choice([1, 2, 7, 13, 14, 15, 16, 17, 20, 25])
            if (row, ty) in regs and not r.chance(1, 8):
                continue
            regs.add((row, ty))
            ops.append("G%d:%d:%d" % (row, ty, r.choice([0, 0, 2, 4, 8, 16, 12, 24, 0, 2, 0, 4] + ([3, 18, 17] if r.chance(1, 6) else []))))
        elif k < 8:
            t = t + r.range(0, 9) if not r.chance(1, 16) else t - r.range(1, 5)
            ops.append("D%d" % t)
            if t < 0:
                t = 0
        else:
            g = r.choice([nrows, -1]) if r.chance(1, 25) else r.choice(range(nrows))
            if g in named and not r.chance(1, 8):
                continue
            named.add(g)
            ops.append("A%d:%s" % (g, label()))
    for g in rows:
        if r.chance(4, 5) and not any(o.startswith("A%d:" % g) for o in ops):
            ops.append("A%d:%s" % (g, label()))
    return "OPS " + " ".join(ops)


def ops_campaign(chk, build, pv_oracle, n):
    """the writer primitives (pcf_add_type, pcf_add_value, prf_add, prf_close, prv_register, prv_advance, prv_close and
    the text they write) of the real code, #included in harness/pv_h.c, against the extracted Coq functions on
    generated operation scripts: same first refused operation, same bytes"""
    hx = os.path.join(common.BUILD, "harness", "pv_h-" + build.tree)
    if not os.path.exists(hx):
        common.cc_harness(hx, [os.path.join(common.VERIF, "harness", "pv_h.c")], build, extra=build.libs_emu)
    lines = [gen_ops(chk.rng.fork("ops%d" % i)) for i in range(n)]
    impl = common.batch(hx, lines)
    modl = common.batch(pv_oracle, lines)
    bad = []
    for ln, a, b in zip(lines, impl, modl):
        chk.case(("ops", ln))
        chk.count("ops:" + ("refused" if a.startswith("E") else "row-unset" if " rowerr " in a else "written"))
        if a != b:
            what = "refused at different operations (real %s, model %s)" % (a[:12], b[:12]) if a[:1] == "E" or b[:1] == "E" else "different bytes"
            bad.append((ln[:400], what))
    return bad


CLK_HEADER = b"%-10s %-20s %-20s %-20s %-20s" % (b"rank", b"hostname", b"offset_median", b"offset_mean", b"offset_std")


def emuall_family(chk, build, scs):
    """WHOLE trace directories through the extracted composition EmuAllDefs.ovniemu_model (stream bytes, stream.json
    in the abstract forms of the models, clock-offsets.txt bytes, options) against the real ovniemu on the same
    directory: same verdict, and the same six files when accepted"""
    try:
        oracle = common.build_oracle("emuall", "Extract_emuall", "emuall_drv.ml", "emuall_x")
    except Exception as e:
        chk.notes.append("emuall oracle unavailable: %r" % (e,))
        if not getattr(chk, "proof_broken", None):
            chk.proof_broken = {"kind": "extraction", "error": repr(e)[:600]}
        return []
    pick = scs[:chk.budget(200, 1200)]
    wd = trace.workdir("ovni-c13all-")
    bad = []
    try:
        inputs = []
        dirs = []
        for i, s in enumerate(pick):
            r = chk.rng.fork("all%d" % i)
            d = os.path.join(wd, "t%d" % i)
            s.write(d)
            if r.chance(1, 3):
                # a clock-offset table naming every loom of the trace (small offsets: the order of the merge changes,
                # the gate does not close)
                rows = [CLK_HEADER]
                for k, name in enumerate(sorted(set(t["loom"] for t in s.threads))):
                    off = r.range(0, 40) * (1 if r.chance(2, 3) else -1)
                    rows.append(b"%-10d %-20s %-20d %-20d %-20d" % (k, name.split(".")[0].encode("latin1"), off, off, 0))
                with open(os.path.join(d, "clock-offsets.txt"), "wb") as f:
                    f.write(b"\n".join(rows) + b"\n")
                chk.count("emuall:with-clock-table")
            inputs.append(emuall.trace_lines(d, lint=s.lint, gids=s.gid))
            dirs.append(d)

        def one(ix):
            rc, o, e = trace.run_tool(build, "ovniemu", (["-l"] if pick[ix].lint else []), dirs[ix])
            files = {}
            if rc == 0:
                for n in PV_FILES:
                    pth = os.path.join(dirs[ix], n)
                    if os.path.exists(pth):
                        files[n] = open(pth, "rb").read().decode("latin1")
            return rc, e, files
        reals = trace.pmap(one, range(len(pick)), 4)
        model = emuall.run_model(oracle, inputs)
        for s, (rc, err, files), m in zip(pick, reals, model):
            chk.case(("all", len(s.events), len(s.threads), tuple(s.enabled)))
            chk.count("emuall:" + ("accepted" if rc == 0 else "refused"))
            if (rc == 0) != (m[0] == "ok"):
                bad.append((s.describe(), "whole-emulator composition: ovniemu exits %s (%s), the model says %s %s" % (
                    rc, emucore._first_error(err)[:120], m[0], m[1])))
            elif rc == 0:
                dd = compare_pv(files, m[2])
                if dd:
                    bad.append((s.describe(), "whole-emulator composition: " + dd[1]))
            else:
                chk.count("emuall:refused-as:" + m[1].split(":")[0])
    finally:
        shutil.rmtree(wd, ignore_errors=True)
    chk.coverage["whole_traces_through_composed_model"] = len(pick)
    return bad


def check_set(files, base, want_rows, duration, state, thread_file):
    """independent judgement of one .prv/.pcf/.row triple -> list of (key, text)"""
    bad = []
    try:
        dur, nrows, recs = parse_prv_strict(files[base + ".prv"])
    except (ValueError, KeyError) as e:
        return [("prv-unreadable:" + base, "%s.prv: %s" % (base, e))]
    try:
        pcf = parse_pcf_strict(files[base + ".pcf"])
    except (ValueError, KeyError) as e:
        return [("pcf-unreadable:" + base, "%s.pcf: %s" % (base, e))]
    try:
        n, names = parse_row_strict(files[base + ".row"])
    except (ValueError, KeyError) as e:
        return [("row-unreadable:" + base, "%s.row: %s" % (base, e))]
    last = 0
    for (t, row, ty, v) in recs:
        if t < last:
            bad.append(("time-decreases:" + base, "%s.prv: time %d after %d" % (base, t, last)))
            break
        last = t
    for (t, row, ty, v) in recs:
        if not (1 <= row <= nrows):
            bad.append(("row-out-of-range:" + base, "%s.prv: row %d with %d rows declared" % (base, row, nrows)))
            break
    if recs and last > dur:
        bad.append(("record-after-duration:" + base, "%s.prv: record at %d, header duration %d" % (base, last, dur)))
    if duration is not None and dur != duration:
        bad.append(("duration:" + base, "%s.prv: header duration %d, the last event is at %d" % (base, dur, duration)))
    for ty in sorted(set(r[2] for r in recs)):
        if ty not in pcf:
            bad.append(("type-undeclared:%s:%d" % (base, ty), "%s.prv uses event type %d, %s.pcf does not declare it" % (base, ty, base)))
    stypes = dict(state["static"]); stypes.update(state["task_type"])
    if thread_file:
        stypes.update(state["thread_only"])
    for (t, row, ty, v) in recs:
        if str(ty) in stypes and v != 0 and ty in pcf and v not in pcf[ty][1]:
            bad.append(("value-unlabelled:%s:%d" % (base, ty), "%s.prv shows value %d of state type %d (%s) at t=%d, %s.pcf has no label for it" % (
                base, v, ty, stypes[str(ty)], t, base)))
            break
    # the value tables of the source (dumped by the translator, the ones the Coq theorem is about) are what the PCF lists
    for ty, want in (state.get("dumped", {}).get("thread" if thread_file else "cpu", {})).items():
        if int(ty) in pcf and base in ("thread", "cpu"):
            have = pcf[int(ty)][1]
            if have != want:
                missing = sorted(set(want) - set(have))[:5]
                extra = sorted(set(have) - set(want))[:5]
                diff = [v for v in want if v in have and have[v] != want[v]][:5]
                bad.append(("pcf-labels-differ:%s:%s" % (base, ty), "%s.pcf type %s: labels differ from the model's value table (missing %s, extra %s, renamed %s)" % (
                    base, ty, missing, extra, diff)))
    if n != nrows:
        bad.append(("row-count:" + base, "%s.row names %d rows, %s.prv declares %d" % (base, n, base, nrows)))
    if want_rows is not None and names != want_rows:
        bad.append(("row-names:" + base, "%s.row names %s, the documented order gives %s" % (base, names[:8], want_rows[:8])))
    return bad


def expected_rows(s):
    """documented order: looms by name (by rank when every loom has ranks), processes by pid, threads by tid;
    CPUs of a loom by physical id, then its virtual CPU"""
    lo = s.loom_order()
    g = s.thread_gindex()
    inv = {v: k for k, v in g.items()}
    th = ["TH %d.%d" % (s.threads[inv[i]].get("app", 1), s.threads[inv[i]]["tid"]) for i in range(len(s.threads))]
    cpus = []
    for li, name in enumerate(lo):
        for (idx, phy) in sorted(s.looms[name], key=lambda x: x[1]):
            cpus.append(" CPU %d.%d" % (li, phy))
        cpus.append("vCPU %d.*" % li)
    return th, cpus


def run(chk):
    # "prv": check_flags of prv.c regenerated from the source (C13_prv_flags_from_source); "pv": text and tables of the writer layer;
    # "emuloop": the top-level sequencing (emu.c, model.c, recorder.c, pvt.c, prv.c) regenerated from the source (C13_emu_step_from_source ...)
    # "pvw": the writer primitives of pcf.c / prf.c / prv.c regenerated from the source (C13_writer_primitives_from_source)
    units = [u for u in ("prv", "pv", "emuloop", "pvw") if os.path.exists(os.path.join(common.VERIF, "translate", "units", u + ".py"))]
    build, oracle, tables = emucheck.setup(chk, extra_units=units)
    chk.trusted_base += [
        "translate/units/pv.py: PCF header text, palette, label limits, system-channel names and labels, the models' type "
        "prefixes/suffixes and value labels are dumped by compiling pv/pcf.c, model_pvt.c, thread.c, cpu.c and every "
        "<model>/setup.c in probe TUs on every run",
        "hand model coq/Emu/PvDefs.v (pcf.c/prf.c/prv.c writers and refusals, system_connect, model_pvt.c, mark_connect, "
        "finish_pvt/task_create_pcf_types), compared BYTE FOR BYTE with the .pcf/.row files and the .prv header and "
        "records of ovniemu on every accepted trace (oracle/pv_drv.ml)",
    ]
    if "emuloop" in units:
        chk.trusted_base += [
            "translate/units/emuloop.py + translate/units/_stagec.py: emu_init/emu_connect/emu_step/emu_finish, model_event/"
            "model_connect/model_create/model_finish, recorder_advance/recorder_finish, pvt_advance/pvt_close, prv_advance/prv_close "
            "are translated to Gallina on every run; hand-written prelude coq/Emu/EmuLoopPre.v (the primitives carry the meaning of "
            "PlayerDefs / EmuCoreDefs / BayDefs / PvDefs; connect and finish hooks are parameters; model_probe, model_register, "
            "argument parsing, cfg_generate and emu_stat are not modelled)",
        ]
    if "pvw" in units:
        chk.trusted_base += [
            "translate/units/pvw.py + translate/units/_stagec.py: pcf_find_type/pcf_add_type/pcf_find_value/pcf_add_value/write_header/"
            "write_type/write_types/pcf_close, prf_open/prf_add/prf_close, prv.c's write_header/prv_open_file/get_id/find_prv_chan/"
            "write_line/prv_register are translated to Gallina on every run and proved equal to the PvDefs primitives "
            "(Proofs/PvWProofs.v); hand-written prelude coq/Emu/PvWPre.v: uthash tables as insertion-ordered lists, calloc as a "
            "pending object at its future position, snprintf %s truncation, the fprintf subset (%s, %d/%i with -, 0, width, l/ll) "
            "parsed by the translator and rendered with PvDefs.dec/pad, FILEs as byte lists, the two loop combinators, write_colors, "
            "fopen/calloc/bay_add_cb outcomes from the environment",
        ]
    pv_oracle = None
    try:
        pv_oracle = common.build_oracle("pv", "Extract_pv", "pv_drv.ml", "pv_x")
    except Exception as e:
        chk.notes.append("pv oracle unavailable: %r" % (e,))
        if not getattr(chk, "proof_broken", None):
            chk.proof_broken = {"kind": "extraction", "error": repr(e)[:600]}
    chk.assumptions = ["the input is what the player delivers: events in non-decreasing time order (C03)",
                       "state types are those of corpus/C13/state_types.json (pinned from the tree: types whose values are names)",
                       "breakdown files (-b): judged by the independent checker, and compared byte for byte with the files of the Coq model "
                       "PvBreakdownDefs.bd_emulate given the number of physical CPUs, the task-type values and the per-CPU breakdown values read "
                       "from cpu.row / cpu.pcf / cpu.prv of the same run (the inputs are read per instant: the records of an instant shared by two events are left out on both sides)",
                       "in the .prv files the order of the records written within one propagation step is not compared (records are compared as a multiset)"]
    state = json.load(open(os.path.join(common.VERIF, "corpus", "C13", "state_types.json")))
    # value tables per PRV type and side, from the dump of the current source
    dumped = {"thread": {}, "cpu": {}}
    tyof = {(c["model"], c["side"], c["index"]): c["type"] for c in tables["chans"]}
    for l in tables["labels"]:
        side = "thread" if l["side"] == "th" else "cpu"
        dumped[side].setdefault(str(tyof[(l["model"], l["side"], l["index"])]), {})[l["value"]] = l["label"]
    state["dumped"] = dumped
    rng = chk.rng
    allm = [m["name"] for m in tables["models"] if m["name"] != "ovni"]
    scs = []
    for i in range(chk.budget(800, 6000)):
        r = rng.fork("w%d" % i)
        kind = i % 4
        if kind in (0, 1):
            models = ["ovni"] + [m for m in allm if r.chance(1, 3)]
            s = gen_hist.base_scenario(r, tables, models=models)
            s.lint = r.chance(1, 5)
            gen_hist.thread_history(r, s, r.range(1, 30), careful=True)
            gen_hist.add_model_events(r, s, tables)
        else:
            model = "nosv" if kind == 2 else "nanos6"
            s = gen_hist.base_scenario(r, tables, models=["ovni", model])
            gen_hist.task_history(r, s, tables, model, build, wrong_num=0)
        if kind in (0, 1) and r.chance(1, 3):
            # mark types that are defined but (mostly) never used: their rows exist in the PRV, so the PCF must declare them
            for pos in range(len(s.threads)):
                s.marks[pos] = [{"type": 1, "stack": True, "title": "Phase", "labels": [(1, "one")]},
                                {"type": 7, "stack": False, "title": "Error", "labels": []}]
        if r.chance(1, 3) and s.events:
            # events that change no channel (unordered-region markers, bursts) after the end of a thread: they still
            # move the time, so the header duration is their time
            last = max(e[1] for e in s.events)
            t_ = r.below(len(s.threads))
            for j, mcv in enumerate(r.choice([["OU[", "OU]"], ["OB."], ["OU[", "OB.", "OU]"]])):
                s.events.append((t_, last + 7 * (j + 1), mcv, b""))
        if kind in (0, 1) and r.chance(1, 2):
            # MPI ranks in a cyclic placement over the looms, the process with the lowest pid of the first loom not
            # holding its lowest rank: looms are ordered by their lowest rank, processes of a loom by rank
            lo = sorted(set(t["loom"] for t in s.threads))
            procs = {l: sorted(set(t["pid"] for t in s.threads if t["loom"] == l), key=lambda p_: "proc.%d" % p_) for l in lo}
            npmax = max(len(v) for v in procs.values())
            for t in s.threads:
                li = lo.index(t["loom"])
                mine = procs[t["loom"]]
                j = mine.index(t["pid"])
                t["rank"] = ((len(mine) - 1 - j) if li == 0 else j) * len(lo) + li
                t["nranks"] = len(lo) * npmax
        scs.append(s)
    real = emucore.run_real(build, scs, keep_files=True)
    mod = emucore.run_oracle(oracle, scs) if oracle else [None] * len(scs)
    pvm = run_pv_oracle(pv_oracle, scs) if pv_oracle else [None] * len(scs)
    corr = []
    pvcorr = []
    npv = 0
    nacc = 0
    for s, r, m, pm in zip(scs, real, mod, pvm):
        desc = s.describe()
        chk.case(("out", desc["events"], desc["threads"], desc["looms"], desc["enabled"]))
        chk.count("trace:" + ("accepted" if r["rc"] == 0 else "rejected"))
        key = common.hashlib.md5(repr(desc).encode()).hexdigest()[:12]
        if r["rc"] == 0:
            nacc += 1
            clocks = [e[1] for e in s.events]
            duration = max(clocks) - min(clocks) if clocks else 0
            th_rows, cpu_rows = expected_rows(s)
            probs = check_set(r["files"], "thread", th_rows, duration, state, True) + check_set(r["files"], "cpu", cpu_rows, duration, state, False)
            for (k, text) in probs:
                chk.violation("%s:%s" % (k, key), text, {"scenario": desc})
            chk.count("records", r["files"].get("thread.prv", "").count("\n") + r["files"].get("cpu.prv", "").count("\n"))
            if pm is not None:
                # the files of the Coq writer model, byte for byte
                if pm[0] != "ok":
                    pvcorr.append((desc, "the writer model refuses (code %d) a trace ovniemu accepts" % pm[1]))
                else:
                    d = compare_pv(r["files"], pm[2])
                    npv += 1
                    chk.count("pv-files-compared", len(PV_FILES))
                    if d:
                        pvcorr.append((desc, d[1]))
        elif pm is not None and pm[0] == "ok":
            pvcorr.append((desc, "the writer model accepts, ovniemu exits %s: %s" % (r["rc"], emucore._first_error(r["stderr"]))))
        if m is not None:
            d = emucore.compare(s, r, m)
            if d:
                corr.append((desc, d))
    chk.coverage["accepted_traces_checked"] = nacc
    chk.coverage["traces_with_files_compared_byte_for_byte"] = npv

    # ---- breakdown outputs (-b): generated by the C20 engine's trace generator, judged by the same checker
    try:
        from checks import c20
    except ImportError:
        c20 = None
    nb = 0
    bd_cmp = []
    bd_bad = []
    if c20 is not None:
        wd = trace.workdir("ovni-c13-")
        try:
            jobs = []
            for mk in (c20.model_nosv, c20.model_nanos6):
                m = mk(c20_constants(tables, "nosv" if mk is c20.model_nosv else "nanos6"), os.path.join(common.REPO, "src", "emu"))
                for k in range(chk.budget(25, 300)):
                    r = rng.fork("bd-%s-%d" % (m.name, k))
                    # one to three looms, each an independent process with its own CPUs, threads and tasks
                    parts = []
                    for li in range(r.choice([1, 2, 2, 3])):
                        ncpu, threads, desc, nbare = c20.gen_trace(r.fork("l%d" % li), m, False)
                        parts.append((ncpu, threads, desc))
                    jobs.append((m, k, parts))

            def run_job(j):
                m, k, parts = j
                d = os.path.join(wd, "%s-%d" % (m.name, k))
                tr = trace.Trace()
                for li, (ncpu, threads, desc) in enumerate(parts):
                    loom = "n%d" % li
                    for tid, evs in threads.items():
                        meta = trace.thread_meta(tid + 100 * li, 500 + li, loom, require={"ovni": "1.1.0", m.name: m.version},
                                                 cpus=[(i, i + 10 * li) for i in range(ncpu)])
                        meta.update(m.meta)
                        tr.add_thread(loom, 500 + li, tid + 100 * li, meta, [trace.ev_bytes(mcv, clk, pl, jumbo=jb) for (clk, mcv, pl, jb) in evs])
                tr.write(d)
                rc, o, e = trace.run_tool(build, "ovniemu", ["-b"], d)
                files = {}
                if rc == 0:
                    for name in os.listdir(d):
                        p = os.path.join(d, name)
                        if os.path.isfile(p) and name.split(".")[-1] in ("prv", "pcf", "row"):
                            files[name] = open(p, errors="replace", encoding="latin1").read()
                    try:
                        files["#bd"] = breakdown_inputs(c20, m, d)
                    except Exception as ex:
                        files["#bd"] = repr(ex)
                shutil.rmtree(d, ignore_errors=True)
                return rc, e[-600:], files
            for (m, k, parts), (rc, err, files) in zip(jobs, trace.pmap(run_job, jobs)):
                desc = [x for p_ in parts for x in p_[2]]
                chk.case(("bd", m.name, len(parts), tuple(desc)))
                chk.count("breakdown:%d-looms:%s" % (len(parts), "accepted" if rc == 0 else "rejected"))
                if rc != 0:
                    if len(parts) == 1:
                        continue
                    chk.notes.append("multi-loom breakdown trace rejected: %s" % err[-200:])
                    continue
                nb += 1
                bdin = files.pop("#bd", None)
                if isinstance(bdin, tuple):
                    bd_cmp.append((m, k, parts, files, bdin))
                else:
                    chk.count("breakdown-model:inputs-unreadable")
                clocks = [e[0] for p_ in parts for evs in p_[1].values() for e in evs]
                duration = max(clocks) - min(clocks)
                bases = sorted(set(n.rsplit(".", 1)[0] for n in files))
                if not any("breakdown" in b for b in bases):
                    chk.violation("no-breakdown-output:%s" % m.name, "ovniemu -b wrote no breakdown trace: %s" % bases, {"events": desc[:200]})
                for b in bases:
                    for (kk, text) in check_set(files, b, None, duration, state, b == "thread"):
                        chk.violation("%s:%s:%d" % (kk, m.name, k), text, {"model": m.name, "looms": [{"ncpu": p_[0], "events": p_[2][:300]} for p_ in parts]})
            # the breakdown files of the extracted Coq model (PvBreakdownDefs.bd_emulate: SortDefs' sort module feeding PvDefs'
            # writer) against the real ones, byte for byte (.pcf, .row, .prv header; .prv records as a multiset)
            if pv_oracle and bd_cmp:
                outs = []
                for part in trace.pmap(lambda ix: run_bd_oracle(pv_oracle, [b[4] for b in bd_cmp[ix:ix + 25]]), list(range(0, len(bd_cmp), 25))):
                    outs += part
                for (m, k, parts, files, bdin), (st_, mf) in zip(bd_cmp, outs):
                    base = m.prvfile.rsplit(".", 1)[0]
                    # the inputs are read per instant: where two events carry the same clock (two propagations in one instant:
                    # ovniemu also writes the intermediate rows) the records of that instant are left out on both sides;
                    # everything else (header, all other records, .pcf, .row) is compared
                    clk = [e[0] for p_ in parts for evs in p_[1].values() for e in evs]
                    shared_t = set(str(c - min(clk)).encode() for c in set(clk) if clk.count(c) > 1)
                    shared = bool(shared_t) or bool(bdin[4])
                    if st_ != "ok":
                        bad = (base, mf)
                    elif bdin[4]:
                        bad = compare_pv(files, {base + "." + e_: mf[e_] for e_ in ("pcf", "row")}, names=(base + ".pcf", base + ".row"))
                    else:
                        drop = lambda text: b"\n".join(ln for n_, ln in enumerate(text.split(b"\n"))
                                                       if n_ == 0 or not (ln.split(b":")[5:6] and ln.split(b":")[5] in shared_t))
                        real2 = dict(files)
                        real2[base + ".prv"] = drop(files[base + ".prv"].encode("latin1")).decode("latin1")
                        bad = compare_pv(real2, {base + ".prv": drop(mf["prv"]), base + ".pcf": mf["pcf"], base + ".row": mf["row"]},
                                         names=(base + ".pcf", base + ".row", base + ".prv"))
                    cls = "several-events-in-one-instant" if shared else "one-event-per-instant"
                    chk.count("breakdown-model:%s:%s" % (cls, "differs" if bad else "files-equal"))
                    if bad:
                        bd_bad.append(({"model": m.name, "case": k, "looms": [{"ncpu": p_[0], "events": p_[2][:120]} for p_ in parts]},
                                       "breakdown files: " + bad[1]))
        finally:
            shutil.rmtree(wd, ignore_errors=True)
    chk.coverage["breakdown_traces_checked"] = nb
    chk.coverage["breakdown_traces_compared_with_model"] = len(bd_cmp)
    if bd_bad:
        chk.coverage["breakdown_model_disagreements"] = [{"scenario": c[0], "what": c[1]} for c in bd_bad[:5]]
        pvcorr += bd_bad
    chk.sample({"scenario": scs[0].describe(), "ovniemu_exit": real[0]["rc"]})
    chk.coverage["rule"] = ("every .prv/.pcf/.row of every accepted generated trace (random thread/affinity histories over 1-3 looms with table events of random "
                            "model subsets; nOS-V and Nanos6 task histories with ranks and app ids; breakdown traces with -b) parsed by a strict independent "
                            "reader: header shape, time order, rows within the declared count, duration = last event time, types declared in the PCF, "
                            "state-type values labelled, ROW names = documented order; thread/cpu rows also compared with the extracted Coq model; the six files of each "
                            "accepted trace compared byte for byte with the files of the extracted Coq writer model (PvDefs.v); writer primitives of the real pcf.c/prf.c/prv.c "
                            "(harness/pv_h.c) against the extracted functions on generated operation scripts")
    if pv_oracle:
        opsbad = ops_campaign(chk, build, pv_oracle, chk.budget(1500, 12000))
        chk.coverage["writer_operation_scripts_compared"] = chk.budget(1500, 12000)
        if opsbad:
            chk.coverage["pv_ops_disagreements"] = [{"script": c[0], "what": c[1]} for c in opsbad[:5]]
            pvcorr += [({"ops": c[0]}, "writer primitives: " + c[1]) for c in opsbad]
    allbad = emuall_family(chk, build, scs)
    if allbad:
        chk.coverage["emuall_disagreements"] = [{"scenario": c[0], "what": c[1]} for c in allbad[:5]]
        pvcorr += allbad
    if pvcorr:
        chk.coverage["pv_correspondence_disagreements"] = [{"scenario": c[0], "what": c[1]} for c in pvcorr[:5]]
    if pvcorr and not chk.violations:
        chk.violation("broken-correspondence:pv",
                      "the Coq writer model (PvDefs.v) and ovniemu disagree on the bytes of the Paraver files of %d accepted traces, none of "
                      "which violates the property: %s" % (len(pvcorr), pvcorr[0][1]),
                      {"correspondence": "PvDefs writer model vs ovniemu files", "first": pvcorr[0]}, found_input=False)
    emucheck.finish_corr(chk, corr)


def breakdown_inputs(c20, m, d):
    """what PvBreakdownDefs.bd_emulate is given for one `ovniemu -b` run, read from the OTHER files of the same run:
    number of physical CPUs (cpu.row), the task values of the model's task-type PCF type in cpu.pcf (file order), and per
    instant the changes of the per-CPU breakdown values (the sort inputs; C20_wiring) derived from the subsystem / task type /
    idle records of cpu.prv.  -> ("nosv"|"nanos6", n, tvals text, steps text, instants with more than one record on a
    (row, type))"""
    hdr, cp = trace.parse_prv(os.path.join(d, "cpu.prv"))
    duration = int(hdr.split(":")[2].split("_")[0])
    phys = c20.read_rows(os.path.join(d, "cpu.row"))
    prow = [k + 1 for k, p in enumerate(phys) if p]
    tvals = []
    raw = open(os.path.join(d, "cpu.pcf"), "rb").read().split(b"\n")
    # values of the task-type PCF type in file order, label bytes as they are in the file
    i = 0
    while i < len(raw):
        if raw[i] == b"EVENT_TYPE" and i + 1 < len(raw) and raw[i + 1].split()[1:2] == [str(m.t_type).encode()]:
            j = i + 3
            while j < len(raw) and raw[j]:
                v = raw[j].split(b" ", 1)[0]
                tvals.append((int(v), raw[j][max(len(v), 4) + 1:]))      # "%-4d %s"
                j += 1
            break
        i += 1
    byt = {}
    for (t, row, ty, v) in cp:
        if ty in (m.t_type, m.t_ss, m.t_idle):
            byt.setdefault(t, []).append((row, ty, v))
    st = {(row, ty): 0 for row in prow for ty in (m.t_type, m.t_ss, m.t_idle)}
    prev = [0] * len(prow)
    steps = []
    multi = 0
    for t in sorted(byt):
        seen = set()
        for (row, ty, v) in byt[t]:
            if (row, ty) in seen:
                multi += 1
            seen.add((row, ty))
            if (row, ty) in st:
                st[(row, ty)] = v
        per = [c20.spec_bd_value(m.K, st[(row, m.t_type)], st[(row, m.t_ss)], st[(row, m.t_idle)]) if st[(row, m.t_idle)] != 0 else 0
               for row in prow]
        ch = [(i, per[i]) for i in range(len(prow)) if per[i] != prev[i]]
        prev = per
        if ch:
            steps.append((t, ch))
    if not steps or steps[-1][0] != duration:
        steps.append((duration, []))
    ttxt = ",".join("%d:%s" % (v, l.hex() or "-") for (v, l) in tvals) or "-"
    stxt = "|".join("%d;%s" % (t, ",".join("%d=%d" % iv for iv in ch) or "-") for (t, ch) in steps)
    return (m.name, len(prow), ttxt, stxt, multi)


def run_bd_oracle(oracle, inputs):
    """-> per input ('err', text) | ('ok', {"prv": bytes, "pcf": bytes, "row": bytes})"""
    lines = ["BD %s %d %s %s" % (i[0], i[1], i[2], i[3]) for i in inputs]
    rc, out, err = common.run([oracle], input="\n".join(lines) + "\n", timeout=900)
    res = []
    for ln in out.split("\n"):
        f = ln.split()
        if f[:2] == ["bd", "err"]:
            res.append(("err", "model refuses with %s" % f[2]))
        elif f[:2] == ["bd", "ok"]:
            res.append(("ok", {k: (b"" if h == "-" else bytes.fromhex(h)) for k, h in zip(("prv", "pcf", "row"), f[2:5])}))
    if len(res) != len(inputs):
        raise RuntimeError("pv oracle answered %d of %d breakdown inputs: %s" % (len(res), len(inputs), err[-400:]))
    return res


def enum_value(path, want):
    """value of an enumerator of a C header (decimal initialisers and implicit increments only)"""
    text = re.sub(r"/\*.*?\*/", "", open(path).read(), flags=re.S)
    for body in re.findall(r"enum\s+\w*\s*\{([^}]*)\}", text):
        cur = -1
        for ent in body.split(","):
            mm = re.match(r"\s*(\w+)\s*(?:=\s*(-?\d+))?\s*$", ent)
            if not mm:
                continue
            cur = int(mm.group(2)) if mm.group(2) is not None else cur + 1
            if mm.group(1) == want:
                return cur
    raise KeyError(want)


def c20_constants(tables, name):
    """(ST_TASK_BODY, ST_UNKNOWN_SS, ST_PROGRESSING) of the model"""
    c = {(x["model"], x["name"]): x["value"] for x in tables["consts"]}
    unk = enum_value(os.path.join(common.REPO, "src", "emu", name, name + "_priv.h"), "ST_UNKNOWN_SS")
    return (c[(name, "ST_TASK_BODY")], unk, c[(name, "ST_PROGRESSING")])
