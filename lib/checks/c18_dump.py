"""C18, decode clause: "ovnidump decodes every listed event with a payload of the declared shape
into its description with the argument values substituted" (all argument values).

`run_dump(chk, build, tables)` is called by lib/checks/c18.py.  Harness-free, end to end:

  * the dumped declaration list (build/tables.json "evdecl", same data as Gen/Tables_gen.evdescs)
    is compared with what the build's own `ovnievents` lists;
  * for every listed event, traces holding that event with payloads of the declared shape
    (boundary / random integers, strings: empty, one byte, non-ASCII, '%' '{' and newline bytes,
    lengths on both sides of the 1023-byte output limit) go through the REAL ovnidump; every output
    line is compared with
      (i)  the extracted Coq model of ev_spec.c (oracle/evspec_drv.ml, command R)   -> correspondence
      (ii) a small formatter written here (description with the values substituted) -> spec decider,
           which itself is cross-examined against the Coq specification (command S: subst . parse,
           payload_of, fits);
  * thorough only: payloads NOT of the declared shape (missing, short, over-long, no end of string,
    jumbo flag on the wrong kind of event, payload on an event declared without arguments) are
    compared model-vs-real only (the property says nothing about them).

A real-vs-decider difference on a declared-shape payload is a violation of the property and is
reported here with the concrete event as replay; the deterministic long-label cases carry the key
"dump-unknown-when-text-exceeds-1023".  Model-vs-real differences are returned to the caller
(broken correspondence)."""
import html
import os
import re
import shutil
import struct
import subprocess

from vf import common, trace

KEY_LONG = "dump-unknown-when-text-exceeds-1023"
LOOM, PID, TID = "h.1", 1, 1
RELPATH = "loom.%s/proc.%d/thread.%d" % (LOOM, PID, TID)
OUT_ROOM = 1023            # ev_spec_print: outlen - 1

INT_TYPES = {"u8": (1, False), "u16": (2, False), "u32": (4, False), "u64": (8, False),
             "i8": (1, True), "i16": (2, True), "i32": (4, True), "i64": (8, True)}


class Outside(Exception):
    """the declaration is outside what the decider below understands: the check fails closed"""


# ------------------------------------------------------------------ independent spec decider

def py_sig(sig):
    """'MCV', jumbo, [(type, name)] of a regular signature"""
    m = re.fullmatch(r"([!-~]{3})(\+?)(?:\(([^()]*)\))?", sig, re.S)
    if not m:
        raise Outside("signature %r is not MCV[+][(type name, ...)]" % sig)
    mcv, jumbo, inner = m.group(1), m.group(2) == "+", m.group(3)
    args = []
    if inner is not None:
        for part in inner.split(","):
            w = part.split(" ")
            w = [x for x in w if x != ""]
            if len(w) != 2 or (w[0] not in INT_TYPES and w[0] != "str"):
                raise Outside("argument %r of %r" % (part, sig))
            args.append((w[0], w[1]))
        if not args:
            raise Outside("empty argument list in %r" % sig)
    if jumbo and not args:
        raise Outside("jumbo without arguments: %r" % sig)
    if any(t == "str" for (t, _) in args[:-1]):
        raise Outside("str argument that is not the last one: %r" % sig)
    if len({n for (_, n) in args}) != len(args):
        raise Outside("repeated argument name: %r" % sig)
    return mcv, jumbo, args


def py_data(args, vals):
    out = b""
    for (t, _), v in zip(args, vals):
        if t == "str":
            out += bytes(v) + b"\0"
        else:
            size, signed = INT_TYPES[t]
            out += int(v).to_bytes(size, "little", signed=signed)
    return out


PIECE = re.compile(rb"%%|%([^{%]*)\{([0-9A-Za-z]+)\}|%", re.S)


def py_text(desc, args, vals):
    """description with the values substituted -> (text, length of the text through its last argument)"""
    env = {}
    for (t, n), v in zip(args, vals):
        env[n.encode("latin1")] = (t, v)
    out = b""
    pos = 0
    last_arg_end = 0
    d = desc.encode("latin1")
    for m in PIECE.finditer(d):
        out += d[pos:m.start()]
        pos = m.end()
        tok = m.group(0)
        if tok == b"%%":
            out += b"%"
        elif tok == b"%":
            raise Outside("stray %% in description %r" % desc)
        else:
            fmt, name = m.group(1), m.group(2)
            if name not in env:
                raise Outside("description %r names an undeclared argument %r" % (desc, name))
            t, v = env[name]
            if fmt == b"":
                out += bytes(v) if t == "str" else str(int(v)).encode()
            elif fmt == b"#llx" and t in ("u64", "i64"):
                u = int(v) & 0xFFFFFFFFFFFFFFFF          # C's '#' flag leaves a zero without prefix
                out += b"0" if u == 0 else b"0x" + ("%x" % u).encode()
            else:
                raise Outside("format %%%s on a %s argument in %r" % (fmt.decode("latin1"), t, desc))
            last_arg_end = len(out)
    out += d[pos:]
    return out, last_arg_end


def too_long(text, last_arg_end):
    return len(text) > OUT_ROOM or last_arg_end > OUT_ROOM - 1


# ------------------------------------------------------------------ value generation

def int_boundaries(t):
    size, signed = INT_TYPES[t]
    bits = 8 * size
    if signed:
        lo, hi = -(1 << (bits - 1)), (1 << (bits - 1)) - 1
    else:
        lo, hi = 0, (1 << bits) - 1
    cand = [0, 1, -1, lo, hi, lo + 1, hi - 1, 2, 9, 10, 99, 100, 127, 128, 255, 256, 32767, 32768, 65535, 65536,
            (1 << 31) - 1, 1 << 31, (1 << 32) - 1, 1 << 32, (1 << 63) - 1, 1 << 63, -(1 << 31), -(1 << 31) - 1,
            10 ** 9, 10 ** 18, 10 ** 19, 0xdeadbeef, -128, -129, -32768]
    res = []
    for c in cand:
        if lo <= c <= hi and c not in res:
            res.append(c)
    return res, lo, hi


def rand_int(rng, t):
    b, lo, hi = int_boundaries(t)
    k = rng.below(4)
    if k == 0:
        return rng.choice(b)
    if k == 1:
        return lo + rng.below(hi - lo + 1)
    if k == 2:                                   # random magnitude
        bits = rng.range(1, 8 * INT_TYPES[t][0])
        v = rng.below(1 << bits)
        if INT_TYPES[t][1] and rng.chance(1, 2):
            v = -v
        return min(max(v, lo), hi)
    return rng.choice([lo, hi, 0, hi - rng.below(3), lo + rng.below(3)])


def rand_str(rng):
    k = rng.below(8)
    if k == 0:
        return b""
    if k == 1:
        return bytes([rng.range(1, 255)])
    if k == 2:
        return bytes(rng.range(128, 255) for _ in range(rng.range(1, 40)))
    if k == 3:
        return bytes(rng.choice(b"%{}\\\"\n\t %s%d%n") for _ in range(rng.range(1, 30)))
    if k == 4:
        return bytes(rng.range(1, 255) for _ in range(rng.range(1, 300)))
    if k == 5:
        return bytes(rng.range(32, 126) for _ in range(rng.range(900, 1100)))
    return bytes(rng.range(32, 126) for _ in range(rng.range(1, 60)))


def declared_cases(rng, decl, n):
    """-> list of (class, vals) for a declaration with arguments"""
    args = decl["args"]
    cases = []
    bnds = {i: int_boundaries(t)[0] for i, (t, _) in enumerate(args) if t != "str"}
    fixed_str = [b"", b"A", b"\xff\xc3\xa9\x80", b"100%{x} \"q\"\nnext", b"label with spaces"]

    def mk(pick_int, pick_str):
        return [pick_str(i) if t == "str" else pick_int(i, t) for i, (t, _) in enumerate(args)]
    # all zeros / all max / all min
    cases.append(("zero", mk(lambda i, t: 0, lambda i: b"")))
    cases.append(("max", mk(lambda i, t: int_boundaries(t)[2], lambda i: b"A")))
    cases.append(("min", mk(lambda i, t: int_boundaries(t)[1], lambda i: fixed_str[2])))
    nb = max([len(b) for b in bnds.values()] + [len(fixed_str)])
    nbound = min(nb, max(1, (n - 3) // 2))
    for kk in range(nbound):
        cases.append(("boundary", mk(lambda i, t: bnds[i][(kk + 3 * i) % len(bnds[i])],
                                     lambda i: fixed_str[kk % len(fixed_str)])))
    while len(cases) < n:
        cases.append(("random", mk(lambda i, t: rand_int(rng, t), lambda i: rand_str(rng))))
    return cases[:max(n, 3)]


def long_label_cases(decl):
    """deterministic: for a declaration ending in a str argument, labels that make the text through
    the label exactly 1021, 1022 (last that fits), 1023 and 1100 bytes long"""
    args = decl["args"]
    if not args or args[-1][0] != "str":
        return []
    base = [7 if t != "str" else b"" for (t, _) in args]
    _, end0 = py_text(decl["desc"], args, base)
    res = []
    for target in (OUT_ROOM - 2, OUT_ROOM - 1, OUT_ROOM, 1100):
        n = target - end0
        if n < 0:
            continue
        vals = list(base)
        vals[-1] = bytes(65 + (i % 26) for i in range(n))
        res.append(("long-%d" % target, vals))
    return res


# ------------------------------------------------------------------ running the real tool

def seen_payload(payload, jumbo):
    """the bytes emu_ev hands to ev_spec_print (None = no payload)"""
    if jumbo is not None:
        return struct.pack("<I", len(jumbo)) + jumbo
    return payload if payload else None


def run_chunk(build, cases):
    """one trace, one stream, the cases' events with clocks 1..n -> list of texts (bytes) or error string"""
    d = trace.workdir("evspec-")
    try:
        evs = [trace.ev_bytes(c["mcv"], i + 1, c["payload"], c["jumbo"]) for i, c in enumerate(cases)]
        trace.Trace().add_thread(LOOM, PID, TID, trace.thread_meta(TID, PID, LOOM), events=evs).write(d)
        env = dict(os.environ)
        env["OVNI_CONFIG_DIR"] = trace.empty_cfg()
        try:
            p = subprocess.run([build.tool("ovnidump"), d], stdout=subprocess.PIPE, stderr=subprocess.PIPE,
                               timeout=120, env=env)
        except subprocess.TimeoutExpired:
            return "timeout"
        if p.returncode != 0:
            return "exit status %s: %s" % (p.returncode, p.stderr.decode(errors="replace")[-300:])
        out = p.stdout
        pre = [("%10d  %s  %s  " % (i + 1, c["mcv"], RELPATH)).encode("latin1") for i, c in enumerate(cases)]
        texts = []
        pos = 0
        for i in range(len(cases)):
            if out[pos:pos + len(pre[i])] != pre[i]:
                return "line %d does not start with %r: %r" % (i + 1, pre[i], out[pos:pos + 80])
            pos += len(pre[i])
            if i + 1 < len(cases):
                nxt = out.find(b"\n" + pre[i + 1], pos)
                if nxt < 0:
                    return "line %d (%r) missing" % (i + 2, pre[i + 1])
                texts.append(out[pos:nxt])
                pos = nxt + 1
            else:
                if not out.endswith(b"\n"):
                    return "output does not end with a newline"
                texts.append(out[pos:-1])
        return texts
    finally:
        shutil.rmtree(d, ignore_errors=True)


def ovnievents_list(build):
    """[(model name, signature, description)] as the tool prints them"""
    p = subprocess.run([build.tool("ovnievents")], stdout=subprocess.PIPE, stderr=subprocess.PIPE, timeout=60)
    if p.returncode != 0:
        return None, "ovnievents exit status %s" % p.returncode
    txt = p.stdout.decode("latin1")
    res = []
    model = None
    sig = None
    for ln in txt.split("\n"):
        m = re.match(r"## Model (.*)$", ln)
        if m:
            model = m.group(1)
            continue
        m = re.match(r'<dt><a id="[^"]*" href="[^"]*"><pre>(.*)</pre></a></dt>$', ln)
        if m:
            sig = html.unescape(m.group(1))
            continue
        m = re.match(r"<dd>(.*)</dd>$", ln)
        if m and sig is not None:
            res.append((model, sig, html.unescape(m.group(1))))
            sig = None
    return res, None


# ------------------------------------------------------------------ the check

def hexs(b):
    return b.hex() if b else "-"


def run_dump(chk, build, tables):
    """-> {"disagreements": [...], "counts": {...}, "violations": n}"""
    if isinstance(tables, str):
        import json
        tables = json.load(open(tables))
    rng = chk.rng.fork("dump")
    thorough = chk.tier == "thorough"
    per_event = chk.budget(6, 300)
    disagreements = []
    counts = {"listed": 0, "with_args": 0, "cases": 0, "declared_shape": 0, "malformed": 0, "traces": 0,
              "unknown_lines": 0, "decider_vs_coq_spec": 0, "ovnievents_entries": 0, "long_label_cases": 0}
    nviol = 0

    dirname = {m["dir"]: m["name"] for m in tables["models"]}
    decls = []
    for e in tables["evdecl"]:
        d = {"model": e["model"], "sig": e["sig"], "desc": e["desc"]}
        try:
            d["mcv"], d["is_jumbo"], d["args"] = py_sig(e["sig"])
            py_text(e["desc"], d["args"], [b"" if t == "str" else 0 for (t, _) in d["args"]])
        except Outside as o:
            disagreements.append({"kind": "declaration-outside-decider", "signature": e["sig"], "description": e["desc"],
                                  "why": str(o)})
            continue
        decls.append(d)
    counts["listed"] = len(tables["evdecl"])
    counts["with_args"] = sum(1 for d in decls if d["args"])

    # ---- (a) the dumped list is what the tool lists
    lst, err = ovnievents_list(build)
    if lst is None:
        disagreements.append({"kind": "ovnievents-failed", "why": err})
    else:
        counts["ovnievents_entries"] = len(lst)
        want = sorted((dirname.get(e["model"], e["model"]), e["sig"], e["desc"]) for e in tables["evdecl"])
        got = sorted(lst)
        if want != got:
            only_t = [x for x in want if x not in got][:5]
            only_o = [x for x in got if x not in want][:5]
            disagreements.append({"kind": "evlist-differs-from-ovnievents", "only_in_dump": only_t, "only_in_ovnievents": only_o,
                                  "sizes": [len(want), len(got)]})
        # and in the tool's order within each model
        for mname in sorted({x[0] for x in lst}):
            a = [(s, d) for (m, s, d) in lst if m == mname]
            b = [(e["sig"], e["desc"]) for e in tables["evdecl"] if dirname.get(e["model"], e["model"]) == mname]
            if a != b and want == got:
                disagreements.append({"kind": "evlist-order-differs", "model": mname})

    # ---- (b) cases
    cases = []
    for d in decls:
        r = rng.fork(d["model"] + d["sig"])
        if not d["args"]:
            cases.append({"decl": d, "cls": "noargs", "declared": True, "vals": [], "payload": b"", "jumbo": None})
            # an event declared without arguments that nevertheless carries a payload: outside the declared shape
            n_extra = 1 if not thorough else 3
            for _ in range(n_extra):
                if r.chance(1, 4):
                    cases.append({"decl": d, "cls": "noargs+jumbo", "declared": False, "vals": None, "payload": b"",
                                  "jumbo": bytes(r.below(256) for _ in range(r.range(0, 40)))})
                else:
                    cases.append({"decl": d, "cls": "noargs+payload", "declared": False, "vals": None,
                                  "payload": bytes(r.below(256) for _ in range(r.range(2, 16))), "jumbo": None})
            continue
        for (cls, vals) in declared_cases(r, d, per_event) + long_label_cases(d):
            data = py_data(d["args"], vals)
            c = {"decl": d, "cls": cls, "declared": True, "vals": vals}
            if d["is_jumbo"]:
                c["payload"], c["jumbo"] = b"", data
            else:
                if not (2 <= len(data) <= 16):
                    disagreements.append({"kind": "declared-payload-not-encodable", "signature": d["sig"], "size": len(data)})
                    continue
                c["payload"], c["jumbo"] = data, None
            if cls.startswith("long-"):
                counts["long_label_cases"] += 1
            cases.append(c)
        if thorough:
            base = py_data(d["args"], declared_cases(r, d, 3)[1][1])
            mal = []
            if d["is_jumbo"]:
                for cut in sorted({0, 1, 3, 4, 5, len(base) - 1}):
                    if 0 <= cut < len(base):
                        mal.append(("short-jumbo-%d" % cut, b"", base[:cut]))
                mal.append(("no-nul", b"", base[:-1] if base.endswith(b"\0") else base))
                mal.append(("no-nul-long", b"", base[:4] + bytes(r.range(1, 255) for _ in range(r.range(1, 1200)))))
                mal.append(("trailing", b"", base + bytes(r.below(256) for _ in range(r.range(1, 20)))))
                mal.append(("nonjumbo-for-jumbo", base[:16] if len(base) >= 2 else b"\0\0", None))
                mal.append(("nonjumbo-nul", b"\x01\0\0\0\x02\0\0\0A\0", None))
                mal.append(("missing", b"", None))
            else:
                for cut in range(2, len(base)):
                    mal.append(("short-%d" % cut, base[:cut], None))
                mal.append(("missing", b"", None))
                if len(base) < 16:
                    mal.append(("trailing", (base + bytes(r.below(256) for _ in range(16)))[:r.range(len(base) + 1, 16)], None))
                mal.append(("jumbo-for-nonjumbo", b"", base))
                mal.append(("jumbo-for-nonjumbo-short", b"", base[:max(0, len(base) - 5)]))
                mal.append(("jumbo-for-nonjumbo-long", b"", base + bytes(r.below(256) for _ in range(12))))
            for (cls, pl, jb) in mal:
                cases.append({"decl": d, "cls": "malformed:" + cls, "declared": False, "vals": None, "payload": pl, "jumbo": jb})

    for c in cases:
        c["mcv"] = c["decl"]["mcv"]
        c["seen"] = seen_payload(c["payload"], c["jumbo"])
    counts["cases"] = len(cases)
    counts["declared_shape"] = sum(1 for c in cases if c["declared"])
    counts["malformed"] = counts["cases"] - counts["declared_shape"]

    # ---- the model (i) and the Coq specification for the decider's cross-examination
    oracle = common.build_oracle("evspec", "Extract_evspec", "evspec_drv.ml", "evspec_x")
    lines = []
    for c in cases:
        d = c["decl"]
        lines.append("R %s %s %s" % (hexs(d["sig"].encode("latin1")), hexs(d["desc"].encode("latin1")),
                                     c["seen"].hex() if c["seen"] is not None else "-"))
    model = common.batch(oracle, lines, timeout=1200)
    slines = []
    sidx = []
    for i, c in enumerate(cases):
        if c["declared"]:
            d = c["decl"]
            vs = ",".join(("s" + bytes(v).hex()) if t == "str" else ("i%d" % v) for (t, _), v in zip(d["args"], c["vals"]))
            slines.append("S %s %s %s" % (hexs(d["sig"].encode("latin1")), hexs(d["desc"].encode("latin1")), vs or "-"))
            sidx.append(i)
    spec = common.batch(oracle, slines, timeout=1200) if slines else []
    for i, ans in zip(sidx, spec):
        c = cases[i]
        d = c["decl"]
        text, end = py_text(d["desc"], d["args"], c["vals"])
        c["expect"], c["expect_end"] = text, end
        f = ans.split(" ")
        want = ["spec", "0" if too_long(text, end) else "1", hexs(text), hexs(c["seen"]) if c["seen"] is not None else "-"]
        counts["decider_vs_coq_spec"] += 1
        if f != want:
            disagreements.append({"kind": "decider-vs-coq-specification", "signature": d["sig"], "values": repr(c["vals"])[:300],
                                  "decider": " ".join(want)[:400], "coq": ans[:400]})

    # ---- the real tool
    CH = 250
    chunks = [cases[i:i + CH] for i in range(0, len(cases), CH)]
    results = trace.pmap(lambda ch: run_chunk(build, ch), chunks)
    counts["traces"] = len(chunks)
    for ch, res in zip(chunks, results):
        if isinstance(res, str):
            # localise: one event per trace
            single = trace.pmap(lambda c: run_chunk(build, [c]), ch)
            counts["traces"] += len(ch)
            for c, r1 in zip(ch, single):
                c["real"] = r1[0] if not isinstance(r1, str) else None
                if isinstance(r1, str):
                    c["real_error"] = r1
            if all(not isinstance(r1, str) for r1 in single):
                disagreements.append({"kind": "ovnidump-fails-on-batch-only", "why": res[:300]})
        else:
            for c, t in zip(ch, res):
                c["real"] = t

    for c, m in zip(cases, model):
        d = c["decl"]
        chk.case((d["sig"], c["seen"], c["jumbo"] is not None))
        chk.count("dump:" + c["cls"].split("-")[0].split(":")[0] + (":" + d["args"][-1][0] if d["args"] else ""))
        replay = {"event": d["mcv"], "signature": d["sig"], "description": d["desc"],
                  "jumbo": c["jumbo"] is not None,
                  "payload_hex": (c["jumbo"] if c["jumbo"] is not None else c["payload"]).hex(),
                  "values": [v.hex() if isinstance(v, (bytes, bytearray)) else v for v in c["vals"]] if c["vals"] is not None else None,
                  "how": "one stream (lib/vf/trace.py: thread_meta + ev_bytes(mcv, 1, payload, jumbo)), run `ovnidump <dir>`"}
        if c.get("real") is None:
            text = "ovnidump does not get through a loadable stream holding %s: %s" % (d["mcv"], c.get("real_error", "?"))
            if c["declared"]:
                nviol += 1
                chk.violation("dump-fails:" + d["mcv"], text, replay)
            disagreements.append({"kind": "ovnidump-failed", "event": d["mcv"], "class": c["cls"], "why": c.get("real_error", "?")[:300],
                                  "replay": replay})
            continue
        real = c["real"]
        if real == b"UNKNOWN":
            counts["unknown_lines"] += 1
        # (i) correspondence model vs real
        if m.startswith("ok "):
            mt = bytes.fromhex(m[3:]) if m[3:] != "-" else b""
            agree = (real == mt)
        elif m == "err":
            agree = (real == b"UNKNOWN")
        else:
            agree = False           # unsupported / nocompile / ? : fail closed
        if not agree:
            disagreements.append({"kind": "model-vs-ovnidump", "event": d["mcv"], "class": c["cls"], "model": m[:300],
                                  "ovnidump": real[:200].hex(), "replay": replay})
        # (ii) the property, on declared shapes
        if c["declared"]:
            want = c["expect"]
            if real != want:
                long_ = too_long(want, c["expect_end"])
                if real == b"UNKNOWN" and long_:
                    key = KEY_LONG
                    text = ("ovnidump prints UNKNOWN for a listed event whose payload has the declared shape when the text "
                            "through the last argument exceeds %d bytes (or the whole text %d): %s with a %d-byte text "
                            "(ev_spec_print's 1024-byte buffer; print_arg: 'no space for string argument')"
                            % (OUT_ROOM - 1, OUT_ROOM, d["mcv"], len(want)))
                else:
                    key = "dump-text:%s:%s" % (d["mcv"], c["cls"].split("-")[0])
                    text = "ovnidump decodes %s as %r, the description with the values substituted is %r" % (
                        d["mcv"], real[:120], want[:120])
                r2 = dict(replay)
                r2["expected_text_hex"] = want[:2048].hex()
                r2["ovnidump_text_hex"] = real[:2048].hex()
                nviol += 1
                chk.violation(key, text, r2)
        if len(chk.samples) < 6 and c["declared"] and d["args"] and c["cls"] in ("boundary", "random", "min"):
            chk.sample({"event": d["sig"], "payload_hex": replay["payload_hex"][:80], "ovnidump": real[:100].decode("latin1"),
                        "model": "same" if agree else m[:80]})

    return {"disagreements": disagreements, "counts": counts, "violations": nviol}
