"""C02, metadata family: the runtime's stream.json handling (model coq/Rt/RtMetaDefs.v) against the real libovni.

A *program* is the call sequence of one process (thread slot : call); a *trace* is one to three programs that
share a trace directory.  Every program is run on the real library (harness/rtmeta_drv.c: stream.json is read
back after every call) and on the extracted model (oracle/rtmeta_drv.ml); the trees are compared call by
call.  Independently of the model, the REAL final files of programs that follow the documented protocol are
judged against the property text (complete metadata) and the whole trace is given to the real ovniemu."""
import hashlib
import json
import os
import shutil

from vf import common, trace

# ------------------------------------------------------------------ trees
# ("n",) ("t",) ("f",) ("i", int) ("s", str) ("a", [tree]) ("o", [(key str, tree)])


def hx(s):
    b = s.encode("latin1") if isinstance(s, str) else s
    return b.hex() if b else "z"


def unhx(h):
    return "" if h == "z" else bytes.fromhex(h).decode("latin1")


def enc(t):
    k = t[0]
    if k in "ntf":
        return k
    if k == "i":
        return "i%d." % t[1]
    if k == "s":
        return "s%s." % hx(t[1])
    if k == "a":
        return "a%d." % len(t[1]) + "".join(enc(x) for x in t[1])
    return "o%d." % len(t[1]) + "".join(hx(n) + "." + enc(v) for n, v in t[1])


def dec(s):
    pos = [0]

    def upto():
        i = s.index(".", pos[0])
        r = s[pos[0]:i]
        pos[0] = i + 1
        return r

    def go():
        c = s[pos[0]]
        pos[0] += 1
        if c in "ntf":
            return (c,)
        if c == "i":
            return ("i", int(upto()))
        if c == "s":
            return ("s", unhx(upto()))
        if c == "a":
            n = int(upto())
            return ("a", [go() for _ in range(n)])
        if c == "o":
            n = int(upto())
            out = []
            for _ in range(n):
                key = unhx(upto())
                out.append((key, go()))
            return ("o", out)
        raise ValueError("tree")
    t = go()
    if pos[0] != len(s):
        raise ValueError("tree: trailing")
    return t


def text(t):
    """JSON text of a tree (own serialiser: repeated names stay repeated)"""
    k = t[0]
    if k == "n":
        return "null"
    if k == "t":
        return "true"
    if k == "f":
        return "false"
    if k == "i":
        return "%d" % t[1]
    if k == "s":
        return json.dumps(t[1])
    if k == "a":
        return "[" + ",".join(text(x) for x in t[1]) + "]"
    return "{" + ",".join(json.dumps(n) + ":" + text(v) for n, v in t[1]) + "}"


class NotInt(Exception):
    pass


def from_text(s):
    """real JSON text -> tree (object order kept; integral numbers as ints)"""
    def conv(x):
        if x is None:
            return ("n",)
        if x is True:
            return ("t",)
        if x is False:
            return ("f",)
        if isinstance(x, int):
            return ("i", x)
        if isinstance(x, float):
            if x == int(x):
                return ("i", int(x))
            raise NotInt(repr(x))
        if isinstance(x, str):
            return ("s", x)
        if isinstance(x, list):
            return ("a", [conv(y) for y in x])
        if isinstance(x, Pairs):
            return ("o", [(n, conv(v)) for n, v in x.items])
        raise ValueError(repr(x))

    class Pairs:
        def __init__(self, items):
            self.items = items
    return conv(json.loads(s, object_pairs_hook=Pairs))


def canon(t):
    """sorted names (the comparison the brief asks for)"""
    if t[0] == "a":
        return ("a", [canon(x) for x in t[1]])
    if t[0] == "o":
        return ("o", sorted((n, canon(v)) for n, v in t[1]))
    return t


def get(t, *path):
    for p in path:
        if t is None or t[0] != "o":
            return None
        nxt = None
        for n, v in t[1]:
            if n == p:
                nxt = v
                break
        t = nxt
    return t


# ------------------------------------------------------------------ programs
class Prog:
    def __init__(self, ops, cls, expect_conf=None, note=None):
        self.ops = ops              # [(slot, optext)]
        self.cls = cls
        self.expect_conf = expect_conf
        self.note = note

    def script(self):
        return ";".join("%d:%s" % (s, o) for s, o in self.ops) if self.ops else "-"

    def fingerprint(self):
        return hashlib.md5(self.script().encode()).hexdigest()[:16]

    def short(self, limit=1500):
        s = self.script()
        return s if len(s) <= limit else s[:limit] + "...[%d chars]" % len(s)

    def readable(self, limit=40):
        out = []
        for s, o in self.ops[:limit]:
            out.append("%d:%s" % (s, describe(o)))
        return out


def describe(o):
    c = o[0]
    a = o[1:].split(",")
    try:
        if c == "I":
            return "proc_init(%s,%r,%s)" % (a[0], unhx(a[1])[:40], a[2])
        if c == "Q":
            return "require(%r,%r)" % (unhx(a[0])[:40], unhx(a[1])[:40])
        if c == "s":
            return "attr_set_str(%r,%r)" % (unhx(a[0])[:40], unhx(a[1])[:40])
        if c == "d":
            return "attr_set_double(%r,%s)" % (unhx(a[0])[:40], a[1])
        if c == "b":
            return "attr_set_boolean(%r,%s)" % (unhx(a[0])[:40], a[1])
        if c == "j":
            return "attr_set_json(%r,%s)" % (unhx(a[0])[:40], unhx(a[1])[:80])
        if c == "h":
            return "attr_has(%r)" % unhx(o[1:])[:40]
        if c == "g":
            return "attr_get_%s(%r)" % ({"s": "str", "d": "double", "b": "boolean", "j": "json"}[o[1]], unhx(o[2:])[:40])
        if c == "m":
            return "mark_type(%s,%s,%s)" % (a[0], a[1], "NULL" if a[2] == "N" else repr(unhx(a[2])[:40]))
        if c == "l":
            return "mark_label(%s,%s,%s)" % (a[0], a[1], "NULL" if a[2] == "N" else repr(unhx(a[2])[:40]))
    except Exception:  # noqa
        pass
    return {"E": "proc_fini()", "f": "attr_flush()", "F": "flush()", "X": "thread_free()", "Xe": "OHx;OHe;flush();thread_free()"}.get(
        o, {"T": "thread_init(%s)", "C": "add_cpu(%s)", "R": "proc_set_rank(%s)"}.get(c, "%s")) % ((o[1:],) if c in "TCR" else ())


def info(p):
    """what the program says about itself (read off the call list, no model involved)"""
    d = {"app": None, "loom": None, "pid": None, "tid": {}, "cpus": {}, "rank": {}, "require": {}, "freed": set(), "free_pos": {}}
    for i, (s, o) in enumerate(p.ops):
        c = o[0]
        a = o[1:].split(",")
        if c == "I" and d["loom"] is None:
            d["app"], d["loom"], d["pid"] = int(a[0]), unhx(a[1]), int(a[2])
        elif c == "T" and s not in d["tid"]:
            d["tid"][s] = int(a[0])
        elif c == "C":
            d["cpus"].setdefault(s, []).append((int(a[0]), int(a[1])))
        elif c == "R":
            d["rank"][s] = (int(a[0]), int(a[1]))
        elif c == "Q":
            d["require"].setdefault(s, {})[unhx(a[0])] = unhx(a[1])
        elif c == "X":
            d["freed"].add(s)
            d["free_pos"][s] = i
    return d


# ------------------------------------------------------------------ generators
def emu_models():
    """(name, version) of the models the emulator of the tree under test knows (src/emu/*/setup.c); a program that follows
    the protocol requires versions the emulator supports (version gating itself is C14)"""
    import re
    out = []
    base = os.path.join(common.REPO, "src", "emu")
    for d in sorted(os.listdir(base)):
        f = os.path.join(base, d, "setup.c")
        if d != "ovni" and os.path.exists(f):
            m = re.search(r'\.version\s*=\s*"(\d+)\.(\d+)\.(\d+)"', open(f).read())
            if m:
                out.append((d, tuple(int(x) for x in m.groups())))
    return out


MODELS = emu_models()
GOOD_VERSIONS = ["1.0.0", "2.5.1", "1.1.0", "0.0.0", "10.20.30", "1.2.3-rc1", " 1.2.3", "1.+2.3"]


def compatible_version(r, have):
    """same major, minor not newer, any patch (model.c: version_is_compatible)"""
    return "%d.%d.%d" % (have[0], r.range(0, have[1]), r.choice([0, have[2], 7]))
BAD_VERSIONS = ["1.2", "a.b.c", "1..2", "", "1.2.x", "-1.2.3", "1.2.3" + "0" * 70, "99999999999.1.1", "1.2.", "1"]
BAD_MODELS = ["a.b", "no sv", "x", "", "m" * 115, "m" * 200, "."]
EDGE_MODELS = ["m" * 114, "xy", "ovni", "a\"b", "tab\tx"]

SAFE_SCHEMA = [("nosv.can_breakdown", "b"), ("nosv.lib_version", "s"), ("app.name", "s"), ("app.size", "d"), ("tampi.v", "s"),
               ("x", "j"), ("a.b.c", "d"), ("a.b.d", "s"), ("a.e", "b"), ("q..r", "s"), ("k\"q\\u", "s"), ("sp ace.\x01ctl", "d"),
               ("L" * 300, "s"), ("deep." * 40 + "z", "b"), (".lead", "s"), ("trail.", "d")]
RESERVED_KEYS = ["ovni", "ovni.tid", "ovni.pid", "ovni.finished", "ovni.require", "ovni.require.ovni", "ovni.lib", "ovni.lib.version",
                 "ovni.loom_cpus", "ovni.part", "ovni.app_id", "ovni.loom", "ovni.rank", "version", "version.x", "ovni.mark.1.title",
                 "ovni.x.y", "ovni.", "ovni.finished.z"]
ODD_KEYS = ["", ".", "..", "a.", ".a", "a..b", "K" * 127, "K" * 128, "K" * 5000, "d." * 200 + "z", " ", "\x7f", "a\"", "b\\", "\x01", "/", "//c", "/*c*/"]


def rand_str(r):
    k = r.below(8)
    if k == 0:
        return ""
    if k == 1:
        return "".join(chr(r.range(1, 127)) for _ in range(r.range(1, 12)))
    if k == 2:
        return r.choice(["\"", "\\", "\n\t\r", "a\"b\\c", "/", "\x01\x1f", "\x7f", "{}", "// not a comment", "/* x */"])
    if k == 3:
        return "s" * r.choice([100, 1000, 5000])
    return "".join(r.choice("abcdefghijklmnopqrstuvwxyz0123456789_-. ") for _ in range(r.range(1, 16)))


def rand_num(r):
    return r.choice([0, 1, -1, 3, 42, 2 ** 31 - 1, -2 ** 31, 2 ** 31, 2 ** 53, -2 ** 53, 10 ** 15, 123456789012, r.range(-1000, 1000), r.range(0, 2 ** 40)])


def rand_tree(r, depth=0, dup=False):
    k = r.below(9 if depth < 3 else 5)
    if k == 0:
        return ("n",)
    if k == 1:
        return (r.choice("tf"),)
    if k in (2, 3):
        return ("i", rand_num(r))
    if k == 4:
        return ("s", rand_str(r))
    if k in (5, 6):
        return ("a", [rand_tree(r, depth + 1, dup) for _ in range(r.below(4))])
    names = []
    out = []
    for _ in range(r.below(5)):
        n = r.choice(["a", "b", "c", "", "x.y", "index", "k\"", rand_str(r)[:20]])
        if n in names and not dup:
            continue
        names.append(n)
        out.append((n, rand_tree(r, depth + 1, dup)))
    return ("o", out)


def has_dup(t):
    if t[0] == "a":
        return any(has_dup(x) for x in t[1])
    if t[0] == "o":
        ns = [n for n, _ in t[1]]
        return len(set(ns)) != len(ns) or any(has_dup(v) for _, v in t[1])
    return False


def set_op(r, key, kind=None):
    kind = kind or r.choice("sdbj")
    if kind == "s":
        return "s%s,%s" % (hx(key), hx(rand_str(r)))
    if kind == "d":
        return "d%s,%d" % (hx(key), rand_num(r))
    if kind == "b":
        return "b%s,%d" % (hx(key), r.below(2))
    t = rand_tree(r)
    return "j%s,%s,%s" % (hx(key), hx(text(t)), enc(t))


def gen_thread_body(r, cpus, rank, models, schema, nattr):
    """calls of one live thread between init and free; every call is one the documentation allows"""
    mid = ["C%d,%d" % c for c in cpus]
    if rank is not None:
        mid.append("R%d,%d" % rank)
    for m, v in models:
        mid.append("Q%s,%s" % (hx(m), hx(v)))
    r.shuffle(mid)
    # CPUs keep their relative order irrelevant; attributes with set-before-get discipline
    done = []
    for _ in range(nattr):
        k = r.below(10)
        if k < 5 or not done:
            key, kind = r.choice(schema)
            mid.insert(r.below(len(mid) + 1), set_op(r, key, kind))
            done.append((key, kind))
        elif k < 7:
            key, kind = r.choice(done)
            mid.append("g%s%s" % (kind, hx(key)))
        elif k == 7:
            key, kind = r.choice(done)
            pre = key.split(".")
            mid.append("gj%s" % hx(".".join(pre[:r.range(1, len(pre))])))
        elif k == 8:
            mid.append("h%s" % hx(r.choice([r.choice(schema)[0], r.choice(ODD_KEYS), r.choice(RESERVED_KEYS)])))
        else:
            mid.append(r.choice(["f", "F"]))
    # a get must follow the last set of that key: move gets to the end in order (sets stay where they are)
    sets = [o for o in mid if not (o[0] == "g")]
    gets = [o for o in mid if o[0] == "g"]
    for g in gets:
        sets.insert(r.range(max(i for i, o in enumerate(sets) if o[0] in "sdbj") + 1, len(sets)), g)
    return sets


def interleave(r, seqs):
    seqs = [list(s) for s in seqs if s]
    out = []
    while seqs:
        i = r.below(len(seqs))
        out.append(seqs[i].pop(0))
        if not seqs[i]:
            seqs.pop(i)
    return out


def gen_valid_proc(r, loom, pid, app, tids, cpu_alloc, ranked=None, emit=True, nattr=None):
    """a process that follows the documented protocol; cpu_alloc[k] = CPUs thread k registers"""
    seqs = []
    nthreads = len(tids)
    rank_thread = r.below(nthreads) if ranked is not None else None
    for k in range(nthreads):
        models = [(m, compatible_version(r, v)) for m, v in MODELS if r.chance(1, 3)]
        if r.chance(1, 6) and models:
            m0 = models[0][0]
            models.append((m0, compatible_version(r, dict(MODELS)[m0])))     # required twice, the last one stays
        if r.chance(1, 8):
            models.append((r.choice(EDGE_MODELS[:2] + EDGE_MODELS[3:]), "1.0.0"))       # a model the emulator does not know
        body = gen_thread_body(r, cpu_alloc[k], ranked if k == rank_thread else None, models, SAFE_SCHEMA,
                               nattr if nattr is not None else r.below(9))
        seqs.append([(k, "T%d" % tids[k])] + [(k, o) for o in body] + [(k, "Xe" if emit else "X")])
    merged = interleave(r, seqs)
    # proc_init by the thread that starts first, proc_fini by the one that ends last
    first = merged[0][0]
    last = merged[-1][0]
    return Prog([(first, "I%d,%s,%d" % (app, hx(loom), pid))] + merged + [(last, "E")], "valid-%dthr" % nthreads, expect_conf=True)


def gen_valid_trace(r, emit=True):
    """1-3 processes on 1-2 looms; the CPUs of a loom are spread over its threads (some register none)"""
    nloom = r.range(1, 2)
    looms = ["node%d.%d" % (r.range(1, 99), i) for i in range(nloom)]
    if r.chance(1, 6):
        looms[0] = r.choice(["h.x", "a b.c", "n\"q.1", "x" * 200 + ".1", "host.name.with.dots"])
    nproc = r.range(nloom, 3)
    procs = []
    by_loom = {}
    pid0 = r.range(100, 30000)
    tid0 = r.range(100, 30000)
    ranked = r.chance(1, 3)
    for i in range(nproc):
        lm = looms[i % nloom]
        nthr = r.range(1, 3)
        tids = [tid0 + 10 * i + k for k in range(nthr)]
        procs.append({"loom": lm, "pid": pid0 + i, "app": r.range(1, 5), "tids": tids})
        by_loom.setdefault(lm, []).extend((i, k) for k in range(nthr))
    alloc = {(i, k): [] for i, p in enumerate(procs) for k in range(len(p["tids"]))}
    for lm, ths in by_loom.items():
        n = r.range(1, 6)
        phy = list(range(n)) if r.chance(1, 2) else [r.range(0, 64) + 100 * j for j in range(n)]
        holders = [r.choice(ths)] if r.chance(1, 2) else ths
        for idx in range(n):
            alloc[r.choice(holders)].append((idx, phy[idx]))
        if r.chance(1, 4):       # the same CPU registered by two threads of the loom (the list is merged)
            a = r.choice(ths)
            src = [c for cs in alloc.values() for c in cs if c in sum((alloc[t] for t in ths), [])]
            if src:
                c = r.choice(src)
                if c not in alloc[a]:
                    alloc[a].append(c)
    out = []
    for i, p in enumerate(procs):
        out.append(gen_valid_proc(r, p["loom"], p["pid"], p["app"], p["tids"], [alloc[(i, k)] for k in range(len(p["tids"]))],
                                  ranked=(i, nproc) if ranked else None, emit=emit))
    return out


def _live_positions(p, slot):
    """indices i such that inserting at i puts a call between slot's init and free"""
    st = None
    en = None
    for i, (s, o) in enumerate(p.ops):
        if s == slot and o[0] == "T" and st is None:
            st = i + 1
        if s == slot and o[0] == "X":
            en = i
    if st is None:
        return []
    return list(range(st, (en if en is not None else len(p.ops)) + 1))


def mutate(r, p):
    """one malformed call (or a short group) into a valid program -> (Prog, kind)"""
    ops = list(p.ops)
    slots = sorted({s for s, _ in ops})
    slot = r.choice(slots)
    live = _live_positions(p, slot) or [len(ops)]
    pos = r.choice(live)
    kind = r.choice(["reserved-key", "reserved-key", "odd-key", "through-non-object", "dup-cpu", "neg-cpu", "require-twice", "bad-require",
                     "attr-before-init", "rank-twice", "init-twice", "init-zero", "after-free", "proc-init-twice", "proc-fini-twice",
                     "after-fini", "no-proc-init", "loom-long", "get-missing", "get-wrong-type", "json-dup-keys", "json-scalar",
                     "fini-before-free", "no-free", "odd-ids", "reserved-then-flush", "wild-attrs"])
    ins = []
    conf = False
    if kind == "reserved-key":
        ins = [(slot, set_op(r, r.choice(RESERVED_KEYS)))]
        if r.chance(1, 2):
            ins.append((slot, "f"))
    elif kind == "reserved-then-flush":
        ins = [(slot, "d%s,1" % hx("ovni.finished")), (slot, "f")]
    elif kind == "odd-key":
        key = r.choice(ODD_KEYS)
        ins = [(slot, set_op(r, key)), (slot, "h%s" % hx(key)), (slot, "gj%s" % hx(key)), (slot, "f")]
        conf = None
    elif kind == "through-non-object":
        base = r.choice(["p", "nosv.lib_version", "zz.y"])
        v = r.choice([set_op(r, base, "s"), set_op(r, base, "d"), set_op(r, base, "b"), "j%s,%s,%s" % (hx(base), hx("[1]"), "a1.i1.")])
        ins = [(slot, v), (slot, r.choice([set_op(r, base + ".q"), "h%s" % hx(base + ".q"), "gj%s" % hx(base + ".q.r"), set_op(r, base + ".q.r.s")]))]
        conf = None
    elif kind == "dup-cpu":
        ins = [(slot, "C0,0"), (slot, "C0,%d" % r.below(2))]
        conf = None
    elif kind == "neg-cpu":
        ins = [(slot, r.choice(["C-1,0", "C0,-1", "C-2147483648,5"]))]
    elif kind == "require-twice":
        m = r.choice(MODELS)[0] if MODELS else "nosv"
        ins = [(slot, "Q%s,%s" % (hx(m), hx(r.choice(GOOD_VERSIONS)))), (slot, "Q%s,%s" % (hx(m), hx(r.choice(GOOD_VERSIONS))))]
        conf = None
    elif kind == "bad-require":
        if r.chance(1, 2):
            ins = [(slot, "Q%s,%s" % (hx(r.choice(BAD_MODELS)), hx("1.0.0")))]
        else:
            ins = [(slot, "Q%s,%s" % (hx("nosv"), hx(r.choice(BAD_VERSIONS))))]
    elif kind == "attr-before-init":
        first = min(i for i, (s, o) in enumerate(ops) if s == slot and o[0] == "T")
        pos = r.range(1, first) if first >= 1 else 0
        ins = [(slot, r.choice([set_op(r, "a.b"), "f", "F", "C0,0", "R0,1", "h%s" % hx("a"), "Q%s,%s" % (hx("nosv"), hx("1.0.0")), "X"]))]
    elif kind == "rank-twice":
        ins = [(slot, "R%d,%d" % (r.below(4), r.range(1, 4))), (slot, "R%d,%d" % (r.below(4), r.range(1, 4)))]
        conf = None
    elif kind == "init-twice":
        ins = [(slot, "T%d" % r.choice([1, 77, 0, -3]))]
    elif kind == "init-zero":
        ops = [(s, ("T0" if (s == slot and o[0] == "T") else o)) for s, o in ops]
    elif kind == "after-free":
        en = max(i for i, (s, o) in enumerate(ops) if s == slot and o[0] == "X")
        pos = r.range(en + 1, len(ops))
        ins = [(slot, r.choice([set_op(r, "a.b"), "f", "F", "X", "T%d" % r.range(1, 999), "C0,0", "R0,1", "h%s" % hx("a"), "gj%s" % hx("ovni"),
                                "Q%s,%s" % (hx("nosv"), hx("1.0.0"))]))]
    elif kind == "proc-init-twice":
        pos = r.range(1, len(ops))
        ins = [(slot, "I1,%s,5" % hx("again.1"))]
    elif kind == "proc-fini-twice":
        pos = len(ops)
        ins = [(slot, "E")]
    elif kind == "after-fini":
        pos = len(ops)
        ins = [(r.choice(slots + [9]), r.choice(["T%d" % r.range(1, 999), "C0,0", "R0,1", "F", "f", set_op(r, "late"), "X", "I1,%s,5" % hx("again.1")]))]
    elif kind == "no-proc-init":
        ops = ops[1:]
        pos = 0
    elif kind == "loom-long":
        n = r.choice([250, 250, 512, 513, 600])
        a = ops[0][1][1:].split(",")
        ops[0] = (ops[0][0], "I%s,%s,%s" % (a[0], hx("n" * (n - 2) + ".1"), a[2]))
        pos = 0
        conf = None
    elif kind == "get-missing":
        ins = [(slot, r.choice(["gs", "gd", "gb", "gj"]) + hx(r.choice(["nope", "ovni.nope", "a.b.c.d.e", ""])))]
        conf = None
    elif kind == "get-wrong-type":
        ins = [(slot, r.choice(["gs", "gd", "gb"]) + hx(r.choice(["ovni", "ovni.tid", "ovni.part", "version", "ovni.require"])))]
        conf = None
    elif kind == "json-dup-keys":
        t = rand_tree(r.fork("d"), dup=True)
        if not has_dup(t):
            t = ("o", [("a", ("i", 1)), ("b", t), ("a", ("i", 2))])
        ins = [(slot, "j%s,%s,%s" % (hx("x.dup"), hx(text(t)), enc(t)))]
        conf = None
    elif kind == "json-scalar":
        t = r.choice([("i", 5), ("s", "str"), ("n",), ("t",), ("a", []), ("o", []), ("o", [("", ("o", [("", ("n",))]))])])
        ins = [(slot, "j%s,%s,%s" % (hx("x.sc"), hx(text(t)), enc(t))), (slot, "gj%s" % hx("x.sc")), (slot, "gj%s" % hx("x"))]
        conf = True
    elif kind == "fini-before-free":
        ops = [x for x in ops if x[1] != "E"]
        en = max(i for i, (s, o) in enumerate(ops) if s == slot and o[0] == "X")
        ops.insert(en, (slot, "E"))
        pos = 0
    elif kind == "no-free":
        ops = [x for x in ops if not (x[0] == slot and x[1][0] == "X")]
        pos = 0
    elif kind == "odd-ids":
        a = ops[0][1][1:].split(",")
        which = r.below(3)
        if which == 0:
            ops[0] = (ops[0][0], "I%d,%s,%s" % (r.choice([0, -1]), a[1], a[2]))
        elif which == 1:
            ops[0] = (ops[0][0], "I%s,%s,%d" % (a[0], a[1], r.choice([0, -7])))
        else:
            ops = [(s, ("T-%d" % r.range(1, 99) if (s == slot and o[0] == "T") else o)) for s, o in ops]
        pos = 0
    elif kind == "wild-attrs":
        keys = ["w", "w.a", "w.a.b", "w.c", "nosv", "nosv.lib_version", "app", "app.name.first"]
        for _ in range(r.range(3, 10)):
            k = r.choice(keys)
            ins.append((slot, r.choice([set_op(r, k), "h%s" % hx(k), "gj%s" % hx(k), "f"])))
        conf = None
    ops[pos:pos] = ins
    return Prog(ops, "malformed:" + kind, expect_conf=conf)


def gen_cases(rng, n_valid_traces, n_malformed):
    traces = []
    for i in range(n_valid_traces):
        traces.append(gen_valid_trace(rng.fork("v%d" % i)))
    for i in range(n_malformed):
        r = rng.fork("m%d" % i)
        base = gen_valid_trace(r.fork("b"), emit=False)[0]
        p = mutate(r, base)
        if r.chance(1, 5):
            try:
                p = mutate(r.fork("2"), p)
                p.cls = "malformed:two-mistakes"
                p.expect_conf = None
            except (IndexError, ValueError):
                pass          # the second mistake does not apply to what the first one left (no proc_init, no free ...)
        traces.append([p])
    return traces


def load_corpus():
    d = os.path.join(common.VERIF, "corpus", "C02", "rtmeta")       # a sub-directory: corpus/C02/*.txt are event-buffer scripts
    out = []
    if os.path.isdir(d):
        for fn in sorted(os.listdir(d)):
            if fn.endswith(".txt"):
                for ln in open(os.path.join(d, fn)):
                    ln = ln.strip()
                    if ln and not ln.startswith("#"):
                        ops = []
                        for tok in ln.split(";"):
                            s, o = tok.split(":", 1)
                            ops.append((int(s), o))
                        out.append([Prog(ops, "corpus", expect_conf=None, note=fn)])
    return out


# ------------------------------------------------------------------ running
class Ctx:
    pass


def setup(chk, build, art_dir):
    ctx = Ctx()
    hd = os.path.join(common.BUILD, "harness")
    src = os.path.join(common.VERIF, "harness", "rtmeta_drv.c")
    sig = hashlib.md5(open(src, "rb").read()).hexdigest()[:8]
    hxe = os.path.join(hd, "rtmeta_drv-%s-%s" % (build.tree, sig))
    if not os.path.exists(hxe):
        tmp = hxe + ".tmp%d" % os.getpid()
        common.cc_harness(tmp, [src], build, extra=["-L" + art_dir, "-lovni", "-lpthread", "-Wl,-rpath," + art_dir])
        os.replace(tmp, hxe)
    ctx.hx = hxe
    ctx.oracle = common.build_oracle("rtmeta", "Extract_rtmeta", "rtmeta_drv.ml", "rtmeta_x")
    ver = common.batch([hxe, "/tmp"], ["V"])[0].split(" ")
    ctx.cfg = ver[1:4]
    ctx.cfg_text = [unhx(x) for x in ver[1:4]]
    return ctx


def parse_impl(line):
    f = line.split(" ")
    end, d = f[0], f[1]
    recs = []
    dying = False
    for tok in f[2:]:
        if not tok:
            continue
        parts = tok.split("/")
        if len(parts) < 3 or parts[0] != "ok":
            dying = True                      # the call that did not return
            break
        files = {}
        if parts[2] != "-":
            for ent in parts[2].split(","):
                t, h = ent.split("=")
                files[int(t)] = bytes.fromhex(h).decode("latin1") if h != "z" else ""
        recs.append((parts[1], files))
    return end, d, recs, dying


def parse_model(line):
    f = line.split(" ")
    conf = f[0] == "conf=1"
    evs = []
    for tok in f[1:]:
        if tok in ("die", "out"):
            evs.append((tok, None, None))
        else:
            _, w, o = tok.split("/")
            wr = None
            if w != "-":
                t, tr = w.split("=", 1)
                wr = (int(t), dec(tr))
            evs.append(("ok", wr, None if o == "-" else dec(o)))
    return conf, evs


def obs_tree(tok, opcode):
    """what the real call returned, as a tree"""
    if tok == "-":
        return None
    if tok[0] == "i":
        return ("t",) if int(tok[1:]) else ("f",)
    if tok[0] == "d":
        x = float(tok[1:])
        return ("i", int(x)) if x == int(x) else ("float", x)
    s = unhx(tok[1:])
    if opcode.startswith("gj"):
        return from_text(s)
    return ("s", s)


def compare(p, impl, model):
    """call-by-call comparison -> None or a description of the first difference"""
    end, d, recs, dying = impl
    conf, evs = model
    mdisk = {}
    rdisk = {}
    for i, (slot, o) in enumerate(p.ops):
        if i >= len(evs):
            return "model stopped before call %d" % i
        kind, w, obs = evs[i]
        if kind == "out":
            return None if False else "OUT-OF-DOMAIN"
        if kind == "die":
            if i < len(recs):
                return "call %d (%s): model says die(), the library returned" % (i, describe(o))
            if end != "abort":
                return "call %d (%s): model says die(), the driver ended with %s" % (i, describe(o), end)
            return None
        if i >= len(recs):
            return "call %d (%s): model says it returns, the library did not (%s)" % (i, describe(o), end)
        rtok, files = recs[i]
        if w is not None:
            mdisk[w[0]] = w[1]
        for t, txt in files.items():
            try:
                rdisk[t] = from_text(txt)
            except NotInt as e:
                return "call %d: stream.json of tid %d holds a non-integral number %s" % (i, t, e)
            except ValueError as e:
                return "call %d: stream.json of tid %d does not parse: %s" % (i, t, e)
        if set(mdisk) != set(rdisk):
            return "call %d (%s): files on disk differ: model %s, real %s" % (i, describe(o), sorted(mdisk), sorted(rdisk))
        for t in mdisk:
            if mdisk[t] != rdisk[t]:
                if canon(mdisk[t]) == canon(rdisk[t]):
                    return "call %d (%s): tid %d: same tree, different member ORDER: model %s real %s" % (i, describe(o), t, text(mdisk[t])[:600], text(rdisk[t])[:600])
                return "call %d (%s): tid %d: model %s real %s" % (i, describe(o), t, text(mdisk[t])[:700], text(rdisk[t])[:700])
        try:
            ro = obs_tree(rtok, o)
        except Exception as e:  # noqa
            return "call %d: unreadable result %r (%r)" % (i, rtok[:80], e)
        if ro != obs:
            return "call %d (%s): returned value: model %s real %s" % (i, describe(o), obs and text(obs)[:300], ro and (text(ro)[:300] if ro[0] != "float" else ro))
    if end != "done":
        return "model completes, the driver ended with %s" % end
    return None


# ------------------------------------------------------------------ the independent decider (property text)
def decide_trace(procs, finals, inter):
    """procs: the programs of one trace, all following the protocol and completed; finals[(loom,pid,tid)] = text of the REAL
    final stream.json (read from disk by this check); inter[(loom,pid,tid)] = list of (call index, text) dumps seen while
    the program ran.  -> list of (key, what) violations of "the metadata is complete"."""
    bad = []
    loom_cpus = {}
    loom_want = {}
    for p in procs:
        d = info(p)
        seen_app = False
        for slot, tid in d["tid"].items():
            k = (d["loom"], d["pid"], tid)
            if k not in finals:
                bad.append(("missing-file", "no stream.json for thread %d" % tid))
                continue
            try:
                m = json.loads(finals[k])
            except ValueError as e:
                bad.append(("unparsable", "stream.json of thread %d does not parse: %s" % (tid, e)))
                continue
            o = m.get("ovni") if isinstance(m, dict) else None
            if not isinstance(o, dict):
                bad.append(("no-ovni", "stream.json of thread %d has no ovni object" % tid))
                continue
            if m.get("version") != 3:
                bad.append(("version", "version is %r" % (m.get("version"),)))
            if o.get("part") != "thread":
                bad.append(("ovni.part", "ovni.part is %r" % (o.get("part"),)))
            if o.get("tid") != tid:
                bad.append(("ovni.tid", "ovni.tid is %r, thread_init(%d)" % (o.get("tid"), tid)))
            if o.get("pid") != d["pid"]:
                bad.append(("ovni.pid", "ovni.pid is %r, proc_init(pid=%d)" % (o.get("pid"), d["pid"])))
            if o.get("loom") != d["loom"]:
                bad.append(("ovni.loom", "ovni.loom is %r" % (o.get("loom"),)))
            if o.get("finished") != 1:
                bad.append(("ovni.finished", "ovni.finished is %r after thread_free" % (o.get("finished"),)))
            lib = o.get("lib")
            if not (isinstance(lib, dict) and isinstance(lib.get("version"), str) and lib.get("version") and isinstance(lib.get("commit"), str)):
                bad.append(("ovni.lib", "ovni.lib is %r" % (lib,)))
            req = o.get("require")
            want = dict(d["require"].get(slot, {}))
            if not isinstance(req, dict) or "ovni" not in req or any(req.get(a) != b for a, b in want.items()):
                bad.append(("ovni.require", "ovni.require is %r, required %r" % (req, want)))
            if "app_id" in o:
                if o["app_id"] != d["app"]:
                    bad.append(("ovni.app_id", "ovni.app_id is %r, proc_init(app=%d)" % (o["app_id"], d["app"])))
                else:
                    seen_app = True
            if slot in d["rank"]:
                if (o.get("rank"), o.get("nranks")) != d["rank"][slot]:
                    bad.append(("ovni.rank", "rank/nranks are %r/%r, set %r" % (o.get("rank"), o.get("nranks"), d["rank"][slot])))
            cl = o.get("loom_cpus")
            if cl is not None:
                if not isinstance(cl, list) or not all(isinstance(c, dict) and set(c) == {"index", "phyid"} for c in cl):
                    bad.append(("ovni.loom_cpus", "ovni.loom_cpus is %r" % (cl,)))
                else:
                    loom_cpus.setdefault(d["loom"], set()).update((c["index"], c["phyid"]) for c in cl)
            loom_want.setdefault(d["loom"], set()).update(d["cpus"].get(slot, []))
            # finished never before the store of thread_free
            for idx, txt in inter.get(k, []):
                if idx < d["free_pos"].get(slot, 1 << 30):
                    try:
                        mm = json.loads(txt)
                    except ValueError:
                        bad.append(("unparsable-intermediate", "stream.json of thread %d after call %d does not parse" % (tid, idx)))
                        continue
                    if isinstance(mm.get("ovni"), dict) and "finished" in mm["ovni"]:
                        bad.append(("finished-early", "stream.json of thread %d carries ovni.finished after call %d, before thread_free" % (tid, idx)))
        if d["tid"] and not seen_app:
            bad.append(("app_id-per-process", "no stream of process %d carries ovni.app_id" % d["pid"]))
    for lm, want in loom_want.items():
        if loom_cpus.get(lm, set()) != want:
            bad.append(("loom_cpus-per-loom", "loom %r: CPUs in the metadata %r, registered %r" % (lm, sorted(loom_cpus.get(lm, set())), sorted(want))))
        elif not want:
            pass        # a loom without CPUs: the program did not register any; outside the documented protocol, not generated
    return bad


def parse_row(text):
    """the labels of a Paraver .row file's THREAD level, in row order"""
    lines = text.split("\n")
    try:
        k = [i for i, ln in enumerate(lines) if ln.startswith("LEVEL THREAD SIZE")][0]
    except IndexError:
        return None
    n = int(lines[k].split()[-1])
    return lines[k + 1:k + 1 + n]


def read_finals(tracedir):
    out = {}
    if not os.path.isdir(tracedir):
        return out
    for lm in os.listdir(tracedir):
        if not lm.startswith("loom."):
            continue
        for pr in os.listdir(os.path.join(tracedir, lm)):
            if not pr.startswith("proc."):
                continue
            for th in os.listdir(os.path.join(tracedir, lm, pr)):
                pth = os.path.join(tracedir, lm, pr, th, "stream.json")
                if th.startswith("thread.") and os.path.exists(pth):
                    try:
                        out[(lm[5:], int(pr[5:]), int(th[7:]))] = open(pth, encoding="latin1").read()
                    except ValueError:
                        pass
    return out


def run_family(chk, build, art, art_dir):
    """the whole family; art.tool("ovniemu") is the private copy of the emulator"""
    ctx = setup(chk, build, art_dir)
    rng = chk.rng.fork("rtmeta")
    traces = load_corpus() + gen_cases(rng, chk.budget(150, 1500), chk.budget(900, 10000))
    chunks = [traces[i:i + 40] for i in range(0, len(traces), 40)]
    wd = trace.workdir("ovni-verif-rtmeta-")
    stats = {"programs": 0, "calls": 0, "model_die": 0, "real_abort": 0, "files_compared": 0, "conformant_completed": 0, "conformant_died_at_attr": 0,
             "emulator_runs": 0, "emulator_ok": 0, "coq_meta_check_on_real": 0, "out_of_domain": 0, "conf_disagree": 0, "finished_only_at_free_checked": 0,
             "rows_compared": 0, "expected_metas_checked": 0, "expected_metas_differ": 0}
    mism = []
    confdis = []
    import threading
    lock = threading.Lock()

    def do_chunk(ic):
        ci, chunk = ic
        base = os.path.join(wd, "k%d" % ci)
        os.makedirs(base, exist_ok=True)
        lines = []
        owner = []
        for ti, tr in enumerate(chunk):
            td = os.path.join(base, "tr%d" % ti, "ovni")
            for p in tr:
                lines.append("M %s %s %s %s %s" % (ctx.cfg[0], ctx.cfg[1], ctx.cfg[2], p.script(), td))
                owner.append((ti, p))
        impl = common.batch([ctx.hx, base], lines, timeout=900)
        modl = common.batch(ctx.oracle, [" ".join(l.split(" ")[:5]) for l in lines], timeout=900)
        per_trace = {}
        for (ti, p), il, ml in zip(owner, impl, modl):
            im = parse_impl(il)
            mo = parse_model(ml)
            per_trace.setdefault(ti, []).append((p, im, mo))
        kq = []
        kown = []
        bq = []
        bown = []
        xq = []
        for ti, tr in enumerate(chunk):
            td = os.path.join(base, "tr%d" % ti, "ovni")
            res = per_trace[ti]
            finals = read_finals(td)
            all_conf_done = True
            with lock:
                for p, im, mo in res:
                    chk.case(p.fingerprint())
                    chk.count("rtmeta:" + p.cls)
                    stats["programs"] += 1
                    stats["calls"] += len(p.ops)
                    conf, evs = mo
                    diff = compare(p, im, mo)
                    if diff == "OUT-OF-DOMAIN":
                        stats["out_of_domain"] += 1
                        diff = None
                        all_conf_done = False
                        continue
                    died = any(e[0] == "die" for e in evs)
                    stats["model_die"] += died
                    stats["real_abort"] += im[0] == "abort"
                    stats["files_compared"] += sum(len(fl) for _, fl in im[2])
                    chk.count("rtmeta-outcome:" + ("abort" if died else "completes") + (":conformant" if conf else ""))
                    if diff:
                        mism.append({"class": p.cls, "script": p.short(), "calls": p.readable(), "difference": diff})
                    if p.expect_conf is not None and p.expect_conf != conf:
                        stats["conf_disagree"] += 1
                        confdis.append({"class": p.cls, "script": p.short(), "generator_says": p.expect_conf, "coq_meta_conformant": conf})
                    if not (conf or p.expect_conf):
                        all_conf_done = False
                    elif died or im[0] != "done":
                        all_conf_done = False
                        # a program that follows the protocol may only abort inside an attribute call (documented)
                        last = len(im[2])
                        op = p.ops[last][1] if last < len(p.ops) else "?"
                        if op[0] in "sdbjhg":
                            stats["conformant_died_at_attr"] += 1
                        else:
                            chk.violation("metadata:conformant-program-aborts:%s" % p.fingerprint(),
                                          "a program that follows the documented protocol aborts in %s" % describe(op),
                                          {"script": p.short(), "calls": p.readable(), "how": "echo 'M z z z <script>' | build/harness/rtmeta_drv-* <dir>"})
                if all_conf_done:
                    stats["conformant_completed"] += len(res)
                    inter = {}
                    for p, im, mo in res:
                        d = info(p)
                        for idx, (_, files) in enumerate(im[2]):
                            for t, txt in files.items():
                                inter.setdefault((d["loom"], d["pid"], t), []).append((idx, txt))
                                stats["finished_only_at_free_checked"] += 1
                    for key, what in decide_trace([p for p, _, _ in res], finals, inter):
                        chk.violation("metadata:%s" % key, "a program that follows the documented protocol leaves incomplete metadata: %s" % what,
                                      {"scripts": [p.short() for p, _, _ in res], "calls": [p.readable() for p, _, _ in res],
                                       "how": "each script: echo 'M z z z <script> <dir>/ovni' | build/harness/rtmeta_drv-* <dir>; look at <dir>/ovni/loom.*/proc.*/thread.*/stream.json"})
                    for k, txt in finals.items():
                        try:
                            kq.append("K 1 " + enc(from_text(txt)))
                            kown.append((ti, k))
                        except Exception:  # noqa
                            pass
            # the emulator's verdict depends on more than the metadata being complete (CPU numbering, ranks, events):
            # it is asked about the traces the generator built to follow the whole documented protocol
            if all_conf_done and all(p.expect_conf and p.cls.startswith("valid") for p, _, _ in res):
                rc, out, err = trace.run_tool(art, "ovniemu", ["-l"], td, timeout=120)
                with lock:
                    stats["emulator_runs"] += 1
                    if rc == 0:
                        stats["emulator_ok"] += 1
                        # the rows the real emulator gave the threads and CPUs, against Emu/MetaDefs.build (C15's model of the
                        # metadata merge) applied to the REAL final trees: ties C02_metadata_builds_system to the code
                        try:
                            order = sorted(finals, key=lambda k: ("loom.%s/proc.%d/thread.%d" % k).encode("latin1"))
                            bq.append("B " + " ".join(enc(from_text(finals[k])) for k in order))
                            rows = []
                            for fn in ("thread.row", "cpu.row"):
                                pth = os.path.join(td, fn)
                                rows.append(parse_row(open(pth, encoding="latin1").read()) if os.path.exists(pth) else None)
                            bown.append((ti, rows))
                        except Exception as e:  # noqa
                            chk.notes.append("rtmeta: rows of a valid trace could not be read: %r" % (e,))
                        for p, _, _ in res:
                            xq.append("X %s %s %s %s" % (ctx.cfg[0], ctx.cfg[1], ctx.cfg[2], p.script()))
                    else:
                        chk.violation("metadata:emulator-rejects:%s" % res[0][0].fingerprint(),
                                      "ovniemu -l rejects (exit %s) the trace of programs that follow the documented protocol" % rc,
                                      {"scripts": [p.short() for p, _, _ in res], "emulator_stderr": err[-1500:],
                                       "how": "each script: echo 'M z z z <script> <dir>/ovni' | build/harness/rtmeta_drv-* <dir>; ovniemu -l <dir>/ovni"})
        if bq:
            ans = common.batch(ctx.oracle, bq + xq, timeout=600)
            with lock:
                for (ti, rows), a in zip(bown, ans[:len(bq)]):
                    stats["rows_compared"] += 1
                    f = a.split("|")
                    want = [f[1].split(";") if f[1] else [], f[2].split(";") if f[2] else []] if f[0] == "ok" and len(f) == 3 else None
                    if want is None or rows != want:
                        chk.violation("metadata:rows:%s" % per_trace[ti][0][0].fingerprint(),
                                      "thread.row / cpu.row of the real emulator differ from MetaDefs.build on the real final stream.json files: real %s, model %s" % (rows, want or a),
                                      {"scripts": [p.short() for p, _, _ in per_trace[ti]], "real_rows": rows, "model": a[:1500],
                                       "how": "each script: echo 'M z z z <script> <dir>/ovni' | build/harness/rtmeta_drv-* <dir>; ovniemu -l <dir>/ovni; cat <dir>/ovni/thread.row <dir>/ovni/cpu.row"})
                for a in ans[len(bq):]:
                    stats["expected_metas_checked"] += 1
                    if a != "same":
                        stats["expected_metas_differ"] += 1
                if stats["expected_metas_differ"]:
                    chk.notes.append("rtmeta: final_metas <> expected_metas on %d valid programs in the extracted model (contradicts C02_metadata_stream_metas)" % stats["expected_metas_differ"])
        if kq:
            ans = common.batch(ctx.oracle, kq, timeout=600)
            with lock:
                for (ti, k), a in zip(kown, ans):
                    stats["coq_meta_check_on_real"] += 1
                    if a != "MetaOk":
                        chk.violation("metadata:coq-meta_check:%s" % a, "the extracted emulator-side gate meta_check answers %s on the real stream.json of thread %s" % (a, k),
                                      {"scripts": [p.short() for p, _, _ in per_trace[ti]]})
        shutil.rmtree(base, ignore_errors=True)

    try:
        trace.pmap(do_chunk, list(enumerate(chunks)))
    finally:
        shutil.rmtree(wd, ignore_errors=True)

    for tr in traces[:400]:
        if tr[0].cls.startswith("valid") and len(tr) > 1:
            chk.sample({"class": "rtmeta trace of %d processes" % len(tr), "first_program": tr[0].readable(30)})
            break
    for tr in traces:
        if tr[0].cls == "malformed:reserved-key":
            chk.sample({"class": tr[0].cls, "program": tr[0].readable(30)})
            break
    chk.coverage["rtmeta"] = dict(stats)
    chk.coverage["rtmeta"]["lib"] = {"OVNI_LIB_VERSION": ctx.cfg_text[0], "OVNI_GIT_COMMIT": ctx.cfg_text[1], "OVNI_MODEL_VERSION": ctx.cfg_text[2]}
    chk.coverage["rtmeta_rule"] = (
        "metadata programs = per-process call lists over thread slots (proc_init, thread_init, add_cpu, proc_set_rank, require, attr_set_str/double/boolean/json, "
        "attr_has, attr_get_*, attr_flush, flush, thread_free, proc_fini). valid traces: 1-3 processes on 1-2 looms, 1-3 threads each, the CPUs of a loom spread "
        "over its threads, prefix-free user attribute keys (dots, empty components, 300-byte names, 41-level paths, quotes/control bytes), get-after-set; "
        "malformed: one or two mistakes from 27 kinds (reserved ovni.* / version keys, empty / long / odd keys, dotted key through a non-object, duplicate or negative CPU, "
        "require twice / bad model / bad version, calls before init / after free / after fini, init twice / tid 0, proc init twice, loom name of 512+, missing or mistyped get, "
        "JSON with a repeated name, ...). Every program: real libovni (stream.json read back after EVERY call, order of members included) vs extracted model "
        "(tree written, value returned, die() <-> SIGABRT). Programs that follow the protocol: independent Python decider on the real final files "
        "(version, ovni.part/tid/pid/loom/require/finished/lib.*, app_id per process, loom_cpus per loom, finished in no earlier dump), extracted meta_check on the real trees, real ovniemu -l on the trace, and its thread.row / cpu.row against the extracted MetaDefs.build (emulator's metadata merge) on the real final trees")
    if confdis:
        chk.coverage["rtmeta_conformance_disagreements"] = confdis[:10]
        chk.violation("spec-deciders-disagree:rtmeta", "the generator's notion of a protocol-following program and the Coq meta_conformant differ on %d programs" % len(confdis),
                      {"cases": confdis[:10]}, found_input=False)
    if mism:
        chk.coverage["rtmeta_correspondence_disagreements"] = mism[:10]
        if not [v for v in chk.violations if str(v[0]).startswith("metadata:")] and not [k for k, _ in chk.known_hits if str(k).startswith("metadata:")]:
            chk.violation("broken-correspondence:rtmeta", "the metadata model and libovni disagree on %d programs, none of which breaks the property" % len(mism),
                          {"correspondence": "extracted RtMeta model vs libovni.so: stream.json tree after every call, returned values, die() vs abort",
                           "disagreements": mism[:15]}, found_input=False)
        else:
            chk.notes.append("rtmeta: model and library also disagree on %d programs (first: %s)" % (len(mism), mism[0]["difference"][:300]))
    return stats
