"""C04 - thread life-cycle: accepted traces follow the documented thread state machine."""
from vf import common, emucheck, emucore, gen_hist

LEVEL = "proof"


def run(chk):
    build, oracle, tables = emucheck.setup(chk, extra_units=("guards", "chan", "sys"))
    chk.assumptions = ["histories: OH* events with valid payloads; whether a dead thread may execute again is left open by the "
                       "documentation: the spec allows it like the emulator does, nothing is demanded either way",
                       "distinct clocks per event (merging of equal clocks is C03's concern)"]
    rng = chk.rng
    corr_all = []
    # bounded-exhaustive: every OH history
    ex = []
    for (nth, ln) in chk.budget([(1, 4), (2, 3)], [(1, 6), (2, 4), (3, 3)]):
        for l in range(1, ln + 1):
            ex += list(emucheck.exhaustive_oh(tables, nth, l))
    chk.count("exhaustive_histories", len(ex))
    corr, _, _ = emucheck.run_cases(chk, build, oracle, tables, ex, types={2, 4, 6}, deciders=(emucheck.d_thread,), label="exhaustive")
    corr_all += corr
    # one mistake: every complete legal history of one thread up to 7 events, with one event duplicated or replaced
    # by another one at every position (the rest of the history goes on as if nothing had happened)
    from vf.emucore import FSM, Scenario, i32
    legal = []

    def walk(state, hist):
        if state == "Dead" and hist:
            legal.append(hist)
        if len(hist) >= 7:
            return
        for (a, v), b in FSM.items():
            if a == state and not (state == "Dead"):
                walk(b, hist + v)
    walk("Unknown", "")
    mistakes = set()
    for h in legal:
        for i in range(len(h)):
            mistakes.add(h[:i + 1] + h[i] + h[i + 1:])
            for v in "xeprcw":
                if v != h[i]:
                    mistakes.add(h[:i] + v + h[i + 1:])
    mistakes = sorted(m for m in mistakes if len(m) > (4 if chk.tier == "quick" else 6))     # shorter ones are in the exhaustive part
    if chk.tier == "quick":
        mistakes = rng.fork("mist").shuffle(mistakes)[:1500]
    ms = []
    for mi, m in enumerate(mistakes):
        s1 = Scenario()
        for mm in tables["models"]:
            s1.versions[mm["name"]] = mm["version"]
        # every second history on a loom with two CPUs, where each execute after the first names the OTHER CPU: an execute
        # from a paused / cooling / warming thread must be refused whatever CPU it names
        two = mi % 2 == 1
        s1.looms["la"] = [(0, 0), (1, 1)] if two else [(0, 0)]
        s1.threads.append({"loom": "la", "pid": 10, "tid": 101})
        clk = 10
        nx = 0
        for v in m:
            clk += 3
            cpu = (nx % 2) if two else 0
            nx += v == "x"
            s1.events.append((0, clk, "OH" + v, (i32(cpu) + i32(101) + i32(0)) if v == "x" else b""))
        ms.append(s1)
    chk.count("one_mistake_histories", len(ms))
    corr, _, _ = emucheck.run_cases(chk, build, oracle, tables, ms, types={2, 4, 6}, deciders=(emucheck.d_thread,), label="one-mistake")
    corr_all += corr
    # random, longer, several looms/CPUs, OH only
    rnd = []
    for i in range(chk.budget(400, 5000)):
        r = rng.fork("r%d" % i)
        s = gen_hist.base_scenario(r, tables)
        gen_hist.thread_history(r, s, r.range(1, 60), with_affinity=False, spice=True)
        rnd.append(s)
    corr, real, model = emucheck.run_cases(chk, build, oracle, tables, rnd, types={2, 4, 6}, deciders=(emucheck.d_thread,), label="random")
    corr_all += corr
    if rnd:
        chk.sample({"scenario": rnd[0].describe(), "ovniemu_exit": real[0]["rc"], "model": model[0][0] if model[0] else None})
        chk.sample({"scenario": ex[-1].describe()})
    chk.coverage["rule"] = ("all OH* histories up to the stated length on 1-3 threads (exhaustive), plus random histories up to length 60 on 1-3 "
                            "threads, 1-2 looms, 1-3 CPUs; non-trivial = distinct scenario; judged by the Python thread machine on ovniemu's "
                            "verdict and on rows 4/2/6 of thread.prv; compared with the extracted Coq model")
    emucheck.finish_corr(chk, corr_all)
