"""C08 - subsystem events nest like a stack and map to documented values in every model."""
import json
import os

from vf import common, emucheck, emucore, gen_hist
from vf.emucore import Scenario, i32

LEVEL = "proof"


def one_thread(tables, model, lint=False):
    s = Scenario()
    for m in tables["models"]:
        s.versions[m["name"]] = m["version"]
    s.enabled = ["ovni"] + ([model] if model != "ovni" else [])
    s.looms["la"] = [(0, 0)]
    s.threads.append({"loom": "la", "pid": 10, "tid": 101})
    s.lint = lint
    s.events.append((0, 10, "OHx", i32(0) + i32(101) + i32(0)))
    return s


def close(s, clk):
    s.events.append((0, clk, "OHe", b""))


def expect(tables, s):
    """independent stack machine over the dumped tables for a single always-running thread:
    returns (accepted, [(clock, chan type, shown value)])"""
    name2dir = {m["name"]: m["dir"] for m in tables["models"]}
    id2dir = {chr(m["id"]): m["dir"] for m in tables["models"]}
    tab = {(t["model"], chr(t["c"]), chr(t["v"])): t for t in tables["table"]}
    spec = {(c["model"], c["index"]): c for c in tables["chans"] if c["side"] == "th"}
    stacks = {}
    shown = []
    for (p, clk, mcv, pl) in s.events:
        if mcv[:2] in ("OH", "OA"):
            continue
        if mcv in ("OF[", "OF]"):
            # the flush region of the base model: a single-value channel, enter sets "flushing", leave clears it; a
            # leave without an enter and an enter inside an enter are refused (the channel refuses an equal value)
            fl = stacks.setdefault((p, "ovni", "flush"), [])
            if mcv == "OF[":
                if fl:
                    return False, shown
                fl.append(1)
            else:
                if not fl:
                    return False, shown
                fl.pop()
            shown.append((clk, 7, 1 if fl else 0, p))
            continue
        d = id2dir.get(mcv[0])
        t = tab.get((d, mcv[1], mcv[2]))
        if t is None:
            return False, shown
        sp = spec[(d, t["chan"])]
        stk = stacks.setdefault((p, d, t["chan"]), [])
        if t["action"] == "PUSH":
            if not sp["dup"] and stk and stk[-1] == t["value"]:
                return False, shown
            if len(stk) >= 512:
                return False, shown
            stk.append(t["value"])
        elif t["action"] == "POP":
            if not stk or stk[-1] != t["value"]:
                return False, shown
            stk.pop()
        elif t["action"] == "IGN":
            continue
        else:
            continue
        shown.append((clk, sp["type"], stk[-1] if stk else 0, p))
    if s.lint:
        for (p_, d, ch), stk in stacks.items():
            sp = spec[(d, ch)]
            lintable = sp["stack"] and d not in ("kernel", "ovni") and not (d == "nanos6" and sp["name"] != "subsystem")
            if stk and lintable:
                return False, shown
    return True, shown


def run(chk):
    build, oracle, tables = emucheck.setup(chk, extra_units=("chan", "guards", "sys", "taskev", "dispatch"))
    chk.assumptions = ["pairs the models deliberately ignore (6t[ 6t], PBs PBS: action IGN) are not push/pop events and are outside the property",
                       "the documented value of an event is the PCF label of the value it pushes; corpus/C08/documented.json pins the "
                       "mapping of the pinned tree, so that swapping two table entries is a violation while renumbering states is not"]
    rng = chk.rng
    name = {m["dir"]: m["name"] for m in tables["models"]}
    mid = {m["dir"]: chr(m["id"]) for m in tables["models"]}
    # ---- documented mapping (pinned)
    pinned = json.load(open(os.path.join(common.VERIF, "corpus", "C08", "documented.json")))
    lab = {(l["model"], l["index"], l["value"]): l["label"] for l in tables["labels"] if l["side"] == "th"}
    for t in tables["table"]:
        mcv = mid[t["model"]] + chr(t["c"]) + chr(t["v"])
        chk.case(("doc", mcv))
        if t["action"] in ("PUSH", "POP", "SET"):
            cur = lab.get((t["model"], t["chan"], t["value"]))
            pin = pinned.get(mcv)
            if cur is None:
                chk.violation("no-label:" + mcv, "event %s puts value %d on its channel but the PCF has no label for it" % (mcv, t["value"]), {"entry": t})
            elif pin is not None and (pin["label"] != cur or pin["action"] != t["action"]):
                chk.violation("documented-value:" + mcv, "event %s now maps to %s '%s', its documented meaning is %s '%s'" % (mcv, t["action"], cur, pin["action"], pin["label"]),
                              {"entry": t, "documented": pin})
    # ---- every pair, three shapes
    scs = []
    pushes = [t for t in tables["table"] if t["action"] == "PUSH"]
    pops = {(t["model"], t["chan"], t["value"]): t for t in tables["table"] if t["action"] == "POP"}
    for t in pushes:
        m = name[t["model"]]
        po = pops.get((t["model"], t["chan"], t["value"]))
        if po is None:
            continue
        other = [x for x in pushes if x["model"] == t["model"] and x["chan"] == t["chan"] and x["value"] != t["value"]]
        e = mid[t["model"]] + chr(t["c"]) + chr(t["v"])
        l = mid[t["model"]] + chr(po["c"]) + chr(po["v"])
        for shape in ("ok", "wrong", "reenter"):
            s = one_thread(tables, m)
            s.events.append((0, 20, e, b""))
            if shape == "ok":
                s.events.append((0, 30, l, b""))
            elif shape == "wrong" and other:
                o = other[0]
                opo = pops[(o["model"], o["chan"], o["value"])]
                s.events.append((0, 30, mid[o["model"]] + chr(opo["c"]) + chr(opo["v"]), b""))
            elif shape == "reenter":
                s.events.append((0, 30, e, b""))
                s.events.append((0, 40, l, b""))
                s.events.append((0, 50, l, b""))
            else:
                continue
            close(s, 100)
            scs.append(s)
    chk.count("pair_shapes", len(scs))
    # ---- random nestings, lint on/off, several channels
    stackch = {}
    for t in pushes:
        stackch.setdefault((t["model"], t["chan"]), []).append(t)
    for i in range(chk.budget(250, 3000)):
        r = rng.fork("n%d" % i)
        (d, ch) = r.choice(sorted(stackch))
        s = one_thread(tables, name[d], lint=r.chance(1, 2))
        stk = []
        clk = 20
        for _ in range(r.range(1, 45)):
            clk += r.range(1, 4)
            if stk and r.chance(45, 100):
                v = stk[-1] if not r.chance(3, 100) else stk[0]
                po = pops[(d, ch, v)]
                s.events.append((0, clk, mid[d] + chr(po["c"]) + chr(po["v"]), b""))
                if v == stk[-1]:
                    stk.pop()
            else:
                t = r.choice(stackch[(d, ch)])
                if stk and stk[-1] == t["value"] and not r.chance(1, 15):
                    continue
                s.events.append((0, clk, mid[d] + chr(t["c"]) + chr(t["v"]), b""))
                stk.append(t["value"])
        if r.chance(2, 3):
            while stk:
                clk += 1
                po = pops[(d, ch, stk.pop())]
                s.events.append((0, clk, mid[d] + chr(po["c"]) + chr(po["v"]), b""))
        close(s, clk + 10)
        scs.append(s)
    # ---- the stack limit: 512 accepted, 513 refused
    for (d, ch) in sorted(stackch):
        vals = stackch[(d, ch)]
        if len(vals) < 2:
            continue
        for depth in (512, 513):
            s = one_thread(tables, name[d])
            clk = 20
            seq = []
            for k in range(depth):
                t = vals[k % 2]
                clk += 1
                s.events.append((0, clk, mid[d] + chr(t["c"]) + chr(t["v"]), b""))
                seq.append(t["value"])
            while seq and depth == 512:
                clk += 1
                po = pops[(d, ch, seq.pop())]
                s.events.append((0, clk, mid[d] + chr(po["c"]) + chr(po["v"]), b""))
            close(s, clk + 10)
            scs.append(s)
    chk.count("depth_limit_cases", 2 * len([1 for k in stackch if len(stackch[k]) >= 2]))
    # ---- lint with several threads: the open region may be in any thread
    nl = 0
    for (d, ch) in sorted(stackch):
        t = stackch[(d, ch)][0]
        po = pops[(d, ch, t["value"])]
        for nth in (2, 3):
            for opener in range(nth):
                for lint in (True, False):
                    s = Scenario()
                    for m in tables["models"]:
                        s.versions[m["name"]] = m["version"]
                    s.enabled = ["ovni"] + ([name[d]] if name[d] != "ovni" else [])
                    s.looms["la"] = [(0, 0)]
                    s.lint = lint
                    clk = 10
                    for k in range(nth):
                        s.threads.append({"loom": "la", "pid": 10, "tid": 101 + k})
                        clk += 1
                        s.events.append((k, clk, "OHx", i32(0 if k == 0 else -1) + i32(101 + k) + i32(0)))
                    for k in range(nth):
                        clk += 1
                        s.events.append((k, clk, mid[d] + chr(t["c"]) + chr(t["v"]), b""))
                        if k != opener:
                            clk += 1
                            s.events.append((k, clk, mid[d] + chr(po["c"]) + chr(po["v"]), b""))
                    for k in range(nth):
                        clk += 1
                        s.events.append((k, clk, "OHe", b""))
                    scs.append(s)
                    nl += 1
    chk.count("multi_thread_lint_cases", nl)

    # ---- the flush region of the base model (OF[ OF]), also as the very first events of a trace
    nf = 0
    for shape in (["OHx", "OF[", "OF]", "OHe"], ["OHx", "OF]", "OHe"], ["OHx", "OF[", "OF]", "OF]", "OHe"], ["OHx", "OF[", "OF[", "OF]", "OHe"],
                  ["OF[", "OF]", "OHx", "OF[", "OF]", "OHe"], ["OF[", "OHx", "OF]", "OF[", "OF]", "OHe"], ["OF]", "OHx", "OHe"],
                  ["OHx", "OF[", "OF]", "OF[", "OF]", "OF[", "OF]", "OHe"], ["OHx", "OHp", "OF[", "OF]", "OHr", "OHe"]):
        for start in (10, 0):
            s = one_thread(tables, "ovni")
            s.events = []
            clk = start
            for mcv in shape:
                s.events.append((0, clk, mcv, (i32(0) + i32(101) + i32(0)) if mcv == "OHx" else b""))
                clk += 7
            scs.append(s)
            nf += 1
    chk.count("flush_region_cases", nf)

    # ---- regions entered after a state change that keeps the thread active (cooling; paused -> warming -> running): the
    # tracking mux re-selects the SAME input, the row must go on showing the innermost region
    na = 0
    for (d, ch) in sorted(stackch):
        t = stackch[(d, ch)][0]
        po = pops.get((d, ch, t["value"]))
        if po is None:
            continue
        e = mid[d] + chr(t["c"]) + chr(t["v"])
        l = mid[d] + chr(po["c"]) + chr(po["v"])
        t2 = stackch[(d, ch)][1] if len(stackch[(d, ch)]) > 1 else None
        shapes = [["OHx", "OHp", "OHw", "OHr", e, l, "OHe"], ["OHx", e, "OHp", "OHw", "OHr", l, e, l, "OHe"]]
        if d in ("nosv", "nanos6"):           # models that only need an ACTIVE thread: also while cooling
            shapes += [["OHx", "OHc", e, l, e, l, "OHe"], ["OHx", e, "OHc", l, e, l, "OHe"]]
        if t2 is not None and pops.get((d, ch, t2["value"])) is not None:
            e2 = mid[d] + chr(t2["c"]) + chr(t2["v"])
            l2 = mid[d] + chr(pops[(d, ch, t2["value"])]["c"]) + chr(pops[(d, ch, t2["value"])]["v"])
            shapes.append(["OHx", "OHp", "OHw", "OHr", e, e2, l2, l, "OHe"])
        for shape in shapes:
            s = one_thread(tables, name[d])
            s.events = []
            clk = 10
            for mcv in shape:
                s.events.append((0, clk, mcv, (i32(0) + i32(101) + i32(0)) if mcv == "OHx" else b""))
                clk += 5
            scs.append(s)
            na += 1
    chk.count("regions_after_active_state_change_cases", na)

    # ---- "the thread must be in the state the model requires": the first enter event of every stack channel, and the flush
    # region of the base model, (a) from a paused thread, (b) from a thread the kernel model has taken out of the CPU, and the
    # controls (b') back in the CPU.  Requirements as the models document them: running (NODES, MPI, TAMPI, OpenMP), active
    # (Nanos6), active and in the CPU (nOS-V); the flush region only needs the thread in the CPU; the kernel model itself none.
    req = []       # (scenario, expected "reject"/"accept", what)
    ents = [(d, mid[d] + chr(stackch[(d, ch)][0]["c"]) + chr(stackch[(d, ch)][0]["v"])) for (d, ch) in sorted(stackch)] + [("ovni", "OF[")]
    for (d, e) in ents:
        if d == "kernel":
            continue
        def mk(shape, with_kernel):
            s = one_thread(tables, name[d])
            if with_kernel and "kernel" not in s.enabled:
                s.enabled = s.enabled + ["kernel"]
            s.events = []
            clk = 10
            for mcv in shape:
                s.events.append((0, clk, mcv, (i32(0) + i32(101) + i32(0)) if mcv == "OHx" else b""))
                clk += 5
            return s
        if e != "OF[":
            req.append((mk(["OHx", "OHp", e], False), "reject", "%s from a paused thread" % e))
        if d in ("nosv", "ovni"):
            req.append((mk(["OHx", "KCO", e], True), "reject", "%s from a thread that is out of the CPU" % e))
            req.append((mk(["OHx", "KCO", "KCI", e] + (["OF]"] if e == "OF[" else []) + ["OHe"], True),
                        "accept" if e == "OF[" else "accept-until-end", "%s after the thread is back in the CPU" % e))
    chk.count("state_requirement_cases", len(req))
    rreal = emucore.run_real(build, [x[0] for x in req])
    for (s, want, what), r in zip(req, rreal):
        desc = s.describe()
        chk.case(("req", desc["events"], desc["enabled"]))
        last = s.events[-1]
        t0 = min(ev[1] for ev in s.events)
        m_ = __import__("re").search(r"rclock=(\d+)", r["stderr"])
        at_probe = m_ is not None and int(m_.group(1)) == last[1]
        if want == "reject":
            if r["rc"] == 0 or not at_probe:
                # the trace is cut after the probe (thread not dead): the emulator must stop AT the probe event, not at the end
                chk.violation("accepts-wrong-thread-state:" + last[2] + ":" + what.split(" from ")[1].replace(" ", "-"),
                              "ovniemu processes %s; the model requires another thread state: %s" % (what, emucore._first_error(r["stderr"])),
                              {"scenario": desc, "stderr": r["stderr"][:800]})
        elif want == "accept":
            if r["rc"] != 0:
                chk.violation("rejects-nested:req:" + last[2], "ovniemu rejects %s: %s" % (what, emucore._first_error(r["stderr"])),
                              {"scenario": desc, "stderr": r["stderr"][:800]})
        else:   # the region is left open and the thread alive: only the probe itself must not be refused
            probe_clk = s.events[-2][1]
            if m_ is not None and int(m_.group(1)) == probe_clk:
                chk.violation("rejects-nested:req:" + s.events[-2][2], "ovniemu refuses %s: %s" % (what, emucore._first_error(r["stderr"])),
                              {"scenario": desc, "stderr": r["stderr"][:800]})

    real = emucore.run_real(build, scs)
    model = emucore.run_oracle(oracle, scs) if oracle else [None] * len(scs)
    corr = []
    for s, r, m in zip(scs, real, model):
        desc = s.describe()
        chk.case(("nest", desc["events"], desc["enabled"], desc["lint"]))
        key = common.hashlib.md5(repr(desc).encode()).hexdigest()[:12]
        ok, shown = expect(tables, s)
        chk.count("nest:" + ("accept" if ok else "reject"))
        if ok and r["rc"] != 0:
            chk.violation("rejects-nested:" + key, "ovniemu rejects a properly nested history: %s" % emucore._first_error(r["stderr"]),
                          {"scenario": desc if len(desc["events"]) < 80 else "long (%d events)" % len(desc["events"]), "stderr": r["stderr"][:1200]})
        if (not ok) and r["rc"] == 0:
            chk.violation("accepts-misnested:" + key, "ovniemu accepts a history that is not properly nested / re-enters / ends open in lint mode",
                          {"scenario": desc if len(desc["events"]) < 80 else "long (%d events)" % len(desc["events"])})
        if ok and r["rc"] == 0 and r["rows"] is not None:
            t0 = min(e[1] for e in s.events)
            g = s.thread_gindex()
            for (clk, ty, val, p) in shown:
                got = emucore.timeline(r["rows"].get((0, g[p] + 1, ty), []), clk - t0)
                if got != val:
                    chk.violation("innermost:" + key, "thread row type %d shows %d at t=%d, the innermost open region is %d" % (ty, got, clk - t0, val),
                                  {"scenario": desc if len(desc["events"]) < 80 else "long"})
                    break
        if m is not None:
            d = emucore.compare(s, r, m)
            if d:
                corr.append((desc if len(desc["events"]) < 80 else "long", d))
    chk.sample({"scenario": scs[0].describe(), "ovniemu_exit": real[0]["rc"]})
    chk.sample({"scenario": scs[len(scs) // 2].describe(), "ovniemu_exit": real[len(scs) // 2]["rc"]})
    chk.coverage["rule"] = ("for every PUSH/POP pair of every model: enter/leave, enter/wrong-leave, enter/enter; random nestings up to 45 events per "
                            "stack channel with lint on/off; 512- and 513-deep histories per stack channel; every table entry against the pinned documented "
                            "label; judged by a Python stack machine over the dumped tables on ovniemu's verdict and thread.prv rows; compared with the Coq model")
    emucheck.finish_corr(chk, corr)
