"""C16 - ovnisort yields a stable sorted permutation and touches only what it must.

Coq: coq/Tools/WinsortDefs.v (model + spec), coq/Proofs/WinsortProofs.v, coq/Props/Properties_C16.v.
Tie: the extracted model (oracle/winsort_drv.ml) and the real `ovnisort -n k` built from /repo's working
tree run on the same generated traces; the resulting stream.obs files are compared byte for byte with
the model's permutation (also the partially sorted file left behind by a failing run), the exit status
with the model's None/Some.  Independently of the model a Python spec decider judges the implementation's
output (that is what produces a VIOLATION with a concrete input)."""
import glob
import hashlib
import json
import os
import shutil

from vf import common, trace

LEVEL = "proof"

U63 = 1 << 63
U64 = 1 << 64
HDR = trace.STREAM_HEADER


# ------------------------------------------------------------------ events

def enc(e):
    """e = dict(mcv, clock, payload(bytes), jumbo(bytes|None)) -> encoded bytes"""
    return trace.ev_bytes(e["mcv"], e["clock"], e["payload"], e["jumbo"])


def is_start(e):
    return e["mcv"] == "OU["


def is_end(e):
    return e["mcv"] == "OU]"


def mk(mcv, clock, payload=b"", jumbo=None):
    return {"mcv": mcv, "clock": clock, "payload": payload, "jumbo": jumbo}


# ------------------------------------------------------------------ independent spec (Python)

def spec_pre(evs):
    """Precondition of the property on the ORIGINAL stream, look-back size left open.
    -> (structure_ok, reason, need) ; need = smallest -n for which every region's proper
    position is inside the look-back window (0 when no region has a body).
    Regions: OU[ body OU], body = events up to the first OU].  Outside bodies the clocks
    never decrease; body events are not later than their closing marker.  Clocks are uint64 and are
    compared as such by every part of the tool (cmp_ev too since /repo f327c17)."""
    need = 0
    last = 0
    i = 0
    n = len(evs)
    while i < n:
        e = evs[i]
        if not (0 <= e["clock"] < U64):
            return False, "clock-not-uint64", None
        if e["clock"] < last:
            return False, "out-of-order-outside-region", None
        last = e["clock"]
        if not is_start(e):
            i += 1
            continue
        j = i + 1
        while j < n and not is_end(evs[j]):
            j += 1
        if j == n:
            return False, "unterminated-region", None
        body = evs[i + 1:j]
        t = evs[j]
        for b in body + [t]:
            if not (0 <= b["clock"] < U64):
                return False, "clock-not-uint64", None
        if t["clock"] < last:
            return False, "out-of-order-outside-region", None
        if any(b["clock"] > t["clock"] for b in body):
            return False, "body-event-after-closing-marker", None
        if body:
            m = min(b["clock"] for b in body)
            back = len(body) + sum(1 for x in evs[:i + 1] if x["clock"] >= m)
            need = max(need, back + 2)
        last = t["clock"]
        i = j + 1
    return True, None, need


def first_inversion(clocks):
    """smallest i such that some later event has a strictly lower clock; len(clocks) if none"""
    n = len(clocks)
    sufmin = [0] * (n + 1)
    sufmin[n] = None
    cur = None
    for i in range(n - 1, -1, -1):
        sufmin[i] = cur
        cur = clocks[i] if cur is None else min(cur, clocks[i])
    for i in range(n):
        if sufmin[i] is not None and sufmin[i] < clocks[i]:
            return i
    return n


def spec_post(inp, out):
    """inp/out: raw stream.obs bytes before/after.  -> list of violated clauses (empty = fine)"""
    bad = []
    ok_i, evi, _ = trace.parse_obs(inp)
    ok_o, evo, erro = trace.parse_obs(out)
    if not ok_o:
        return ["output does not decode: %s" % erro]
    if len(inp) != len(out):
        bad.append("size changed %d -> %d" % (len(inp), len(out)))
    bi = [inp[e["off"]:e["off"] + e["size"]] for e in evi]
    bo = [out[e["off"]:e["off"] + e["size"]] for e in evo]
    if sorted(bi) != sorted(bo):
        bad.append("not a permutation of the original events")
    co = [e["clock"] for e in evo]
    if any(co[k] > co[k + 1] for k in range(len(co) - 1)):
        bad.append("clocks decrease")
    ci = [e["clock"] for e in evi]
    di, do = {}, {}
    for c, b in zip(ci, bi):
        di.setdefault(c, []).append(b)
    for c, b in zip(co, bo):
        do.setdefault(c, []).append(b)
    if di != do and "not a permutation of the original events" not in bad:
        bad.append("equal-clock events reordered")
    k = first_inversion(ci)
    cut = evi[k]["off"] if k < len(evi) else len(inp)
    if inp[:cut] != out[:cut]:
        bad.append("bytes before the earliest out-of-order position (offset %d) changed" % cut)
    return bad


# ------------------------------------------------------------------ generator

PLAIN = "abcdefghikmnopqrstuvwyz"


LOOKALIKES = ["6U]", "6U[", "VU]", "VU[", "KU]", "KU[", "OX]", "OX[", "Ou]", "Ou[", "OU}", "OU{", "oU]", "oU["]


class Gen:
    def __init__(self, r):
        self.r = r
        self.uid = 0

    def payload(self):
        r = self.r
        self.uid += 1
        k = r.below(10)
        if k < 2:
            return b""
        ln = r.choice([2, 2, 4, 4, 8, 16, r.range(2, 16)])
        return (self.uid.to_bytes(4, "little") + bytes(12))[:ln] if ln >= 4 else (self.uid & 0xFFFF).to_bytes(2, "little")

    def ev(self, clock, jumbo_p=8):
        r = self.r
        if r.below(100) < jumbo_p:
            self.uid += 1
            ln = r.choice([0, 1, 3, 17, 100, 100, 1000, 5000, 70000])
            return mk("OU" + r.choice("jJ"), clock, jumbo=(self.uid.to_bytes(4, "little") * (ln // 4 + 1))[:ln])
        if r.below(100) < 6:
            # look-alikes of the region markers: another model, another category, a neighbouring value.  Only the exact
            # OU[ / OU] open and close a region; these are ordinary events wherever they stand.
            return mk(r.choice(LOOKALIKES), clock, self.payload())
        return mk("OU" + r.choice(PLAIN), clock, self.payload())

    def stream(self, tid, cpu, flaw=None, big=False):
        """-> (events, features).  flaw in None | unterminated | nested | stray-end | plain-ooo |
        body-above-end | bigclock | noheader"""
        r = self.r
        feats = set()
        evs = []
        cur = r.choice([0, 1, 7, 1000, 10 ** 9, 2 ** 40])
        hdr = flaw != "noheader"
        if hdr:
            evs.append(mk("OHx", cur, cpu.to_bytes(4, "little") + tid.to_bytes(4, "little") + bytes(4)))
        nseg = r.choice([1, 1, 2, 2, 3, 4, 6]) if not big else r.choice([8, 15, 30])
        dense = r.chance(1, 3)          # many equal clocks
        steps = [0, 0, 0, 1] if dense else [0, 1, 1, 2, 5, 100]
        flaw_seg = r.below(nseg)
        for seg in range(nseg):
            early = (seg == 0 and r.chance(1, 3))
            for _ in range(0 if early else r.choice([0, 1, 2, 3, 5, 8, 13]) * (r.choice([1, 3, 8]) if big else 1)):
                cur += r.choice(steps)
                evs.append(self.ev(cur))
            if flaw == "plain-ooo" and seg == flaw_seg and evs:
                evs.append(self.ev(max(0, cur - r.range(1, 5)), 0))
                if evs[-1]["clock"] == cur:
                    evs[-1]["clock"] = cur + 0
            if flaw == "stray-end" and seg == flaw_seg:
                cur += r.choice(steps)
                evs.append(mk("OU]", cur))
            cur += r.choice(steps)
            opener = mk("OU[", cur)
            evs.append(opener)
            kind = r.below(100)
            body = []
            if kind < 14:
                feats.add("empty-region")
            else:
                nb = r.choice([1, 1, 1, 2, 2, 3, 5, 8, 20]) if not big else r.choice([1, 2, 5, 20, 60])
                prev = [e["clock"] for e in evs]
                # how deep the body goes: index of an earlier event whose clock is the base
                d = r.choice([0, 0, 1, 1, 2, 3, 5, 8, 13, len(prev) - 1, len(prev)] + ([40, 100, 300] if big else []))
                d = min(d, len(prev) - 1)
                base = prev[len(prev) - 1 - d]
                style = r.below(6)
                for b in range(nb):
                    if style == 0:      # all equal to the base
                        c = base
                    elif style == 1:    # ascending from just above the base
                        c = base + 1 + b
                    elif style == 2:    # internally unordered around the base
                        c = max(0, base + r.range(-2, 3))
                    elif style == 3:    # descending
                        c = base + nb - b
                    elif style == 4:    # equal to the opening marker / current clock
                        c = cur
                    else:               # spread over the whole past
                        c = r.choice(prev)
                    if hdr and c < evs[0]["clock"]:
                        c = evs[0]["clock"]
                    body.append(self.ev(c))
                if flaw == "nested" and seg == flaw_seg:
                    body.insert(r.below(len(body) + 1), mk("OU[", body[0]["clock"]))
                if len(set(b["clock"] for b in body)) < len(body):
                    feats.add("equal-clocks-in-body")
                if any(body[k]["clock"] > body[k + 1]["clock"] for k in range(len(body) - 1)):
                    feats.add("unordered-body")
                if any(b["jumbo"] is not None for b in body):
                    feats.add("jumbo-in-body")
                if min(b["clock"] for b in body) <= evs[0]["clock"]:
                    feats.add("body-reaches-stream-start")
                if any(b["clock"] < opener["clock"] for b in body):
                    feats.add("reorders")
            evs += body
            top = max([cur] + [b["clock"] for b in body])
            if flaw == "body-above-end" and seg == flaw_seg and body:
                body[-1]["clock"] = top + 3
                cur = top
            else:
                cur = top + r.choice(steps)
            if flaw == "unterminated" and seg == nseg - 1:
                feats.add("unterminated")
            else:
                evs.append(mk("OU]", cur))
        for _ in range(r.choice([0, 1, 3])):
            cur += r.choice(steps)
            evs.append(self.ev(cur))
        cur += r.choice(steps)
        if hdr:
            evs.append(mk("OHe", max(cur, max(e["clock"] for e in evs))))
        if flaw == "bigclock":
            if r.chance(2, 3):
                # shift the whole stream so that its clocks lie on both sides of 2^63 (or all above): still inside the precondition
                cl = sorted(e["clock"] for e in evs)
                pivot = r.choice(cl) if r.chance(3, 4) else cl[0]
                for e in evs:
                    e["clock"] += U63 - pivot
                feats.add("clocks-straddle-2^63")
            else:
                k = r.below(len(evs))
                evs[k]["clock"] = U63 + r.below(1000) if r.chance(1, 2) else U64 - 1 - r.below(3)
        if any(e["jumbo"] is not None for e in evs):
            feats.add("jumbo")
        cl = [e["clock"] for e in evs]
        if len(set(cl)) < len(cl):
            feats.add("equal-clocks")
        return evs, feats


FLAWS = [None] * 14 + ["unterminated", "nested", "stray-end", "plain-ooo", "body-above-end", "bigclock", "noheader", "noheader"]


def gen_case(r, k):
    g = Gen(r)
    nthreads = 2 if r.chance(1, 10) else 1
    big = r.chance(1, 12)
    streams = []
    feats = set()
    for t in range(nthreads):
        flaw = r.choice(FLAWS)
        evs, f = g.stream(100 + t, t, flaw, big)
        if big:
            f.add("long-stream")
        streams.append({"tid": 100 + t, "events": evs, "flaw": flaw})
        feats |= f
    # choose -n around what the streams need
    needs = []
    for s in streams:
        ok, why, need = spec_pre(s["events"])
        s["structure_ok"], s["why"], s["need"] = ok, why, need
        if ok:
            needs.append(need)
    need = max(needs) if needs else 0
    p = r.below(100)
    if need > 0 and p < 30:
        n = need
    elif need > 0 and p < 50:
        n = need - 1
    elif need > 0 and p < 58:
        n = need + 1
    elif need > 0 and p < 64:
        n = max(1, need - 2)
    elif p < 78:
        n = r.range(1, max(4, need + 6))
    elif p < 88:
        n = None                       # default look-back (1000000)
    else:
        n = r.choice([2, 3, 5, 8, 1000])
    return {"k": k, "n": n, "streams": streams, "features": sorted(feats)}


def case_from_corpus(obj, k):
    streams = []
    for ti, s in enumerate(obj["streams"]):
        evs = []
        for (mcv, clock, pay, jum) in s:
            evs.append(mk(mcv, int(clock), bytes.fromhex(pay) if pay else b"", bytes.fromhex(jum) if jum is not None else None))
        ok, why, need = spec_pre(evs)
        streams.append({"tid": 100 + ti, "events": evs, "flaw": obj.get("flaw"), "structure_ok": ok, "why": why, "need": need})
    return {"k": k, "n": obj["n"], "streams": streams, "features": ["corpus:" + obj.get("name", "?")], "corpus": obj.get("name")}


def case_to_replay(c):
    return {"n": c["n"], "name": c.get("corpus"),
            "streams": [[[e["mcv"], e["clock"], e["payload"].hex(), None if e["jumbo"] is None else
                          (e["jumbo"].hex() if len(e["jumbo"]) <= 64 else "len:%d" % len(e["jumbo"]))] for e in s["events"]]
                        for s in c["streams"]],
            "how": "write each stream as loom.n0/proc.100/thread.<100+i>/stream.obs (+stream.json), run ovnisort [-n N] <dir>"}


# ------------------------------------------------------------------ running the implementation

def obs_path(d, tid):
    return os.path.join(d, "loom.n0", "proc.100", "thread.%d" % tid, "stream.obs")


def run_impl(build, wd, c):
    d = os.path.join(wd, "c%d" % c["k"])
    tr = trace.Trace()
    for ti, s in enumerate(c["streams"]):
        meta = trace.thread_meta(s["tid"], 100, "n0", cpus=[(0, 0), (1, 1)] if ti == 0 else None)
        tr.add_thread("n0", 100, s["tid"], meta, [enc(e) for e in s["events"]])
    tr.write(d)
    nargs = [] if c["n"] is None else ["-n", str(c["n"])]
    res = {}
    rc, _, err = trace.run_tool(build, "ovnisort", nargs, d, timeout=60)
    res["rc"], res["err"] = rc, err[-1500:]
    res["out"] = [open(obs_path(d, s["tid"]), "rb").read() for s in c["streams"]]
    if rc == 0:
        rc2, _, err2 = trace.run_tool(build, "ovnisort", nargs, d, timeout=60)
        res["rc2"], res["err2"] = rc2, err2[-1500:]
        res["out2"] = [open(obs_path(d, s["tid"]), "rb").read() for s in c["streams"]]
        rcc, _, errc = trace.run_tool(build, "ovnisort", ["-c"], d, timeout=60)
        res["rcc"], res["errc"] = rcc, errc[-800:]
        if c.get("emu"):
            rce, _, erre = trace.run_tool(build, "ovniemu", [], d, timeout=60)
            res["rce"], res["erre"] = rce, erre[-1500:]
    # the same command when the kernel transfers only a few bytes per pwrite() (every third case)
    if SHIM[0] and c["k"] % 3 == 0:
        for s in c["streams"]:
            open(obs_path(d, s["tid"]), "wb").write(trace.STREAM_HEADER + b"".join(enc(e) for e in s["events"]))
        mx = [1, 5, 13, 64][(c["k"] // 3) % 4]
        rcs, _, errs = trace.run_tool(build, "ovnisort", nargs, d, timeout=120, env={"LD_PRELOAD": SHIM[0], "SHORTIO_MAX": str(mx)})
        res["short"] = (mx, rcs, errs[-600:], [open(obs_path(d, s["tid"]), "rb").read() for s in c["streams"]])
    shutil.rmtree(d, ignore_errors=True)
    return res


SHIM = [None]


def model_line(n, evs):
    nn = 1000000 if n is None else n
    if not evs:
        return "A %d -" % nn
    return "A %d %s" % (nn, ";".join("%x,%d,%d,%d,%d" % (e["clock"], ord(e["mcv"][0]), ord(e["mcv"][1]), ord(e["mcv"][2]), len(enc(e)))
                                      for e in evs))


def parse_model(ans):
    d = {}
    for f in ans.split(" "):
        k, v = f.split("=", 1)
        d[k] = v
    return d


def ids(s):
    return [] if s == "-" else [int(x) for x in s.split(",")]


def emu_ok(s):
    evs = s["events"]
    if len(evs) < 2 or evs[0]["mcv"] != "OHx" or evs[-1]["mcv"] != "OHe":
        return False
    c0, c1 = evs[0]["clock"], evs[-1]["clock"]
    if c1 >= U63:
        return False                    # stream_step reads clocks as int64
    for e in evs[1:-1]:
        if e["mcv"][:2] != "OU" or not (c0 <= e["clock"] <= c1):
            return False
    return True


# ------------------------------------------------------------------ the check

def run(chk):
    chk.trusted_base = common.BASE_TRUST + [
        "translate/units/_cmp.py + translate/c2gallina.py (clang JSON AST): the comparison part of the C comparators (ovnisort.c cmp_ev) is translated to Gallina on every run, the statements that fetch the compared integers are pinned as normalised source text, not translated",
        "hand model coq/Tools/WinsortDefs.v of src/emu/ovnisort.c (ring = last n-1 events, S/U/X machine, find_destination, "
        "sort of the window by uint64 clock, ring_check, -c) tied to the working tree by byte-for-byte comparison of stream.obs and exit status "
        "on generated traces",
        "libc qsort assumed STABLE for the sizes used (glibc: merge sort while the temporary array fits); modelled as insertion "
        "sort; any two stable sorts agree; re-checked by the byte comparison on every run (equal clocks in every window class)",
        "Linux: a MAP_PRIVATE mapping not yet written through shows later pwrite()s to the file (ovnisort re-reads sorted windows through it)",
        "extraction (ExtrOcamlBasic only) + OCaml 4.13 + oracle/winsort_drv.ml; lib/vf/trace.py writer/parser",
        "event decoding (stream_step, ovni_ev_size) is not modelled: streams are lists of whole events",
    ]
    chk.assumptions = ["-n >= 1 (n = 0 makes ring_add write into a zero-sized allocation)",
                       "stream files contain whole events only",
                       "streams of a trace are independent (the ring is reset per stream); traces with 1 or 2 streams are exercised",
                       "a stream without events is skipped by both modes (/repo 4875105); corpus/C16/02 is the regression case"]
    chk.translate_and_prove(["cmp_winsort", "winsort"])

    build = common.repo_build("hook")
    oracle = None
    try:
        oracle = common.build_oracle("winsort", "Extract_winsort", "winsort_drv.ml", "winsort_x")
    except Exception as e:
        chk.notes.append("oracle unavailable: %r" % (e,))
        if not getattr(chk, "proof_broken", None):
            chk.proof_broken = {"kind": "extraction", "error": repr(e)[:500]}

    rng = chk.rng
    cases = []
    for p in sorted(glob.glob(os.path.join(common.VERIF, "corpus", "C16", "*.json"))):
        cases.append(case_from_corpus(json.load(open(p)), len(cases)))
    ncorpus = len(cases)
    for k in range(chk.budget(300, 3000)):
        cases.append(gen_case(rng.fork("case%d" % k), ncorpus + k))
    for c in cases:
        c["emu"] = all(emu_ok(s) for s in c["streams"])

    shim = os.path.join(common.BUILD, "harness", "shortio_shim-%s.so" % common.hashlib.md5(
        open(os.path.join(common.VERIF, "harness", "shortio_shim.c"), "rb").read()).hexdigest()[:8])
    if not os.path.exists(shim):
        os.makedirs(os.path.dirname(shim), exist_ok=True)
        rcx, _, ex = common.run(["cc", "-shared", "-fPIC", "-O1", "-o", shim, os.path.join(common.VERIF, "harness", "shortio_shim.c"), "-ldl"], timeout=120)
        if rcx != 0:
            raise RuntimeError("short-io shim does not build: %s" % ex[-400:])
    SHIM[0] = shim
    wd = trace.workdir("ovni-verif-c16-")
    try:
        results = trace.pmap(lambda c: run_impl(build, wd, c), cases)
    finally:
        shutil.rmtree(wd, ignore_errors=True)

    lines = []
    for c in cases:
        for s in c["streams"]:
            lines.append(model_line(c["n"], s["events"]))
    modl = [parse_model(a) for a in common.batch(oracle, lines, timeout=900)] if oracle else [None] * len(lines)

    corr = []
    li = 0
    nreordered = 0
    viol_cases = set()

    def viol(c, key, what, replay):
        viol_cases.add(c["k"])
        chk.violation(key, what, replay)
    for c, res in zip(cases, results):
        nn = 1000000 if c["n"] is None else c["n"]
        ms = modl[li:li + len(c["streams"])]
        li += len(c["streams"])
        inputs = [HDR + b"".join(enc(e) for e in s["events"]) for s in c["streams"]]
        encs = [[enc(e) for e in s["events"]] for s in c["streams"]]
        chk.case(("W", c["n"], [hashlib.md5(x).hexdigest() for x in inputs]))
        key_in = hashlib.md5(b"|".join(inputs) + str(c["n"]).encode()).hexdigest()[:12]
        rep = case_to_replay(c)

        # ---- classification by the independent spec
        classes = []
        for s in c["streams"]:
            if not s["structure_ok"]:
                classes.append("outside:" + s["why"])
            elif s["need"] > nn:
                classes.append("lookback-too-small")
            else:
                classes.append("pre")
        for cl in classes:
            chk.count("class:" + cl)
        for f in c["features"]:
            chk.count("feature:" + f)
        mneed = max([s["need"] or 0 for s in c["streams"]])
        if c["n"] is None:
            chk.count("n:default")
        elif mneed > 0 and abs(c["n"] - mneed) <= 2:
            chk.count("n:need%+d" % (c["n"] - mneed))
        else:
            chk.count("n:other")
        chk.count("streams:%d" % len(c["streams"]))

        # ---- model expectation for the whole trace (streams are processed in relpath order; the first failure stops the run)
        if ms[0] is not None:
            exp_rc_ok = True
            exp_files = []
            for s, m, inp, eb in zip(c["streams"], ms, inputs, encs):
                if not exp_rc_ok:
                    exp_files.append(inp)
                    continue
                st, idl = m["file"].split(":")
                exp_files.append(HDR + b"".join(eb[i] for i in ids(idl)))
                if st != "ok":
                    exp_rc_ok = False
                if (m["sort"] == "none") != (st != "ok"):
                    corr.append(("model-internal", c["k"], rep, m["sort"], m["file"]))
            if res.get("short") is not None:
                mx, rcs, errs, outs = res["short"]
                chk.count("short-pwrite:%d" % mx)
                if rcs != res["rc"] or (rcs == 0 and outs != res["out"]):
                    viol(c, "short-pwrite:" + key_in, "with pwrite() transferring at most %d bytes per call ovnisort exits %s and leaves %s stream (complete writes: exit %s)" % (
                        mx, rcs, "the same" if outs == res["out"] else "a different", res["rc"]),
                        {"case": rep, "pwrite_max": mx, "stderr": errs, "how": "LD_PRELOAD=build/harness/shortio_shim-*.so SHORTIO_MAX=%d ovnisort ..." % mx})
            impl_ok = res["rc"] == 0
            if impl_ok != exp_rc_ok:
                corr.append(("exit-status", c["k"], rep, "impl rc=%s" % res["rc"], "model %s" % ("ok" if exp_rc_ok else "fails"), res["err"][-300:]))
            elif res["out"] != exp_files:
                corr.append(("bytes", c["k"], rep, "impl and model leave different stream.obs", "exit %s" % res["rc"]))
            # spec deciders agree? (Coq preb vs Python spec_pre)
            for s, m, cl in zip(c["streams"], ms, classes):
                if (m["pre"] == "1") != (cl == "pre"):
                    corr.append(("spec-decider", c["k"], rep, "coq pre=%s" % m["pre"], "python class=%s" % cl))
            if impl_ok and res.get("rc2") is not None:
                exp2 = all(m["again"] == "same" for m in ms)
                if (res["rc2"] == 0) != exp2 and all(m["again"] in ("same", "none") for m in ms):
                    corr.append(("second-run-status", c["k"], rep, "impl rc=%s" % res["rc2"], [m["again"] for m in ms]))
                if (res["rcc"] == 0) != all(m["check_out"] == "1" for m in ms):
                    corr.append(("check-mode", c["k"], rep, "impl rc=%s" % res["rcc"], [m["check_out"] for m in ms]))

        # ---- the property, judged on the implementation alone
        all_pre = all(cl == "pre" for cl in classes)
        first = classes[0]
        if all_pre:
            if res["rc"] != 0:
                if any(len(s["events"]) == 0 for s in c["streams"]):
                    # regression of /repo commit 4875105 (corpus/C16/02-empty-stream.json)
                    viol(c, "empty-stream-rejected",
                         "ovnisort exits %s on a trace with a stream that has no events (nothing is out of order)" % res["rc"],
                         {"case": rep, "exit": res["rc"], "stderr": res["err"], "fixed_by": "4875105"})
                else:
                    viol(c, "fails-inside-precondition:" + key_in,
                                  "ovnisort -n %s fails (exit %s) although every out-of-order event is inside a region and within the look-back window" % (c["n"], res["rc"]),
                                  {"case": rep, "exit": res["rc"], "stderr": res["err"], "need_n": [s["need"] for s in c["streams"]]})
            else:
                reordered = False
                for s, inp, out in zip(c["streams"], inputs, res["out"]):
                    bad = spec_post(inp, out)
                    if inp != out:
                        reordered = True
                    if bad:
                        viol(c, "wrong-output:" + key_in, "ovnisort -n %s exits 0 but: %s" % (c["n"], "; ".join(bad)),
                                      {"case": rep, "violated": bad, "stream": s["tid"]})
                nreordered += 1 if reordered else 0
                chk.count("pre:reordered" if reordered else "pre:already-in-place")
                if res["out2"] != res["out"]:
                    viol(c, "second-run-changes-bytes:" + key_in, "sorting the sorted trace again changes stream.obs",
                                  {"case": rep, "exit2": res["rc2"]})
                if res["rc2"] != 0:
                    chk.count("second-run-fails")
                    viol(c, "second-run-fails-on-sorted-output",
                                  "ovnisort -n %s sorts the trace (exit 0, ovnisort -c passes) but running the same command again on its own output fails (exit %s): "
                                  "find_destination wants a STRICTLY older event inside the ring, and after sorting more equal-clock/region events lie in front of it" % (c["n"], res["rc2"]),
                                  {"case": rep, "exit2": res["rc2"], "stderr2": res["err2"], "theorem": "C16_idempotent_refuted"})
                if res["rcc"] != 0 and any(len(s["events"]) == 0 for s in c["streams"]):
                    viol(c, "empty-stream-rejected", "ovnisort -c exits %s on a trace with a stream that has no events" % res["rcc"],
                         {"case": rep, "exit_check": res["rcc"], "stderr": res["errc"], "fixed_by": "4875105"})
                elif res["rcc"] != 0:
                    viol(c, "check-mode-rejects:" + key_in, "ovnisort -c fails on ovnisort's own successful output", {"case": rep, "stderr": res["errc"]})
                if c["emu"] and res.get("rce") != 0:
                    viol(c, "emulator-rejects:" + key_in, "ovniemu rejects the sorted trace", {"case": rep, "stderr": res.get("erre")})
                elif c["emu"]:
                    chk.count("emulator-accepted")
        elif first == "lookback-too-small":
            # must fail and say so (or, beyond what the tool promises, sort correctly anyway)
            if res["rc"] == 0:
                bad = [b for inp, out in zip(inputs, res["out"]) for b in spec_post(inp, out)]
                if bad:
                    viol(c, "silent-failure:" + key_in, "look-back too small (needs -n %s, got %s) but ovnisort exits 0 and leaves: %s" % (c["streams"][0]["need"], c["n"], "; ".join(bad)),
                                  {"case": rep, "violated": bad})
            elif not res["err"].strip():
                viol(c, "fails-without-message:" + key_in, "ovnisort fails (exit %s) without saying anything" % res["rc"], {"case": rep})
            else:
                chk.count("lookback:failed-with-message" + (":mentions -n" if "look back" in res["err"] else ""))
        else:
            # outside the precondition: nothing is demanded; record what the tool does (model == impl is still checked above)
            why = first.split(":", 1)[1] if ":" in first else "later-stream"
            if res["rc"] == 0:
                uns = False
                for out in res["out"]:
                    ok_o, evo, _ = trace.parse_obs(out)
                    cl = [e["clock"] for e in evo]
                    uns = uns or any(cl[q] > cl[q + 1] for q in range(len(cl) - 1))
                chk.count("outside:%s:exit0-%s" % (why, "leaves-unsorted-stream" if uns else "sorted-stream"))
            else:
                chk.count("outside:%s:fails" % why)
        if len(chk.samples) < 4 and all_pre and res["rc"] == 0 and res["out"] != inputs:
            ok_o, evo, _ = trace.parse_obs(res["out"][0])
            chk.sample({"n": c["n"], "input": [(e["mcv"], e["clock"], len(enc(e))) for e in c["streams"][0]["events"]][:40],
                        "output": [(e["mcv"], e["clock"], e["size"]) for e in evo][:40], "model": ms[0]["sort"] if ms[0] else None})

    if corr:
        chk.coverage["correspondence_disagreements"] = [repr(x)[:600] for x in corr[:10]]
        uncovered = [x for x in corr if x[1] not in viol_cases]
        if uncovered:
            chk.violation("broken-correspondence",
                          "model and implementation disagree on %d traces, none of which violates the property's spec" % len(uncovered),
                          {"correspondence": "winsort model vs ovnisort built from the working tree", "disagreements": [repr(x)[:1500] for x in uncovered[:8]]},
                          found_input=False)
    chk.coverage["traces_validated_against_impl"] = len(cases)
    chk.coverage["traces_actually_reordered_under_pre"] = nreordered
    chk.coverage["corpus_cases"] = ncorpus
    chk.coverage["rule"] = ("streams = OHx, segments of plain OU? events and OU[ body OU] regions, OHe; body clocks placed relative to an earlier "
                            "event at depth 0..13/whole prefix (equal / ascending / unordered / descending / equal to the marker / spread); "
                            "jumbo events up to 70000 bytes; -n chosen at need-2..need+1, random, default, 2/3/5/8/1000; 8 flaw classes for the "
                            "outside-precondition side; 10% two-stream traces; non-trivial = distinct (input bytes, n)")
