"""Shared machinery of C01 and C02: op scripts, generators, running the real libovni
(harness/rtbuf_drv.c) and the extracted model (oracle/rtbuf_drv.ml) on them, and the
independent Python deciders that judge the implementation's bytes."""
import hashlib
import json
import os
import shutil
import struct
import threading
import time

from vf import common, trace

DEFAULT_CAP_FALLBACK = 2 * 1024 * 1024
NORMAL_PAYLOADS = [0] + list(range(2, 17))          # payload sizes the API accepts
NORMAL_SIZES = [12 + p for p in NORMAL_PAYLOADS]     # 12, 14..28


# ---------------------------------------------------------------- scripts

def blob(seed, n):
    base = bytes((seed + j) & 255 for j in range(251))
    return (base * (n // 251 + 1))[:n]


class Op:
    """kind: E J F P O S X T ; fields by kind"""

    def __init__(self, kind, mcv=None, chunks=None, data=None, blobspec=None, typ=None, value=None):
        self.kind = kind
        self.mcv = mcv            # 3 bytes
        self.chunks = chunks      # list of bytes (E)
        self.data = data          # bytes (J literal)
        self.blobspec = blobspec  # (seed, len) (J blob)
        self.typ = typ
        self.value = value

    def text(self):
        k = self.kind
        if k == "E":
            return "E%s:%s" % (self.mcv.hex(), ",".join((c.hex() if c else "z") for c in self.chunks))
        if k == "J":
            if self.blobspec is not None:
                return "J%s:b%d.%d" % (self.mcv.hex(), self.blobspec[0], self.blobspec[1])
            return "J%s:h%s" % (self.mcv.hex(), self.data.hex())
        if k in "POST":
            return "%s%d,%d" % (k, self.typ, self.value)
        return k

    def jdata(self):
        if self.blobspec is not None:
            return blob(*self.blobspec)
        return self.data

    def jlen(self):
        return self.blobspec[1] if self.blobspec is not None else len(self.data)

    def size(self):
        """bytes the event occupies in the buffer (None for non-events)"""
        if self.kind == "E":
            return 12 + sum(len(c) for c in self.chunks)
        if self.kind == "J":
            return 16 + self.jlen()
        if self.kind in "POS":
            return 24
        return None


def E(mcv, *chunks):
    return Op("E", mcv=mcv, chunks=[bytes(c) for c in chunks])


def J(mcv, data=None, blobspec=None):
    return Op("J", mcv=mcv, data=data, blobspec=blobspec)


def F():
    return Op("F")


def X():
    return Op("X")


def M(kind, typ, value):
    return Op(kind, typ=typ, value=value)


class Case:
    def __init__(self, cap, clocks, ops, cls, note=None):
        self.cap = cap            # int or None (= library default)
        self.clocks = clocks
        self.ops = ops
        self.cls = cls
        self.note = note

    def line(self, fx):
        return "R %d %s %s %s" % (fx, "D" if self.cap is None else str(self.cap),
                                  ",".join(str(c) for c in self.clocks) if self.clocks else "-",
                                  ";".join(o.text() for o in self.ops) if self.ops else "-")

    def fingerprint(self):
        return hashlib.md5(self.line(1).encode()).hexdigest()[:12]

    def short(self, limit=600):
        l = self.line(1)
        return l if len(l) <= limit else l[:limit] + "...(%d chars)" % len(l)


def reject_reason(op, cap, freed):
    """Independent statement of which calls the API refuses (die): returns None if accepted."""
    if freed:
        return "thread not initialized"
    if op.kind == "E":
        tot = 0
        for c in op.chunks:
            if len(c) < 2:
                return "payload size %d too small" % len(c)
            tot += len(c)
            if tot > 16:
                return "no space left"
        return None
    if op.kind == "J":
        if 16 + op.jlen() >= cap:
            return "event too large"
        return None
    if op.kind in "POS":
        if op.value == 0:
            return "value cannot be 0"
        return None
    return None


def expected_status(case, capv):
    freed = False
    for i, op in enumerate(case.ops):
        if op.kind == "T":
            continue
        r = reject_reason(op, capv, freed)
        if r:
            return "abort", i, r
        if op.kind == "X":
            freed = True
    return "ok", None, None


# ---------------------------------------------------------------- clock streams

def sorted_clocks(rng, n, start=None, maxstep=1000):
    t = rng.range(0, 10 ** 12) if start is None else start
    out = []
    for _ in range(n):
        r = rng.below(10)
        if r < 2:
            d = 0
        elif r < 8:
            d = rng.range(1, maxstep)
        else:
            d = rng.range(1, 10 ** 7)
        t += d
        out.append(t)
    return out


def wild_clocks(rng, n):
    out = []
    for _ in range(n):
        r = rng.below(8)
        if r == 0:
            out.append(2 ** 64 - 1 - rng.below(3))
        elif r == 1:
            out.append(rng.below(3))
        elif r == 2:
            out.append(rng.next())
        else:
            out.append(rng.next() >> rng.below(60))
    return out


def clocks_needed(ops):
    return 6 * len(ops) + 8


# ---------------------------------------------------------------- generators

NO_OF = [False]     # set while generating conformant programs: no forged OF* events


def rand_mcv(rng, emu_safe=False):
    if emu_safe:
        return bytes([79, 85, rng.choice([97, 98, 120, 122, 48])])       # 'O','U',x : ignored by the emulator
    r = rng.below(10)
    if NO_OF[0]:
        m = bytes([rng.choice([79, 86, 54, 84, 255, 0, 65]), rng.choice([72, 85, 66, 0, 255, 70]), rng.below(256)])
        return m if m[:2] != b"OF" else b"OUf"
    if r == 0:
        return bytes([79, 70, rng.choice([91, 93])])                    # a user event that looks like a flush marker
    if r == 1:
        return bytes([rng.below(256), rng.below(256), rng.below(256)])
    return bytes([rng.choice([79, 86, 54, 84, 255, 0, 65]), rng.choice([72, 85, 66, 0, 255]), rng.below(256)])


def rand_chunks(rng, total):
    """split a payload of `total` bytes (0 or 2..16) into payload_add chunks each >= 2"""
    if total == 0:
        return []
    data = bytes(rng.below(256) for _ in range(total))
    chunks = []
    off = 0
    while off < total:
        rest = total - off
        if rest < 4 or rng.chance(1, 2):
            n = rest
        else:
            n = rng.range(2, rest - 2)
        chunks.append(data[off:off + n])
        off += n
    return chunks


def ev_of_size(rng, size, emu_safe=False, jumbo_ok=True):
    """one event occupying exactly `size` bytes (12, 14..28 normal; >= 16 jumbo)"""
    if size in NORMAL_SIZES and (size < 16 or not jumbo_ok or rng.chance(2, 3)):
        return E(rand_mcv(rng, emu_safe), *rand_chunks(rng, size - 12))
    assert size >= 16, size
    n = size - 16
    mcv = bytes([79, 66, 46]) if emu_safe else rand_mcv(rng)             # OB. burst: the emulator accepts jumbo bursts
    if n <= 64:
        return J(mcv, data=bytes(rng.below(256) for _ in range(n)))
    return J(mcv, blobspec=(rng.below(256), n))


def fillers(rng, d, emu_safe=False):
    """events whose sizes add up to d (d = 0, 12 or >= 14); None if impossible"""
    if d == 0:
        return []
    if d < 12 or d == 13:
        return None
    out = []
    style = rng.below(3)
    while d > 0:
        if d in NORMAL_SIZES and (style != 0 or d < 16):
            out.append(ev_of_size(rng, d, emu_safe, jumbo_ok=False))
            d = 0
        elif style == 0 and d >= 16 and not emu_safe:
            out.append(ev_of_size(rng, d, emu_safe))
            d = 0
        else:
            # take a normal piece leaving a reachable remainder
            cands = [s for s in NORMAL_SIZES if d - s == 0 or d - s == 12 or d - s >= 14]
            if not cands:
                out.append(ev_of_size(rng, d, emu_safe))
                d = 0
            else:
                s = rng.choice(cands)
                out.append(ev_of_size(rng, s, emu_safe, jumbo_ok=False))
                d -= s
    return out


def target_events(cap):
    """kinds of the 'next event' of the exhaustive generator: ('n', payload) ('j', datalen) ('m', kind)"""
    t = [("n", p) for p in NORMAL_PAYLOADS]
    t += [("j", n) for n in range(0, cap - 16)]          # totals 16 .. cap-1
    t += [("m", k) for k in "POS"]
    return t


def make_target(rng, t, emu_safe=False):
    if t[0] == "n":
        return E(rand_mcv(rng, emu_safe), *rand_chunks(rng, t[1]))
    if t[0] == "j":
        mcv = bytes([79, 66, 46]) if emu_safe else rand_mcv(rng)
        if t[1] <= 64:
            return J(mcv, data=bytes(rng.below(256) for _ in range(t[1])))
        return J(mcv, blobspec=(rng.below(256), t[1]))
    return None  # marks are produced by the caller (they need stack discipline in emulator mode)


def reachable(d):
    return d == 0 or d == 12 or d >= 14


def gen_exhaustive(rng, cap, seg_per_script=48, emu=False, clocks="sorted", only_targets=None, levels=None, conformant=False):
    NO_OF[0] = conformant
    try:
        return _gen_exhaustive(rng, cap, seg_per_script, emu, clocks, only_targets, levels)
    finally:
        NO_OF[0] = False


def _gen_exhaustive(rng, cap, seg_per_script=48, emu=False, clocks="sorted", only_targets=None, levels=None):
    """Every reachable fill level L in [0,cap) x every next event: list of Cases.
    A segment is: F (evlen becomes 24), fillers up to L, the target event.  Levels not
    reachable from 24 (L < 24, L = 37) are reached from the empty buffer at thread start."""
    targets = only_targets if only_targets is not None else target_events(cap)
    lv = levels if levels is not None else list(range(0, cap))
    from_start = []
    from_flush = []
    for L in lv:
        if L >= 24 and reachable(L - 24):
            for t in targets:
                from_flush.append((L, t))
        if reachable(L) and (L < 24 or not reachable(L - 24) or (cap <= 128 and L % 16 == 0)):
            for t in targets:
                from_start.append((L, t))
    from_flush = rng.shuffle(from_flush)
    cases = []

    def mark_ops(r, k, st):
        # keep the emulator's mark stack discipline: push v / pop v on stack type 1, set on type 2
        if k == "P":
            st.append(r.range(1, 1000))
            return M("P", 1, st[-1])
        if k == "O":
            if not st:
                st.append(r.range(1, 1000))
                return [M("P", 1, st[-1]), M("O", 1, st.pop())]
            return M("O", 1, st.pop())
        return M("S", 2, r.choice([1, -1, 2 ** 63 - 1, -2 ** 63, r.range(1, 10 ** 6)]))

    def prelude():
        return [Op("T", typ=1, value=1), Op("T", typ=2, value=0),
                E(b"OHx", struct.pack("<i", 0), struct.pack("<i", -1), struct.pack("<Q", 0))] if emu else []

    def finish(ops, st):
        if emu:
            while st:
                ops.append(M("O", 1, st.pop()))
            ops.append(E(b"OHe"))
        ops += [F(), X()]

    def mk(ops, cls):
        n = clocks_needed(ops)
        r = rng.fork("clk" + str(len(cases)))
        ck = sorted_clocks(r, n) if clocks == "sorted" else wild_clocks(r, n)
        cases.append(Case(cap, ck, ops, cls))

    # segments from the thread start: one script each
    for (L, t) in from_start:
        r = rng.fork("s%d%s" % (L, t))
        pre = prelude()
        base = sum(o.size() or 0 for o in pre)
        if not reachable(L - base) or L - base < 0:
            if emu:
                continue
        fl = fillers(r, L - base, emu)
        if fl is None:
            continue
        st = []
        ops = pre + fl
        if t[0] == "m":
            x = mark_ops(r, t[1], st)
            ops += x if isinstance(x, list) else [x]
        else:
            ops.append(make_target(r, t, emu))
        finish(ops, st)
        mk(ops, "exh-start-cap%d" % cap)
    # segments after an explicit flush
    for i in range(0, len(from_flush), seg_per_script):
        r = rng.fork("f%d" % i)
        ops = prelude()
        st = []
        for (L, t) in from_flush[i:i + seg_per_script]:
            ops.append(F())
            fl = fillers(r, L - 24, emu)
            ops += fl
            if t[0] == "m":
                if t[1] == "O" and not st and emu:
                    # the push must not disturb the fill level: put it before the flush
                    ops.insert(len(ops) - len(fl) - 1, M("P", 1, 7))
                    st.append(7)
                x = mark_ops(r, t[1], st) if (emu or t[1] != "O") else M("O", r.range(-5, 5) or 3, r.range(1, 99))
                ops += x if isinstance(x, list) else [x]
            else:
                ops.append(make_target(r, t, emu))
        finish(ops, st)
        mk(ops, "exh-flush-cap%d" % cap)
    return cases


def gen_big(rng, nscripts, cap, seg_per_script=3, emu=False):
    """real-size buffer: park evlen within 40 bytes of the boundary with one big jumbo, then one event of every kind"""
    cases = []
    targets = [("n", p) for p in NORMAL_PAYLOADS] + [("m", "S")] + [("j", n) for n in (0, 1, 5, 9, 13, 24, 40)]
    k = 0
    for s in range(nscripts):
        r = rng.fork("big%d" % s)
        ops = [Op("T", typ=2, value=0), E(b"OHx", struct.pack("<i", 0), struct.pack("<i", -1), struct.pack("<Q", 0))] if emu else []
        level = sum(o.size() or 0 for o in ops)
        for g in range(seg_per_script):
            delta = 1 + (k * 7 + r.below(3)) % 44          # room left after parking: 1..44
            t = targets[k % len(targets)]
            k += 1
            mode = r.below(4)
            if mode == 0:
                # the parked jumbo itself is the near-capacity event (total = cap - delta): the C02 defect zone when delta <= 24
                ops.append(F())
                level = 24
                big = cap - delta - 16
                ops.append(J(b"OB.", blobspec=(r.below(256), big)))
                level = None
            else:
                ops.append(F())
                level = 24
                big = cap - delta - level - 16
                ops.append(J(b"OB." if emu else rand_mcv(r), blobspec=(r.below(256), big)))
                if t[0] == "m":
                    ops.append(M("S", 2, r.range(1, 99)))
                else:
                    ops.append(make_target(r, t, emu))
        if emu:
            ops.append(E(b"OHe"))
        ops += [F(), X()]
        cases.append(Case(cap, sorted_clocks(r, clocks_needed(ops)), ops, "big"))
    return cases


def gen_random(rng, n, emu=False, maxops=300, wild=False):
    cases = []
    for s in range(n):
        r = rng.fork("rnd%d" % s)
        cap = r.choice([64, 64, 65, 77, 100, 128, 129, 200, 256, 300, 511, 1000, r.range(64, 4096)])
        nops = r.range(1, maxops)
        ops = [Op("T", typ=1, value=1), Op("T", typ=2, value=0),
               E(b"OHx", struct.pack("<i", 0), struct.pack("<i", -1), struct.pack("<Q", 0))] if emu else []
        st = []
        for _ in range(nops):
            x = r.below(100)
            if x < 45:
                ops.append(E(rand_mcv(r, emu), *rand_chunks(r, r.choice(NORMAL_PAYLOADS))))
            elif x < 70:
                hi = cap - 17
                if r.chance(1, 3):
                    nn = max(0, hi - r.below(30))          # near capacity
                else:
                    nn = r.range(0, hi)
                ops.append(ev_of_size(r, 16 + nn, emu) if not emu else
                           (J(b"OB.", data=bytes(r.below(256) for _ in range(nn))) if nn <= 64 else J(b"OB.", blobspec=(r.below(256), nn))))
            elif x < 78:
                ops.append(F())
            elif x < 86:
                v = r.range(1, 50)
                st.append(v)
                ops.append(M("P", 1, v))
            elif x < 93:
                if st:
                    ops.append(M("O", 1, st.pop()))
                elif not emu:
                    ops.append(M("O", r.range(-3, 120), r.choice([1, -1, 2 ** 63 - 1, -2 ** 63])))
            else:
                ops.append(M("S", 2, r.choice([1, -1, 2 ** 63 - 1, -2 ** 63, r.range(1, 10 ** 9)])))
        if emu:
            while st:
                ops.append(M("O", 1, st.pop()))
            ops.append(E(b"OHe"))
        tail = r.below(10)
        if emu or tail < 7:
            ops += [F(), X()]
        elif tail == 7:
            ops += [F()]
        elif tail == 8:
            ops += [X()]
        ck = wild_clocks(r, clocks_needed(ops)) if (wild and r.chance(1, 2)) else sorted_clocks(r, clocks_needed(ops))
        cases.append(Case(cap, ck, ops, "random"))
    return cases


def gen_rejected(rng, caps):
    """scripts whose last call must be refused (abort), plus the accepted neighbours"""
    cases = []
    mcv = b"OUx"
    for cap in caps:
        capv = cap
        pre_opts = [[], [E(mcv)], [E(mcv, b"ab"), F()]]
        bad = []
        bad.append(("chunk1", E(mcv, b"a")))
        bad.append(("chunk0", E(mcv, b"")))
        bad.append(("chunk1-after-2", E(mcv, b"ab", b"c")))
        bad.append(("total17", E(mcv, b"12345678", b"123456789")))
        bad.append(("total17-one", E(mcv, b"12345678901234567")))
        bad.append(("total18-three", E(mcv, b"123456", b"123456", b"123456")))
        bad.append(("jumbo-cap", J(mcv, blobspec=(1, capv - 16))))
        bad.append(("jumbo-cap+1", J(mcv, blobspec=(1, capv - 15))))
        bad.append(("jumbo-2cap", J(mcv, blobspec=(1, 2 * capv))))
        bad.append(("mark0-push", M("P", 1, 0)))
        bad.append(("mark0-pop", M("O", 1, 0)))
        bad.append(("mark0-set", M("S", 1, 0)))
        good = [("total16", E(mcv, b"12345678", b"12345678")), ("jumbo-cap-1", J(mcv, blobspec=(1, capv - 17))),
                ("chunk2", E(mcv, b"ab")), ("mark-min", M("S", -2 ** 31, -2 ** 63))]
        for name, op in bad + good:
            for pre in pre_opts:
                ops = list(pre) + [op, F(), X()]
                cases.append(Case(cap, sorted_clocks(rng.fork(name + str(cap)), clocks_needed(ops)), ops, "rejected:" + name if (name, op) in bad else "accepted:" + name))
        for name, tail in [("emit-after-free", [X(), E(mcv)]), ("flush-after-free", [X(), F()]), ("free-twice", [X(), X()]),
                           ("jumbo-after-free", [X(), J(mcv, data=b"")]), ("mark-after-free", [X(), M("S", 1, 1)])]:
            ops = [E(mcv), F()] + tail
            cases.append(Case(cap, sorted_clocks(rng.fork(name), clocks_needed(ops)), ops, "rejected:" + name))
    return cases


# ---------------------------------------------------------------- running

class Ctx:
    pass


JUDGE_LOCK = threading.Lock()


def setup(chk, want_emu=False):
    ctx = Ctx()
    # unit rtbuf: the buffer functions of src/rt/ovni.c, statement by statement (Gen/RtBuf_gen.v, proved equal to the
    # hand model in Proofs/RtBufGenProofs.v: C01_buffer_ops_from_source, C01_runs_from_source, C02_generated_code_valid_stream)
    broken = common.translate(["codec", "rtbuf", "tables", "loader", "loader_step", "rtmeta"] if chk.prop == "C02" else ["codec", "rtbuf"])
    ctx.broken = broken
    if broken:
        chk.proof_broken = {"kind": "translator", "messages": broken}
        chk.notes.append("translator refused the current source: " + "; ".join(broken))
        chk.obligations = len(common.property_theorems(chk.prop))
        chk.discharged = 0
    else:
        chk.prove()
    build = common.repo_build("hook")
    ctx.build = build
    hd = os.path.join(common.BUILD, "harness")
    os.makedirs(hd, exist_ok=True)
    # Private copy of the artefacts this check runs (libovni.so*, ovniemu): the shared build cache
    # prunes old builds while other checks run, which must not pull the library from under a run.
    art = os.path.join(hd, "rtbuf-art-" + build.tree)
    if not os.path.exists(os.path.join(art, ".ok")):
        tmp = art + ".tmp%d" % os.getpid()
        shutil.rmtree(tmp, ignore_errors=True)
        os.makedirs(tmp)
        for f in os.listdir(build.libdir):
            if f.startswith("libovni.so"):
                shutil.copy(os.path.join(build.libdir, f), os.path.join(tmp, f))
        shutil.copy(build.tool("ovniemu"), os.path.join(tmp, "ovniemu"))
        open(os.path.join(tmp, ".ok"), "w").write("ok\n")
        try:
            os.rename(tmp, art)
        except OSError:
            shutil.rmtree(tmp, ignore_errors=True)      # somebody else made it meanwhile
    now = time.time()
    for f in os.listdir(hd):
        pth = os.path.join(hd, f)
        if (f.startswith("rtbuf-art-") or f.startswith("rtbuf_drv-")) and build.tree not in f:
            try:
                if now - os.path.getmtime(pth) > 3 * 3600:
                    shutil.rmtree(pth, ignore_errors=True) if os.path.isdir(pth) else os.remove(pth)
            except OSError:
                pass
    os.utime(art, None)

    class Art:
        def tool(self, name):
            return os.path.join(art, name)
    ctx.art = Art()
    ssrc = os.path.join(common.VERIF, "harness", "shortio_shim.c")
    shim = os.path.join(hd, "shortio_shim-%s.so" % hashlib.md5(open(ssrc, "rb").read()).hexdigest()[:8])
    if not os.path.exists(shim):
        rcx, _, ex = common.run(["cc", "-shared", "-fPIC", "-O1", "-o", shim + ".tmp%d" % os.getpid(), ssrc, "-ldl"], timeout=120)
        if rcx == 0:
            os.rename(shim + ".tmp%d" % os.getpid(), shim)
    ctx.shortio = shim if os.path.exists(shim) else None
    src = os.path.join(common.VERIF, "harness", "rtbuf_drv.c")
    sig = hashlib.md5(open(src, "rb").read()).hexdigest()[:8]
    hx = os.path.join(hd, "rtbuf_drv-%s-%s-a" % (build.tree, sig))
    if not os.path.exists(hx):
        tmp = hx + ".tmp%d" % os.getpid()
        common.cc_harness(tmp, [src], build, extra=["-L" + art, "-lovni", "-Wl,-rpath," + art])
        os.replace(tmp, hx)
    ctx.hx = hx
    ctx.oracle = None
    try:
        ctx.oracle = common.build_oracle("rtbuf", "Extract_rtbuf", "rtbuf_drv.ml", "rtbuf_x")
    except Exception as e:
        chk.notes.append("oracle unavailable: %r" % (e,))
        if not getattr(chk, "proof_broken", None):
            chk.proof_broken = {"kind": "extraction", "error": repr(e)[:500]}
    # the library's default capacity, from the built header
    ctx.defcap = DEFAULT_CAP_FALLBACK
    try:
        import re
        h = open(os.path.join(build.incdir, "ovni.h")).read()
        m = re.search(r"#define\s+OVNI_MAX_EV_BUF\s+\((\d+)\s*\*\s*(\d+)LL\s*\*\s*(\d+)LL\)", h)
        if m:
            ctx.defcap = int(m.group(1)) * int(m.group(2)) * int(m.group(3))
    except OSError:
        pass
    return ctx


def oracle_cmd(ctx):
    return ["bash", "-c", "ulimit -s unlimited 2>/dev/null; exec " + ctx.oracle]


def parse_model_line(l):
    """-> dict(status, disk_len, disk_md5, disk_hex or None, log clocks list)"""
    f = l.split(" ")
    if f[0] != "ok":
        return {"status": f[0]}
    d = f[1][len("disk="):].split(":")
    logs = f[3][len("log="):]
    return {"status": "ok", "disk_len": int(d[0]), "disk_md5": d[1], "disk_hex": None if d[2] == "-" else d[2],
            "log": [] if logs == "-" else [int(x) for x in logs.split(",")]}


def obs_path(d):
    return os.path.join(d, "ovni", "loom.vf", "proc.100", "thread.100", "stream.obs")


def json_path(d):
    return os.path.join(d, "ovni", "loom.vf", "proc.100", "thread.100", "stream.json")


def run_chunk(ctx, cases, wd, tag, judge, prejudge=None, coq_valid=False):
    """Run one chunk of cases on the implementation and on both model variants, call
    judge(case, res) for each with res = dict(impl_status, dir, obs bytes, emit log, m1, m0[, coq_valid]).
    prejudge(case, res) runs before (outside the lock, e.g. the emulator)."""
    base = os.path.join(wd, tag)
    os.makedirs(base, exist_ok=True)
    lines1 = [c.line(1) for c in cases]
    # every other chunk: the program also calls ovni_attr_flush() before each ovni_flush() (metadata only)
    env = {"RTBUF_ATTR_FLUSH": "1"} if (tag[1:].isdigit() and int(tag[1:]) % 2 == 1) else None
    # every third chunk: the kernel transfers at most a few bytes per write(2) on stream.obs (a partial write is what
    # POSIX allows); the file must come out the same
    if tag[1:].isdigit() and int(tag[1:]) % 3 == 2 and getattr(ctx, "shortio", None):
        env = dict(env or {})
        env.update({"LD_PRELOAD": ctx.shortio, "SHORTIO_MAX": str([1, 7, 40, 1000][(int(tag[1:]) // 3) % 4])})
    impl = common.batch([ctx.hx, base], lines1, timeout=1200, env=env)
    vres = [None] * len(cases)
    if ctx.oracle:
        vl = []
        vidx = []
        if coq_valid:
            for i, il in enumerate(impl):
                f = il.split(" ")
                if f[0] == "ok" and os.path.exists(obs_path(f[-1])):
                    vl.append("V @" + obs_path(f[-1]))
                    vidx.append(i)
        mo = common.batch(oracle_cmd(ctx), lines1 + [c.line(0) for c in cases] + vl, timeout=1800)
        m1 = [parse_model_line(x) for x in mo[:len(cases)]]
        m0 = [parse_model_line(x) for x in mo[len(cases):2 * len(cases)]]
        for i, v in zip(vidx, mo[2 * len(cases):]):
            vres[i] = v
    else:
        m1 = m0 = [None] * len(cases)
    out = []
    for c, il, a, b, cv in zip(cases, impl, m1, m0, vres):
        f = il.split(" ")
        res = {"impl_status": f[0], "dir": f[-1] if len(f) > 1 else None, "m1": a, "m0": b, "obs": None, "emit": [], "coq_valid": cv,
               "environment": {k: (v if k != "LD_PRELOAD" else "build/harness/shortio_shim-*.so") for k, v in (env or {}).items()}}
        d = res["dir"]
        if d and os.path.isdir(d):
            try:
                res["obs"] = open(obs_path(d), "rb").read()
            except OSError:
                res["obs"] = None
            try:
                for ln in open(os.path.join(d, "emit.log")):
                    p = ln.split()
                    if len(p) == 3:
                        res["emit"].append((int(p[0]), int(p[1]), int(p[2])))
                    elif len(p) == 2:
                        res["emit"].append((int(p[0]), int(p[1]), None))
            except OSError:
                pass
        if prejudge:
            prejudge(c, res)
        with JUDGE_LOCK:
            out.append(judge(c, res))
        if d:
            shutil.rmtree(d, ignore_errors=True)
    shutil.rmtree(base, ignore_errors=True)
    return out


def run_all(ctx, cases, judge, chunk=64, workers=None, prejudge=None, coq_valid=False):
    wd = trace.workdir("ovni-verif-rtbuf-")
    try:
        chunks = [cases[i:i + chunk] for i in range(0, len(cases), chunk)]
        res = trace.pmap(lambda ic: run_chunk(ctx, ic[1], wd, "k%d" % ic[0], judge, prejudge, coq_valid), list(enumerate(chunks)), workers=workers)
    finally:
        shutil.rmtree(wd, ignore_errors=True)
    return [x for r in res for x in r]


# ---------------------------------------------------------------- independent deciders (Python)

def strict_parse(data):
    """trace.parse_obs + the reserved-bit rules of the format -> (ok, events, error)"""
    ok, evs, err = trace.parse_obs(data)
    if not ok:
        return ok, evs, err
    rebuilt = [trace.STREAM_HEADER]
    for e in evs:
        fl = e["flags"]
        if e["jumbo"] is not None:
            if fl != 0x13:
                return False, evs, "jumbo event with flags %#x at %d" % (fl, e["off"])
            rebuilt.append(trace.ev_bytes(e["mcv"], e["clock"], jumbo=e["jumbo"]))
        else:
            if fl > 15:
                return False, evs, "reserved flag bits %#x at %d" % (fl, e["off"])
            if fl == 1:
                pass
            rebuilt.append(trace.ev_bytes(e["mcv"], e["clock"], payload=e["payload"]))
    if b"".join(rebuilt) != data:
        return False, evs, "re-encoding the parsed events does not give back the file"
    return True, evs, None


def is_marker(e):
    return e["jumbo"] is None and e["mcv"] in ("OF[", "OF]") and len(e["payload"]) == 0


def user_events(case, emit):
    """expected user events from the script and the driver's emit log:
    list of (mcv str, clock candidates, payload or None, jumbo or None)"""
    out = []
    for (idx, c0, c1) in emit:
        op = case.ops[idx]
        if op.kind == "E":
            out.append((op.mcv.decode("latin1"), [case.clocks[c0]] if c0 < len(case.clocks) else [], b"".join(op.chunks), None, c1 is not None))
        elif op.kind == "J":
            out.append((op.mcv.decode("latin1"), [case.clocks[c0]] if c0 < len(case.clocks) else [], None, op.jdata(), c1 is not None))
        elif op.kind in "POS":
            mcv = "OM" + {"P": "[", "O": "]", "S": "="}[op.kind]
            hi = c1 if c1 is not None else len(case.clocks)
            out.append((mcv, list(case.clocks[c0:hi]), struct.pack("<q", op.value) + struct.pack("<i", op.typ), None, c1 is not None))
    return out


def fidelity_decide(case, res, complete):
    """C01 on the implementation's bytes. complete: every logged event must be on disk
    (the script flushed after the last event); otherwise the disk must hold a prefix.
    -> None or (reason, detail)"""
    data = res["obs"]
    if data is None:
        return ("no-stream-file", "stream.obs missing")
    if data[:8] != trace.STREAM_HEADER:
        return ("bad-header", "file starts with %s" % data[:8].hex())
    ok, evs, err = strict_parse(data)
    if not ok:
        return ("unparsable", err)
    exp = [u for u in user_events(case, res["emit"]) if u[4]]
    i = 0
    for e in evs:
        if i < len(exp):
            mcv, cands, pl, jb, _ = exp[i]
            same = (e["mcv"] == mcv and e["clock"] in cands and
                    ((jb is None and e["jumbo"] is None and e["payload"] == pl) or
                     (jb is not None and e["jumbo"] is not None and e["jumbo"] == jb)))
            if same:
                i += 1
                continue
        if is_marker(e):
            continue
        # diagnose
        if i < len(exp):
            return ("foreign-or-altered-event", "offset %d: found %s clock %d size %d; next expected user event #%d %s clocks %s" % (
                e["off"], e["mcv"].encode("latin1").hex(), e["clock"], e["size"], i, exp[i][0].encode("latin1").hex(), exp[i][1][:3]))
        return ("foreign-event", "offset %d: %s clock %d after all user events" % (e["off"], e["mcv"].encode("latin1").hex(), e["clock"]))
    if complete and i < len(exp):
        return ("event-lost", "user event #%d (%s) of %d is not in the stream" % (i, exp[i][0].encode("latin1").hex(), len(exp)))
    return None


def valid_decide(data):
    """C02 validity of the bytes (independent of the Coq decider) -> None or (reason, detail)"""
    if data is None:
        return ("no-stream-file", "stream.obs missing")
    ok, evs, err = strict_parse(data)
    if not ok:
        return ("not-tiled", err)
    last = None
    inside = False
    for e in evs:
        if last is not None and e["clock"] < last:
            return ("clock-decreases", "offset %d: %s clock %d after %d" % (e["off"], e["mcv"], e["clock"], last))
        last = e["clock"]
        if e["mcv"][:2] == "OF":
            if e["mcv"] == "OF[":
                if inside:
                    return ("flush-nested", "offset %d: OF[ inside an open flush" % e["off"])
                inside = True
            elif e["mcv"] == "OF]":
                if not inside:
                    return ("flush-unpaired", "offset %d: OF] without OF[" % e["off"])
                inside = False
            else:
                return ("flush-unknown", "offset %d: %s" % (e["off"], e["mcv"]))
    if inside:
        return ("flush-unpaired", "stream ends inside a flush")
    return None


def metadata_decide(path, expect_finished=True):
    try:
        m = json.load(open(path))
    except Exception as e:  # noqa
        return ("metadata-unreadable", repr(e)[:200])
    miss = []
    if m.get("version") != 3:
        miss.append("version=3")
    o = m.get("ovni", {})
    if o.get("part") != "thread":
        miss.append("ovni.part")
    if o.get("tid") != 100:
        miss.append("ovni.tid")
    if o.get("pid") != 100:
        miss.append("ovni.pid")
    if o.get("loom") != "vf":
        miss.append("ovni.loom")
    if o.get("app_id") != 1:
        miss.append("ovni.app_id")
    if not isinstance(o.get("require"), dict) or "ovni" not in o.get("require", {}):
        miss.append("ovni.require.ovni")
    if expect_finished and o.get("finished") != 1:
        miss.append("ovni.finished")
    if o.get("loom_cpus") != [{"index": 0, "phyid": 0}]:
        miss.append("ovni.loom_cpus")
    if miss:
        return ("metadata-incomplete", "missing/wrong: " + ", ".join(miss))
    return None


def near_cap_jumbo(case, capv):
    """does the script contain a jumbo whose total size is in [cap-24, cap-1] (the zone where the
    flush markers do not fit behind it)"""
    ds = []
    for o in case.ops:
        if o.kind == "J":
            t = 16 + o.jlen()
            if capv - 24 <= t <= capv - 1:
                ds.append(capv - t)
    return ds


def model_match(c, res):
    """which model variant the implementation's outcome equals: 'both' 'fixed' 'old' or None (neither);
    'nomodel' when the oracle is unavailable"""
    m1, m0 = res["m1"], res["m0"]
    ist = res["impl_status"]
    if m1 is None:
        return "nomodel"

    def same(m):
        if m["status"] != ist:
            return False
        if ist != "ok":
            return True
        d = res["obs"] or b""
        if m["disk_len"] != len(d) or m["disk_md5"] != hashlib.md5(d).hexdigest():
            return False
        if m["disk_hex"] is not None and m["disk_hex"] != d.hex():
            return False
        ue = user_events(c, res["emit"])
        if len(ue) != len(m["log"]):
            return False
        for u, mc in zip(ue, m["log"]):
            if mc not in u[1]:
                return False
        return True
    s1, s0 = same(m1), same(m0)
    if s1 and s0:
        return "both"
    if s1:
        return "fixed"
    if s0:
        return "old"
    return None


def load_corpus(prop):
    d = os.path.join(common.VERIF, "corpus", prop)
    out = []
    if os.path.isdir(d):
        for f in sorted(os.listdir(d)):
            if f.endswith(".txt"):
                for ln in open(os.path.join(d, f)):
                    ln = ln.strip()
                    if ln and not ln.startswith("#"):
                        out.append((f, ln))
    return out


def parse_line(ln):
    """inverse of Case.line (corpus files, replays)"""
    f = ln.split(" ")
    cap = None if f[2] == "D" else int(f[2])
    clocks = [] if f[3] == "-" else [int(x) for x in f[3].split(",")]
    ops = []
    for o in ([] if f[4] == "-" else f[4].split(";")):
        k = o[0]
        if k == "E":
            mcv, ch = o[1:].split(":")
            ops.append(E(bytes.fromhex(mcv), *[(b"" if c == "z" else bytes.fromhex(c)) for c in (ch.split(",") if ch != "" else [])]))
        elif k == "J":
            mcv, d = o[1:].split(":")
            if d[0] == "h":
                ops.append(J(bytes.fromhex(mcv), data=bytes.fromhex(d[1:])))
            else:
                sd, n = d[1:].split(".")
                ops.append(J(bytes.fromhex(mcv), blobspec=(int(sd), int(n))))
        elif k in "POST":
            t, v = o[1:].split(",")
            ops.append(Op(k, typ=int(t), value=int(v)))
        else:
            ops.append(Op(k))
    return Case(cap, clocks, ops, "corpus")
