"""C06 - view consistency: thread/CPU timelines show a value exactly when state allows."""
from vf import baycheck, common, emucheck, emucore, gen_hist

LEVEL = "proof"


def run(chk):
    build, oracle, tables = emucheck.setup(chk, extra_units=("prv", "chan", "mux", "emuloop", "pv", "connect", "bayc", "muxc", "prvreg"))
    chk.assumptions = ["distinct clocks per event", "task, mark and breakdown channels are exercised by C07, C17 and C20"]
    rng = chk.rng
    allm = [m["name"] for m in tables["models"] if m["name"] != "ovni"]
    scs = []
    for i in range(chk.budget(700, 8000)):
        r = rng.fork("v%d" % i)
        models = ["ovni"] + [m for m in allm if r.chance(1, 3)]
        s = gen_hist.base_scenario(r, tables, models=models)
        s.lint = r.chance(1, 4)
        gen_hist.thread_history(r, s, r.range(1, 25), careful=r.chance(4, 5))
        gen_hist.add_model_events(r, s, tables)
        scs.append(s)
    corr, real, model = emucheck.run_cases(chk, build, oracle, tables, scs, types=None,
                                           deciders=(emucheck.d_views, emucheck.d_thread, emucheck.d_cpu), label="views", spec_verdict=False)
    nmodel = sum(1 for s in scs for e in s.events if e[2][:2] not in ("OH", "OA"))
    chk.count("model_events", nmodel)
    for m in allm:
        chk.count("model:" + m, sum(1 for s in scs if m in s.enabled))
    chk.sample({"scenario": scs[1].describe(), "ovniemu_exit": real[1]["rc"], "model": model[1][0] if model[1] else None})
    chk.coverage["rule"] = ("random thread/affinity histories with table-driven events of random subsets of the 8 models inserted (push/pop/set/ignored, "
                            "flush, kernel in/out of CPU, wrong pops, unknown codes); judged on the real PRVs by cross-consistency of thread.prv and cpu.prv "
                            "with the thread machine and the dumped tracking modes; compared row by row with the extracted Coq model")
    emucheck.finish_corr(chk, corr)
    check_bay_layer(chk, build)


def check_bay_layer(chk, build):
    """In-process tie of the mechanical layer (coq/Emu/BayDefs.v: chan.c, bay.c, mux.c, track.c, the select functions of
    thread.c and prv.c's emit) that C06_mux_refines_emission_rule / C06_bay_refines_emission_rule are about."""
    chk.trusted_base.append(
        "hand model coq/Emu/BayDefs.v (channels, bay callback lists and dirty list, three-phase bay_propagate, mux callbacks, "
        "tracking wiring), compared in process with the real chan.c/bay.c/mux.c/track.c/prv.c through harness/bay_h.c on every run; "
        "harness/bay_h.c replays the connect loops of thread.c/cpu.c/model_thread.c/model_cpu.c/model_pvt.c call by call")
    chk.trusted_base.append(
        "translate/units/connect.py + _stagec.py: thread_init_end/thread_connect, cpu_init_end/cpu_connect/cpu_get_th_chan, track.c, "
        "model_thread.c, model_cpu.c, model_pvt.c connect functions translated to Gallina on every run; hand-written prelude "
        "coq/Emu/ConnectPre.v (bay under construction + heap; chan_init/bay_register/mux_init/mux_set_input/prv_register with the "
        "meaning of BayDefs) and driver ConnectProofs.connect_all (the calling loops of system.c/model.c, the mux_set_default tail)")
    chk.trusted_base.append(
        "translate/units/bayc.py + muxc.py + _stagec.py: bay.c (bay_register, bay_find, bay_add_cb, bay_enable_cb, bay_disable_cb, "
        "cb_chan_is_dirty, bay_init, propagate_chan, bay_propagate; every DL_FOREACH rendered as the live walk, a body that deletes "
        "from a list is refused) and mux.c (mux_init, mux_get_input, mux_set_input, mux_add_reselect, mux_set_default) translated to "
        "Gallina on every run; hand-written preludes coq/Emu/BayCPre.v (pointers into a BayDefs bay: channel names = bay ids, callback "
        "objects = positions in the callback lists, calling a callback pointer = BayDefs.run_dcb / emit, chan_flush) and "
        "coq/Emu/MuxInitPre.v (struct mux under construction; bay_add_cb / bay_find / chan_prop_set with the meaning proved of bay.c)")
    chk.trusted_base.append(
        "translate/units/prvreg.py + _stagec.py: prv_register / check_flags / get_id (prv.c) and chan_init (chan.c) translated to Gallina "
        "on every run; hand-written preludes coq/Emu/PrvRegPre.v (hash table prv->channels as the list of its ids, the struct prv_chan "
        "being filled, bay_add_cb(BAY_CB_EMIT) appends the BayDefs emit callback read off that struct) and coq/Emu/ChanInitPre.v "
        "(memset = the zero struct chan of Emu/ChanPre.v, vsnprintf = a length)")
    try:
        bad = baycheck.check_bay(chk, build, chk.budget(3000, 60000))
    except Exception as e:                      # harness or extraction does not build: the tie is broken, not the property
        chk.notes.append("bay harness unavailable: %r" % (e,))
        chk.violation("broken-correspondence:bay", "the bay-layer harness or oracle could not be built or run: %s" % (repr(e)[:300],),
                      {"correspondence": "coq/Emu/BayDefs.v vs chan.c/bay.c/mux.c/track.c/prv.c", "error": repr(e)[:600]}, found_input=False)
        return
    chk.coverage["bay_rule"] = ("random wirings of the real shape (1-4 threads, 1-3 CPUs, 1-4 model channels: stack/single, ALLOW_DUP, tracking "
                                "ANY/RUN/ACT, PRV flags, connect-time values, CPU mux defaults) built with the real track_*/mux_*/bay_*/prv_register "
                                "calls in the emulator's order; 3-14 batches of channel writes per script, each followed by bay_propagate: select and "
                                "selected input written in the same batch in both orders, select to/from a state that selects nothing, writes to "
                                "unselected inputs, refused duplicates and double writes, IGNORE_DUP channels, several CPU muxes selecting one thread, "
                                "a CPU switching to a thread whose input is dirty too, out-of-range select values; after every propagate all channel "
                                "values / last_value / dirty flags / stack depths, every mux's selected and enabled input callbacks and the PRV lines "
                                "in emission order are compared with the extracted Coq model")
    if bad:
        chk.coverage["bay_disagreements"] = bad[:5]
        chk.violation("broken-correspondence:bay",
                      "the extracted bay model and the real chan.c/bay.c/mux.c/track.c/prv.c disagree on %d of the generated scripts; "
                      "first: segment %s of script %r: real %r, model %r"
                      % (len(bad), bad[0]["first_differing_segment"], bad[0]["script"][:300], (bad[0]["impl"] or "")[:300], (bad[0]["model"] or "")[:300]),
                      {"correspondence": "coq/Emu/BayDefs.v vs chan.c/bay.c/mux.c/track.c/prv.c", "disagreements": bad[:10]}, found_input=False)
