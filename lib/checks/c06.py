"""C06 - view consistency: thread/CPU timelines show a value exactly when state allows."""
from vf import common, emucheck, emucore, gen_hist

LEVEL = "proof"


def run(chk):
    build, oracle, tables = emucheck.setup(chk)
    chk.assumptions = ["distinct clocks per event", "task, mark and breakdown channels are exercised by C07, C17 and C20"]
    rng = chk.rng
    allm = [m["name"] for m in tables["models"] if m["name"] != "ovni"]
    scs = []
    for i in range(chk.budget(700, 8000)):
        r = rng.fork("v%d" % i)
        models = ["ovni"] + [m for m in allm if r.chance(1, 3)]
        s = gen_hist.base_scenario(r, tables, models=models)
        s.lint = r.chance(1, 4)
        gen_hist.thread_history(r, s, r.range(1, 25), careful=r.chance(4, 5))
        gen_hist.add_model_events(r, s, tables)
        scs.append(s)
    corr, real, model = emucheck.run_cases(chk, build, oracle, tables, scs, types=None,
                                           deciders=(emucheck.d_views, emucheck.d_thread, emucheck.d_cpu), label="views", spec_verdict=False)
    nmodel = sum(1 for s in scs for e in s.events if e[2][:2] not in ("OH", "OA"))
    chk.count("model_events", nmodel)
    for m in allm:
        chk.count("model:" + m, sum(1 for s in scs if m in s.enabled))
    chk.sample({"scenario": scs[1].describe(), "ovniemu_exit": real[1]["rc"], "model": model[1][0] if model[1] else None})
    chk.coverage["rule"] = ("random thread/affinity histories with table-driven events of random subsets of the 8 models inserted (push/pop/set/ignored, "
                            "flush, kernel in/out of CPU, wrong pops, unknown codes); judged on the real PRVs by cross-consistency of thread.prv and cpu.prv "
                            "with the thread machine and the dumped tracking modes; compared row by row with the extracted Coq model")
    emucheck.finish_corr(chk, corr)
