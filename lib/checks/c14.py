"""C14 - version gating (runtime check, version_parse, emulator model enabling)."""
import os
import re
import shutil

from vf import common, trace

LEVEL = "proof"

DIG = "0123456789"


def spec_parse(s):
    """Independent statement of what the property fixes about version strings.
    returns ('some',(a,b,c)) for the well-formed shapes, ('none',None) for the malformed-core
    classes, ('unspecified',None) otherwise."""
    if s is None:
        return ("none", None)
    if len(s) >= 64:
        return ("none", None)
    if s.count(".") <= 1:
        return ("none", None)
    m = re.fullmatch(r"([0-9]+)\.([0-9]+)\.([0-9]+)((?:[.-].*)?)", s, re.S)
    if m:
        a, b, c = int(m.group(1)), int(m.group(2)), int(m.group(3))
        if max(a, b, c) >= 2 ** 31:
            return ("none", None)          # does not fit an int: malformed
        return ("some", (a, b, c))
    # negative or non-numeric leading components
    m = re.fullmatch(r"([^.]+)\.([^.]+)\.([^.-]+)((?:[.-].*)?)", s, re.S)
    if m:
        for comp in m.group(1, 2, 3):
            if re.fullmatch(r"-[0-9]*[1-9][0-9]*", comp):
                return ("none", None)      # negative component
            if re.search(r"[^0-9 \t\n\v\f\r+-]", comp):
                return ("none", None)      # non-numeric character
            if not re.search(r"[0-9]", comp):
                return ("none", None)      # no digits at all
    return ("unspecified", None)


def spec_compatible(w, h):
    return w[0] == h[0] and w[1] <= h[1]


def gen_strings(rng, n_random):
    nums = ["0", "1", "2", "9", "10", "11", "12", "007", "2147483647", "2147483648", "4294967295",
            "4294967296", "4294967297", "9223372036854775807", "9223372036854775808", "18446744073709551617",
            "99999999999999999999"]
    out = []
    small = ["0", "1", "2", "10", "11", "12"]
    for a in small:
        for b in small:
            out.append("%s.%s.0" % (a, b))
    for x in nums:
        out += ["%s.1.0" % x, "1.%s.0" % x, "1.1.%s" % x, "-%s.1.0" % x, "1.-%s.0" % x, "1.1.-%s" % x, "+%s.1.0" % x]
    out += ["", ".", "..", "...", "1", "1.", "1.2", "1.2.", ".1.2", "1..2", "1..2.3", "1.2..3", ".1.2.3", "1.2.3.", "1.2.3.4",
            "1.2.3-rc1", "1.2.3-", "1.2.3--", "1.2-3", "1-2.3", "1.2.3x", "1.2x.3", "x1.2.3", "1x.2.3", "a.b.c", "1.2.c",
            " 1.2.3", "1. 2.3", "1.2. 3", "1 .2.3", "1.2.3 ", "\t1.2.3", "1.\n2.3", "1.\v2.\f3", "\r1.2.3", "+1.+2.+3", "-0.0.0",
            "1.2.-0", "--1.2.3", "+-1.2.3", "1.2.+", "1.2.-", "1.+.3", "0x1.2.3", "1e3.2.3", "1.2.3.4.5.6", "1,2,3", "1.2,3",
            "١.2.3", "1.2.3-4.5", "-1.2.3", "1.-2.3", "1.2.-3", "-.1.2", "1.11.0", "1.11", "1.12.0", "2.0.0", "0.11.0"]
    for L in (60, 61, 62, 63, 64, 65, 100):
        base = "1.2."
        out.append(base + "3" * (L - len(base)))
        out.append("1.2.3-" + "r" * (L - 6))
        out.append("1" * (L - 4) + ".2.3")
    alphabet = "0123456789" * 3 + "...." + "--+ \tax"
    for _ in range(n_random):
        k = rng.range(0, 12)
        if rng.chance(1, 2):
            # mutate a valid one
            s = list("%d.%d.%d" % (rng.below(13), rng.below(13), rng.below(13)))
            for _m in range(rng.range(1, 2)):
                if s and rng.chance(1, 2):
                    s[rng.below(len(s))] = rng.choice(alphabet)
                else:
                    s.insert(rng.below(len(s) + 1), rng.choice(alphabet))
            out.append("".join(s))
        else:
            out.append("".join(rng.choice(alphabet) for _ in range(k)))
    # no NUL, latin1-encodable only
    res = []
    seen = set()
    for s in out:
        try:
            s.encode("latin1")
        except UnicodeEncodeError:
            s = s.encode("utf-8").decode("latin1")
        if "\0" in s or s in seen:
            continue
        seen.add(s)
        res.append(s)
    return res


def cls_of(s):
    k, _ = spec_parse(s)
    return k


def run(chk):
    chk.trusted_base = common.BASE_TRUST + [
        "translate/units/vparse.py (own statement-by-statement renderer over clang's AST): version_parse (the 3-round loop unrolled) and model_version_probe (thread loop as a fold) are rendered into coq/Gen/VParse_gen.v on every run; strtok_r, strtol (errno, end pointer), strlen, strcpy, snprintf's length are hand-written in coq/Emu/VParsePre.v from the same functions coq/Emu/VersionDefs.v uses; glibc behaviour assumed: strtol without digits returns 0, leaves errno and sets end = start",
        "translate/units/meta.py + _stagec.py: check_version, is_thread_stream, loom_name, proc_stream_get_pid, load_appid, load_rank, thread_stream_get_tid, thread_load_metadata, should_enable and the head / the JSON part of one loop iteration of load_cpus are rendered into coq/Gen/Meta_gen.v on every run; parson's look-up API, strcmp and the conversions double<->int are hand-written in coq/Emu/MetaPre.v over the JSON model of coq/Rt/RtMetaDefs.v (numbers are integers; `(int) d` is the identity on |d| < 2^31); clang's AST and the Python printer are trusted",
        "translator translate/c2gallina.py (clang JSON AST -> Gallina) for version_is_compatible and ovni_version_check_str; validated each run against the compiled C on the same inputs",
        "hand model of version_parse (strtok_r/strtol per POSIX, C locale) validated against the compiled C",
        "hand model of model.c should_enable/model_version_probe/model_probe validated end-to-end against ovniemu",
        "extraction (ExtrOcamlBasic only, no Extract Constant/Inductive of ours) + OCaml 4.13 + oracle/version_drv.ml",
        "parson (JSON) is not modelled: the model starts from the parsed require table",
    ]
    chk.assumptions = ["strings handed to the C functions are NUL-terminated and contain no NUL",
                       "C locale isspace()"]
    broken = common.translate(["version", "meta", "vparse"])
    if broken:
        chk.proof_broken = {"kind": "translator", "messages": broken}
        chk.notes.append("translator refused the current source: " + "; ".join(broken))
    proved = chk.prove() if not broken else False
    if broken:
        chk.obligations = len(common.property_theorems(chk.prop))
        chk.discharged = 0

    build = common.repo_build("hook")
    hx = os.path.join(common.BUILD, "harness", "version_h-" + build.tree)
    if not os.path.exists(hx):
        for f in os.listdir(os.path.dirname(hx)) if os.path.isdir(os.path.dirname(hx)) else []:
            if f.startswith("version_h-") or f.startswith("modeldump-"):
                os.remove(os.path.join(os.path.dirname(hx), f))
        common.cc_harness(hx, [os.path.join(common.VERIF, "harness", "version_h.c")], build,
                          extra=[os.path.join(build.path, "src", "libcommon-static.a"), "-L" + build.libdir, "-lovni",
                                 "-Wl,-rpath," + build.libdir])
    md = os.path.join(common.BUILD, "harness", "modeldump-" + build.tree)
    if not os.path.exists(md):
        common.cc_harness(md, [os.path.join(common.VERIF, "harness", "modeldump.c")], build, extra=build.libs_emu)

    oracle = None
    try:
        oracle = common.build_oracle("version", "Extract_version", "version_drv.ml", "version_x")
    except Exception as e:  # model does not build: no model side of the correspondence
        chk.notes.append("oracle unavailable: %r" % (e,))
        if not getattr(chk, "proof_broken", None):
            chk.proof_broken = {"kind": "extraction", "error": repr(e)[:500]}

    rng = chk.rng
    strings = gen_strings(rng, chk.budget(600, 6000))

    # ---- A: version_parse, model vs compiled C, and compiled C vs spec
    lines = ["P " + common.hexs(s) for s in strings] + ["P NULL"]
    inputs = strings + [None]
    impl = common.batch(hx, lines)
    modl = common.batch(oracle, lines) if oracle else [None] * len(lines)
    corr_broken = []
    for s, i, m in zip(inputs, impl, modl):
        chk.case(("P", s))
        chk.count("parse:" + cls_of(s))
        kind, val = spec_parse(s)
        if kind == "none" and i != "none":
            chk.violation("parse-accepts:%s" % common.hexs(s or ""), "malformed version string %r is accepted by version_parse as %s" % (s, i),
                          {"input": s, "impl": i, "expected": "refused", "how": "harness/version_h.c P <hex>"})
        if kind == "some" and i != "%d %d %d" % val:
            chk.violation("parse-wrong:%s" % common.hexs(s), "well-formed version %r parsed as %r" % (s, i),
                          {"input": s, "impl": i, "expected": val})
        if m is not None and i != m:
            corr_broken.append(("P", s, i, m))
    chk.sample({"op": "version_parse", "input": strings[40], "impl": impl[40], "model": modl[40]})

    # ---- B: ovni_version_check_str over the exhaustive neighbourhood of the library version + all strings
    libver = open(os.path.join(build.incdir, "ovni.h")).read()
    mv = re.search(r'#define OVNI_LIB_VERSION "([^"]*)"', libver)
    have = tuple(int(x) for x in mv.group(1).split("."))
    cstrs = []
    for a in range(max(0, have[0] - 1), have[0] + 2):
        for b in range(max(0, have[1] - 2), have[1] + 3):
            for c in (0, have[2] + 1):
                cstrs.append("%d.%d.%d" % (a, b, c))
    for a in range(0, 4):
        for b in range(0, 4):
            cstrs.append("%d.%d.1" % (a, b))
    cstrs += strings[: chk.budget(300, 3000)]
    clines = ["C " + common.hexs(s) for s in cstrs] + ["C NULL"]
    cin = cstrs + [None]
    impl_c = common.batch(hx, clines, timeout=900)
    modl_c = common.batch(oracle, clines) if oracle else [None] * len(clines)
    for s, i, m in zip(cin, impl_c, modl_c):
        chk.case(("C", s))
        kind, val = spec_parse(s)
        exp = None
        if kind == "none":
            exp = "die"
        elif kind == "some":
            exp = "ret" if spec_compatible(val, have) else "die"
        chk.count("check_str:" + (exp or "unspecified"))
        if exp is not None and i != exp:
            chk.violation("check_str:%s" % common.hexs(s or "NULL"),
                          "ovni_version_check_str(%r) with library %s: %s, semantic versioning demands %s" % (s, mv.group(1), i, exp),
                          {"input": s, "library_version": mv.group(1), "impl": i, "expected": exp})
        if m is not None and i != m:
            corr_broken.append(("C", s, i, m))
    chk.sample({"op": "ovni_version_check_str", "input": cstrs[3], "impl": impl_c[3], "model": modl_c[3]})

    # ---- C: version_is_compatible exhaustive on {0..3}^4 x patches {0,2}
    klines = []
    kin = []
    for a in range(4):
        for b in range(4):
            for d in range(4):
                for e in range(4):
                    for c in (0, 2):
                        for f in (0, 3):
                            klines.append("K %d %d %d %d %d %d" % (a, b, c, d, e, f))
                            kin.append(((a, b, c), (d, e, f)))
    impl_k = common.batch(hx, klines)
    modl_k = common.batch(oracle, klines) if oracle else [None] * len(klines)
    for (w, h), i, m in zip(kin, impl_k, modl_k):
        chk.case(("K", w, h))
        exp = "1" if spec_compatible(w, h) else "0"
        if i != exp:
            chk.violation("compat:%s-%s" % (".".join(map(str, w)), ".".join(map(str, h))),
                          "version_is_compatible(want=%s, have=%s) = %s, semantic versioning demands %s" % (w, h, i, exp),
                          {"want": w, "have": h, "impl": i, "expected": exp})
        if m is not None and i != m:
            corr_broken.append(("K", (w, h), i, m))
    chk.count("compat_exhaustive", len(klines))

    # ---- D: emulator model enabling, end to end
    rc, out, err = common.run([md])
    models = []
    for line in out.strip().split("\n"):
        mid, name, ver = line.split()
        models.append((int(mid), name, ver))
    models_sorted = sorted(models)
    chk.coverage["models_from_source"] = ["%c %s %s" % (m[0], m[1], m[2]) for m in models]
    ncases = chk.budget(150, 1500)
    cases = []
    for k in range(ncases):
        r = rng.fork("emu%d" % k)
        nth = r.range(1, 3)
        threads = []
        for t in range(nth):
            req = {}
            style = r.below(10)
            for (mid, name, ver) in models:
                hv = [int(x) for x in ver.split(".")]
                p = r.below(100)
                if name == "ovni":
                    if p < 85:
                        req[name] = ver
                        continue
                if p < 50:
                    continue
                elif p < 78:
                    req[name] = ver
                elif p < 92:
                    req[name] = "%d.%d.%d" % (hv[0], max(0, hv[1] - r.below(2)), r.below(5))
                elif p < 94:
                    req[name] = "%d.%d.0" % (hv[0], hv[1] + 1)
                elif p < 96:
                    req[name] = "%d.%d.0" % (hv[0] + r.choice([-1, 1]), hv[1])
                elif p < 97:
                    req[name] = r.choice(["1.2", "a.b.c", "", "1..2", "1.0.0-rc", "-1.0.0", "1.x.0"])
                else:
                    req[name] = r.choice([3, True, None, {"x": 1}, [1]])      # not a string: ignored by json_object_get_string
            norequire = (style == 0 and t == nth - 1 and r.chance(1, 3))
            threads.append(None if norequire else req)
        allflag = r.chance(1, 4)
        probe_model = r.choice(models)[0]
        cases.append({"threads": threads, "all": allflag, "probe": probe_model, "k": k})

    # corpus: base model not required by anybody (known finding), then a fully valid one
    cases.insert(0, {"threads": [{"nosv": [m for m in models if m[1] == "nosv"][0][2]}], "all": False, "probe": 86, "k": ncases})
    cases.insert(1, {"threads": [{"ovni": [m for m in models if m[1] == "ovni"][0][2]}], "all": False, "probe": 79, "k": ncases + 1})
    wd = trace.workdir()
    try:
        def run_case(c):
            d = os.path.join(wd, "c%d" % c["k"])
            tr = trace.Trace()
            for ti, req in enumerate(c["threads"]):
                tid = 100 + ti
                meta = trace.thread_meta(tid, 100, "n0", require=req if req is not None else {}, cpus=[(0, 0), (1, 1)] if ti == 0 else None)
                if req is None:
                    del meta["ovni"]["require"]
                evs = []
                if ti == 0:
                    evs.append(trace.ev_bytes("OHx", 10, (0).to_bytes(4, "little") + (tid).to_bytes(4, "little") + (0).to_bytes(4, "little")))
                    evs.append(trace.ev_bytes("%c!!" % c["probe"], 20))
                    evs.append(trace.ev_bytes("OHe", 30))
                tr.add_thread("n0", 100, tid, meta, evs)
            tr.write(d)
            rcode, o, e = trace.run_tool(build, "ovniemu", ["-a"] if c["all"] else [], d)
            shutil.rmtree(d, ignore_errors=True)
            return rcode, e
        results = trace.pmap(run_case, cases)
    finally:
        shutil.rmtree(wd, ignore_errors=True)

    mlines = []
    for c in cases:
        ms = ",".join("%d:%s:%s" % (m[0], common.hexs(m[1]), common.hexs(m[2])) for m in models_sorted)
        ts = []
        for req in c["threads"]:
            if req is None:
                ts.append("none")
            else:
                kv = [(k, v) for k, v in req.items() if isinstance(v, str)]
                ts.append(",".join("%s:%s" % (common.hexs(k), common.hexs(v)) for k, v in kv) if kv else "empty")
        mlines.append("M %d %s %s %s" % (1 if c["all"] else 0, ms, ";".join(ts), "79"))
    modl_m = common.batch(oracle, mlines) if oracle else [None] * len(mlines)

    for c, (rcode, e), m, ml in zip(cases, results, modl_m, mlines):
        chk.case(("M", ml))
        # implementation observables
        probe_failed = "probe failed for model" in e
        enabled = set()
        for mm in re.finditer(r"INFO:\s+\S+\s+[0-9.]+\s+'(.)'\s+\(\d+ events\)", e):
            enabled.add(ord(mm.group(1)))
        # spec (independent of the Coq model)
        has_bad = False
        has_unspec = False
        exp_en = set()
        for (mid, name, ver) in models:
            hv = tuple(int(x) for x in ver.split("."))
            for req in c["threads"]:
                if req is None:
                    has_bad = True
                    continue
                v = req.get(name)
                if not isinstance(v, str):
                    continue
                kind, val = spec_parse(v)
                if kind == "some":
                    if spec_compatible(val, hv):
                        exp_en.add(mid)
                    else:
                        has_bad = True
                elif kind == "none":
                    has_bad = True
                else:
                    has_unspec = True  # unspecified by the property
            if c["all"]:
                exp_en.add(mid)
        exp_fail = True if has_bad else (None if has_unspec else False)
        impl_obs = "none" if probe_failed else "en " + " ".join(str(x) for x in sorted(enabled))
        if m is not None and m != impl_obs and not (probe_failed and rcode != 0 and m == "none"):
            corr_broken.append(("M", ml, impl_obs, m))
        chk.count("emu:" + ("probe-fails" if exp_fail else "probe-ok" if exp_fail is False else "unspecified"))
        if exp_fail is True and not probe_failed:
            chk.violation("emu-accepts:%s" % ml[:60], "ovniemu does not refuse at model probing although some stream requires an incompatible/unparsable model version",
                          {"case": c, "stderr": e[:1500]})
        if exp_fail is False:
            if probe_failed:
                chk.violation("emu-probe-fails:%s" % ml[:60], "ovniemu refuses a trace whose requirements are all compatible",
                              {"case": c, "stderr": e[:1500]})
            elif enabled == exp_en | {79} and 79 not in exp_en:
                chk.violation("base-model-enabled-without-requirement",
                              "model 'O' (ovni) is enabled although no stream requires it (model_ovni_probe always returns 1)",
                              {"case": c, "stderr": e[:1500], "expected": sorted(exp_en), "theorem": "C14_enable_exactly_refuted"})
            elif enabled != exp_en:
                chk.violation("emu-enabled-set:%s" % ml[:60], "enabled models %s, semantic versioning demands %s" % (sorted(enabled), sorted(exp_en)),
                              {"case": c, "stderr": e[:1500], "expected": sorted(exp_en)})
            else:
                # disabled model's event must be rejected as such; enabled model's unknown event must not be 'not enabled'
                ne = "not enabled for event" in e
                if c["probe"] not in exp_en and 79 in exp_en and not (ne and rcode != 0):
                    chk.violation("emu-disabled-event:%s" % ml[:60], "event of disabled model '%c' was not rejected as not enabled" % c["probe"],
                                  {"case": c, "stderr": e[:1500], "exit": rcode})
                if c["probe"] in exp_en and ne:
                    chk.violation("emu-enabled-event:%s" % ml[:60], "event of enabled model '%c' rejected as not enabled" % c["probe"],
                                  {"case": c, "stderr": e[:1500], "exit": rcode})
    if cases:
        chk.sample({"op": "ovniemu model enabling", "threads_require": cases[0]["threads"], "all": cases[0]["all"], "model": modl_m[0]})

    # ---- broken correspondence / proof => violation (with or without concrete input)
    if corr_broken:
        chk.coverage["correspondence_disagreements"] = [repr(x)[:300] for x in corr_broken[:10]]
        if not chk.violations:
            chk.violation("broken-correspondence", "model and implementation disagree on %d inputs, none of which violates the property's spec" % len(corr_broken),
                          {"correspondence": "version model vs compiled C", "disagreements": [repr(x)[:300] for x in corr_broken[:20]]},
                          found_input=False)
    chk.coverage["traces_validated_against_impl"] = len(cases)
    chk.coverage["rule"] = ("version strings: structured boundary set + mutation of valid strings + random over a small alphabet; "
                            "check_str: exhaustive neighbourhood of the library version; compat: exhaustive {0..3}^4 x 2 patches; "
                            "emulator: random require tables over the models dumped from source; non-trivial = distinct input")
